//! Compiled INTO the repository crate only under `--cfg pendulum_project_ntpd_rs_verif`
//! (see /verif/DESIGN.md section 2.1). Adds items; changes no behaviour.
#![allow(missing_docs, unused_imports, unused, dead_code, unreachable_pub)]
#![allow(clippy::all, clippy::pedantic)]

// wrappers for the cfg property group (C39): load a configuration text exactly
// the way `Config::from_file` + `ntp-ctl validate` do (toml::from_str::<Config>,
// then Config::check) and report the accepted step thresholds as plain numbers.
use super::m;

use crate::daemon::config::{Config, NtpSourceConfig};
use ntp_proto::{NtpDuration, StepThreshold};

/// One bound of an accepted `StepThreshold`: `None` = unlimited ("inf").
#[derive(Debug, Clone, Copy, PartialEq)]
pub struct Bound {
    pub present: bool,
    /// seconds as reported by the public `NtpDuration::to_seconds` (sign exact)
    pub seconds: f64,
}

fn bound(d: Option<NtpDuration>) -> Bound {
    match d {
        None => Bound { present: false, seconds: 0.0 },
        Some(d) => Bound { present: true, seconds: d.to_seconds() },
    }
}

#[derive(Debug, Clone)]
pub struct Loaded {
    /// result of `Config::check`
    pub check_ok: bool,
    pub single_forward: Bound,
    pub single_backward: Bound,
    pub startup_forward: Bound,
    pub startup_backward: Bound,
    /// accumulated-step-panic-threshold (single number only); informational
    pub accumulated: Bound,
    pub n_sources: usize,
    pub n_servers: usize,
    pub n_nts_ke: usize,
    /// mode names of the accepted sources, in order
    pub source_modes: Vec<&'static str>,
}

fn summarize(cfg: &Config, check_ok: bool) -> Loaded {
    let s = &cfg.synchronization.synchronization_base;
    let st: StepThreshold = s.single_step_panic_threshold;
    let su: StepThreshold = s.startup_step_panic_threshold;
    Loaded {
        check_ok,
        single_forward: bound(st.forward),
        single_backward: bound(st.backward),
        startup_forward: bound(su.forward),
        startup_backward: bound(su.backward),
        accumulated: bound(s.accumulated_step_panic_threshold),
        n_sources: cfg.sources.len(),
        n_servers: cfg.servers.len(),
        n_nts_ke: cfg.nts_ke.len(),
        source_modes: cfg
            .sources
            .iter()
            .map(|s| match s {
                NtpSourceConfig::Standard(_) => "server",
                NtpSourceConfig::Nts(_) => "nts",
                NtpSourceConfig::Pool(_) => "pool",
                NtpSourceConfig::NtsPool(_) => "nts-pool",
                NtpSourceConfig::Sock(_) => "sock",
                #[cfg(feature = "pps")]
                NtpSourceConfig::Pps(_) => "pps",
                #[cfg(target_os = "linux")]
                NtpSourceConfig::Csptp(_) => "csptp",
            })
            .collect(),
    }
}

/// `toml::from_str::<Config>(text)` followed by `Config::check` — the two steps
/// `Config::from_file` / `ntp-ctl validate` perform on the file contents.
pub fn load_and_check(text: &str) -> Result<Loaded, String> {
    match toml::from_str::<Config>(text) {
        Ok(cfg) => {
            let ok = cfg.check();
            Ok(summarize(&cfg, ok))
        }
        Err(e) => Err(e.to_string()),
    }
}

/// The same through the public file-based entry point used by the daemon and by
/// `ntp-ctl validate` (`Config::from_args(Some(path), [], [])` + `check`).
pub fn load_file_and_check(path: &std::path::Path) -> Result<Loaded, String> {
    match Config::from_args(Some(&path), vec![], vec![]) {
        Ok(cfg) => {
            let ok = cfg.check();
            Ok(summarize(&cfg, ok))
        }
        Err(e) => Err(e.to_string()),
    }
}

/// A lone `StepThreshold` deserialised from `key = <value>` (both forms go through
/// the same `Deserialize` impl the configuration uses).
pub fn step_threshold_from_toml(value_text: &str) -> Result<(Bound, Bound), String> {
    #[derive(serde::Deserialize)]
    struct One {
        t: StepThreshold,
    }
    match toml::from_str::<One>(&format!("t = {value_text}\n")) {
        Ok(o) => Ok((bound(o.t.forward), bound(o.t.backward))),
        Err(e) => Err(e.to_string()),
    }
}
