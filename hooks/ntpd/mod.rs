//! Compiled INTO the repository crate only under `--cfg pendulum_project_ntpd_rs_verif`
//! (see /verif/DESIGN.md section 2.1). Adds items; changes no behaviour.
#![allow(missing_docs, unused_imports, unused, dead_code, unreachable_pub)]
#![allow(clippy::all, clippy::pedantic)]

/// Mirrors of `ntpd::daemon`'s private modules.
pub mod m {
    pub mod clock { pub use crate::daemon::clock::*; }
    pub mod config { pub use crate::daemon::config::*; }
    pub mod dns { pub use crate::daemon::dns::*; }
    pub mod keyexchange { pub use crate::daemon::keyexchange::*; }
    pub mod local_ip_provider { pub use crate::daemon::local_ip_provider::*; }
    pub mod ntp_source { pub use crate::daemon::ntp_source::*; }
    pub mod nts_key_provider { pub use crate::daemon::nts_key_provider::*; }
    pub mod observer { pub use crate::daemon::observer::*; }
    pub mod server { pub use crate::daemon::server::*; }
    pub mod sock_source { pub use crate::daemon::sock_source::*; }
    pub mod sockets { pub use crate::daemon::sockets::*; }
    pub mod spawn { pub use crate::daemon::spawn::*; }
    pub mod system { pub use crate::daemon::system::*; }
    pub mod util { pub use crate::daemon::util::*; }
    pub mod ctl { pub use crate::ctl::*; }
    pub mod metrics { pub use crate::metrics::*; }
}

pub mod dns_inject;
pub use dns_inject::dns_lookup;

pub mod spawnx;
pub mod obs;
pub mod cfg;
pub mod sock;
pub mod srvx;
