//! Compiled INTO the repository crate only under `--cfg pendulum_project_ntpd_rs_verif`
//! (see /verif/DESIGN.md section 2.1). Adds items; changes no behaviour.
#![allow(missing_docs, unused_imports, unused, dead_code, unreachable_pub)]
#![allow(clippy::all, clippy::pedantic)]

// wrappers for the spawnx property group (C35, C36): constructors of the real
// spawners from plain values (the address types have crate-private constructors).
use super::m;

use std::net::IpAddr;

use ntp_proto::{ProtocolVersion, SourceConfig};

use crate::daemon::config::{NormalizedAddress, NtpAddress, PoolSourceConfig, StandardSource};
use crate::daemon::spawn::pool::PoolSpawner;
use crate::daemon::spawn::standard::StandardSpawner;

pub fn ntp_address(name: &str, port: u16) -> NtpAddress {
    NtpAddress(NormalizedAddress::new_from_parts(name, port))
}

/// the real pool spawner for `name:port` with the given count and ignore list
pub fn pool_spawner(name: &str, port: u16, count: usize, ignore: Vec<IpAddr>) -> PoolSpawner {
    PoolSpawner::new(
        PoolSourceConfig {
            addr: ntp_address(name, port),
            count,
            ignore,
            ntp_version: ProtocolVersion::V4,
        },
        SourceConfig::default(),
    )
}

/// the real single-server spawner for `name:port`
pub fn standard_spawner(name: &str, port: u16) -> StandardSpawner {
    StandardSpawner::new(
        StandardSource {
            address: ntp_address(name, port),
            ntp_version: ProtocolVersion::V4,
        },
        SourceConfig::default(),
    )
}

/// the daemon's pacing constant (for the evidence only; the oracle uses the
/// statement's own "one second")
pub fn network_wait_period() -> std::time::Duration {
    crate::daemon::system::NETWORK_WAIT_PERIOD
}
