//! Compiled INTO the repository crate only under `--cfg pendulum_project_ntpd_rs_verif`
//! (see /verif/DESIGN.md section 2.1). Adds items; changes no behaviour.
#![allow(missing_docs, unused_imports, unused, dead_code, unreachable_pub)]
#![allow(clippy::all, clippy::pedantic)]

//! H4: resolver table consulted by `NormalizedAddress::lookup_host` when the
//! harness has installed one. Without an installed table the real lookup runs.
use std::collections::HashMap;
use std::net::SocketAddr;
use std::sync::{Mutex, OnceLock};

/// One scripted answer: either a list of addresses or an I/O error.
#[derive(Clone, Debug)]
pub enum DnsAnswer {
    Addrs(Vec<SocketAddr>),
    Error,
}

#[derive(Default)]
pub struct DnsTable {
    /// per (name, port): queue of answers; the last one repeats forever
    pub answers: HashMap<(String, u16), Vec<DnsAnswer>>,
    /// log of lookups performed: (name, port, answer index used)
    pub log: Vec<(String, u16, usize)>,
    pub cursor: HashMap<(String, u16), usize>,
}

fn table() -> &'static Mutex<Option<DnsTable>> {
    static T: OnceLock<Mutex<Option<DnsTable>>> = OnceLock::new();
    T.get_or_init(|| Mutex::new(None))
}

pub fn install(t: DnsTable) {
    *table().lock().unwrap() = Some(t);
}

pub fn uninstall() -> Option<DnsTable> {
    table().lock().unwrap().take()
}

pub fn with_table<R>(f: impl FnOnce(&mut DnsTable) -> R) -> Option<R> {
    table().lock().unwrap().as_mut().map(f)
}

/// Called from the guarded early return in `lookup_host`.
pub fn dns_lookup(name: &str, port: u16) -> Option<std::io::Result<Vec<SocketAddr>>> {
    let mut g = table().lock().unwrap();
    let t = g.as_mut()?;
    let key = (name.to_string(), port);
    let idx = *t.cursor.get(&key).unwrap_or(&0);
    t.log.push((key.0.clone(), port, idx));
    let Some(list) = t.answers.get(&key) else {
        return Some(Err(std::io::Error::other("verif: no such host")));
    };
    if list.is_empty() {
        return Some(Err(std::io::Error::other("verif: no answers")));
    }
    let use_idx = idx.min(list.len() - 1);
    t.cursor.insert(key, idx + 1);
    Some(match &list[use_idx] {
        DnsAnswer::Addrs(a) => Ok(a.clone()),
        DnsAnswer::Error => Err(std::io::Error::other("verif: scripted failure")),
    })
}
