//! Compiled INTO the repository crate only under `--cfg pendulum_project_ntpd_rs_verif`
//! (see /verif/DESIGN.md section 2.1). Adds items; changes no behaviour.
#![allow(missing_docs, unused_imports, unused, dead_code, unreachable_pub)]
#![allow(clippy::all, clippy::pedantic)]

// wrappers for the srvx property group
use super::m;

use m::server::ServerStats;

/// The eleven counters of `ServerStats` in declaration order:
/// received, accepted, denied, ignored, rate_limited, response_send_errors,
/// nts_received, nts_accepted, nts_denied, nts_rate_limited, nts_nak.
pub fn stats_vector(s: &ServerStats) -> [u64; 11] {
    [
        s.received_packets.get(),
        s.accepted_packets.get(),
        s.denied_packets.get(),
        s.ignored_packets.get(),
        s.rate_limited_packets.get(),
        s.response_send_errors.get(),
        s.nts_received_packets.get(),
        s.nts_accepted_packets.get(),
        s.nts_denied_packets.get(),
        s.nts_rate_limited_packets.get(),
        s.nts_nak_packets.get(),
    ]
}
