//! Compiled INTO the repository crate only under `--cfg pendulum_project_ntpd_rs_verif`
//! (see /verif/DESIGN.md section 2.1). Adds items; changes no behaviour.
#![allow(missing_docs, unused_imports, unused, dead_code, unreachable_pub)]
#![allow(clippy::all, clippy::pedantic)]

// wrappers for the obs property group (C38): build server records with chosen
// counter values (the counter's field is private) and read them back as numbers.
use super::m;

use std::net::SocketAddr;

use serde::Deserialize;
use serde::de::IntoDeserializer;

use crate::daemon::config::ServerConfig;
use crate::daemon::server::{Counter, ServerStats};
use crate::daemon::system::ServerData;

pub const N_COUNTERS: usize = 11;

fn counter(v: u64) -> Counter {
    // Counter::deserialize just wraps the u64 it is handed; no JSON involved
    let d: serde::de::value::U64Deserializer<serde::de::value::Error> = v.into_deserializer();
    Counter::deserialize(d).expect("u64 deserializer cannot fail")
}

pub fn server_stats(v: [u64; N_COUNTERS]) -> ServerStats {
    ServerStats {
        received_packets: counter(v[0]),
        accepted_packets: counter(v[1]),
        denied_packets: counter(v[2]),
        ignored_packets: counter(v[3]),
        rate_limited_packets: counter(v[4]),
        response_send_errors: counter(v[5]),
        nts_received_packets: counter(v[6]),
        nts_accepted_packets: counter(v[7]),
        nts_denied_packets: counter(v[8]),
        nts_rate_limited_packets: counter(v[9]),
        nts_nak_packets: counter(v[10]),
    }
}

pub fn server_stats_values(s: &ServerStats) -> [u64; N_COUNTERS] {
    [
        s.received_packets.get(),
        s.accepted_packets.get(),
        s.denied_packets.get(),
        s.ignored_packets.get(),
        s.rate_limited_packets.get(),
        s.response_send_errors.get(),
        s.nts_received_packets.get(),
        s.nts_accepted_packets.get(),
        s.nts_denied_packets.get(),
        s.nts_rate_limited_packets.get(),
        s.nts_nak_packets.get(),
    ]
}

/// a server record as the system publishes it on the watch channel
pub fn server_data(listen: SocketAddr, counters: [u64; N_COUNTERS]) -> ServerData {
    let config = ServerConfig::try_from(listen.to_string().as_str()).expect("socket address round trip");
    ServerData { stats: server_stats(counters), config }
}
