//! Compiled INTO the repository crate only under `--cfg pendulum_project_ntpd_rs_verif`
//! (see /verif/DESIGN.md section 2.1). Adds items; changes no behaviour.
#![allow(missing_docs, unused_imports, unused, dead_code, unreachable_pub)]
#![allow(clippy::all, clippy::pedantic)]

// wrappers for the sock property group (C40): start the real (private) SOCK
// source task with a controller and clock chosen by the harness.
use super::m;

use std::collections::HashMap;
use std::path::PathBuf;
use std::sync::{Arc, RwLock};

use ntp_proto::{ClockId, NtpClock, ObservableSourceState, OneWaySource, SourceController};

use crate::daemon::ntp_source::{MsgForSystem, SourceChannels};
use crate::daemon::sock_source::SockSourceTask;

pub struct SockTask {
    pub id: ClockId,
    pub join: tokio::task::JoinHandle<()>,
    pub snapshots: Arc<RwLock<HashMap<ClockId, ObservableSourceState>>>,
    // keeps the system channel open for the lifetime of the task
    _system_rx: tokio::sync::mpsc::Receiver<MsgForSystem>,
}

impl SockTask {
    /// number of source snapshots the task has published (0 or 1)
    pub fn snapshot_count(&self) -> usize {
        self.snapshots.read().map(|m| m.len()).unwrap_or(0)
    }
}

/// `SockSourceTask::spawn` exactly as `System::create_source` calls it: binds the
/// Unix datagram socket at `path` and spawns the receive loop on the current
/// tokio runtime. Must be called from inside a runtime.
pub fn spawn_sock_task<C, Ctl>(path: PathBuf, clock: C, controller: Ctl) -> SockTask
where
    C: 'static + NtpClock + Send + Sync,
    Ctl: SourceController,
{
    let (tx, rx) = tokio::sync::mpsc::channel(4);
    let snapshots: Arc<RwLock<HashMap<ClockId, ObservableSourceState>>> = Arc::new(RwLock::new(HashMap::new()));
    let id = ClockId::new();
    let join = SockSourceTask::spawn(
        id,
        path,
        clock,
        SourceChannels {
            msg_for_system_sender: tx,
            source_snapshots: snapshots.clone(),
        },
        OneWaySource::new(controller),
    );
    SockTask { id, join, snapshots, _system_rx: rx }
}
