//! Compiled INTO the repository crate only under `--cfg pendulum_project_ntpd_rs_verif`
//! (see /verif/DESIGN.md section 2.1). Adds items; changes no behaviour.
#![allow(missing_docs, unused_imports, unused, dead_code, unreachable_pub)]
#![allow(clippy::all, clippy::pedantic)]

// owner: group a9. `super::super` is the repository module `estimator`.
use super::super::*;

// ---- read-only accessors (C42/C43). `link_delay` mirrors the #[cfg(test)]-only method of the module. ----
pub fn link_delay<S: KalmanStorageBase>(st: &EstimatorState<S>, id: LinkId) -> Result<UncertainValue, AlgoError> {
    let link_info = st.get_link_info(id)?;
    Ok(UncertainValue {
        value: st.state[(link_info.index, 0)],
        uncertainty: st.uncertainty[(link_info.index, link_info.index)].sqrt(),
    })
}

pub fn time<S: KalmanStorageBase>(st: &EstimatorState<S>) -> Timestamp<TAI> {
    st.time
}

/// (state rows, internal clocks, external clocks, links)
pub fn dims<S: KalmanStorageBase>(st: &EstimatorState<S>) -> (usize, usize, usize, usize) {
    (st.state.rows(), st.clock_info.0.len(), st.external_clocks.0.len(), st.link_info.0.len())
}

pub fn for_each_internal_clock<S: KalmanStorageBase>(st: &EstimatorState<S>, mut f: impl FnMut(ClockId)) {
    for info in st.clock_info.iter() {
        f(info.id);
    }
}

pub fn for_each_link<S: KalmanStorageBase>(st: &EstimatorState<S>, mut f: impl FnMut(LinkId)) {
    for info in st.link_info.iter() {
        f(info.id);
    }
}
