//! Compiled INTO the repository crate only under `--cfg pendulum_project_ntpd_rs_verif`
//! (see /verif/DESIGN.md section 2.1). Adds items; changes no behaviour.
#![allow(missing_docs, unused_imports, unused, dead_code, unreachable_pub)]
#![allow(clippy::all, clippy::pedantic)]

// owner: group a9. `super::super` is the repository module `filter`.
use super::super::*;

// ---- read-only accessors (C42/C43) ----
pub fn estimator<S: KalmanStorageBase>(f: &LinkFilter<S>) -> &EstimatorState<S> {
    &f.estimation_state
}

pub fn for_each_filter_link<S: KalmanStorageBase>(f: &LinkFilter<S>, mut g: impl FnMut(LinkId, bool, bool)) {
    for l in f.links.iter() {
        g(l.id, l.active, l.link_state.is_tracked());
    }
}
