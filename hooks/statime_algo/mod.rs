//! Compiled INTO the repository crate only under `--cfg pendulum_project_ntpd_rs_verif`
//! (see /verif/DESIGN.md section 2.1). Adds items; changes no behaviour.
#![allow(missing_docs, unused_imports, unused, dead_code, unreachable_pub)]
#![allow(clippy::all, clippy::pedantic)]

pub mod m {
    pub mod estimator { pub use crate::estimator::*; }
    pub mod filter { pub use crate::filter::*; }
    pub mod link_noise { pub use crate::link_noise::*; }
    pub mod matrix { pub use crate::matrix::*; }
    pub mod ringbuffer { pub use crate::ringbuffer::*; }
    pub mod storage { pub use crate::storage::*; }
}
pub use crate::estimator::verif_probe as estimator;
pub use crate::filter::verif_probe as filter;
pub mod ctl;
