//! Compiled INTO the repository crate only under `--cfg pendulum_project_ntpd_rs_verif`
//! (see /verif/DESIGN.md section 2.1). Adds items; changes no behaviour.
#![allow(missing_docs, unused_imports, unused, dead_code, unreachable_pub)]
#![allow(clippy::all, clippy::pedantic)]

// wrappers over crate-private items of statime-algo's root (KalmanController internals)
use crate::*;

// ---- read-only accessors into a KalmanController (C42/C43) ----
pub fn with_filter<S: KalmanStorage<C>, C: Clock, R>(
    ctl: &KalmanController<S, C>,
    f: impl FnOnce(&LinkFilter<S>, &LinkFilterConfig) -> R,
) -> R {
    ctl.state.with_ref(|st| f(&st.filter, &st.filter_config))
}

pub fn clone_filter<S: KalmanStorage<C>, C: Clock>(ctl: &KalmanController<S, C>) -> (LinkFilter<S>, LinkFilterConfig) {
    ctl.state.with_ref(|st| (st.filter.clone(), st.filter_config.clone()))
}

pub fn steered_clock_count<S: KalmanStorage<C>, C: Clock>(ctl: &KalmanController<S, C>) -> usize {
    ctl.state.with_ref(|st| st.clocks.len())
}

pub fn link_id<R: AsRef<KalmanController<S, C>>, S: KalmanStorage<C>, C: Clock>(link: &KalmanLink<R, S, C>) -> LinkId {
    link.link_id
}
