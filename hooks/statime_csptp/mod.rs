//! Compiled INTO the repository crate only under `--cfg pendulum_project_ntpd_rs_verif`
//! (see /verif/DESIGN.md section 2.1). Adds items; changes no behaviour.
#![allow(missing_docs, unused_imports, unused, dead_code, unreachable_pub)]
#![allow(clippy::all, clippy::pedantic)]

pub mod m {
    pub mod manager { pub use crate::manager::*; }
    pub mod messages { pub use crate::messages::*; }
    pub mod platform { pub use crate::platform::*; }
    pub mod server { pub use crate::server::*; }
    pub mod source { pub use crate::source::*; }
}

// ---- group a9 (C44/C45): put server-side state into a manager; read it back. Adds items only. ----
pub mod a9 {
    use crate::{CsptpManager, CsptpState, StateMutex};
    use ntp_proto::{ClockId, NtpLeapIndicator};

    /// Set the leap indicator of the time snapshot the server answers from.
    pub fn set_leap<M: StateMutex>(m: &CsptpManager<M>, leap: NtpLeapIndicator) {
        m.state.with_mut(|s| s.time_snapshot.leap_indicator = leap);
    }
    pub fn leap<M: StateMutex>(m: &CsptpManager<M>) -> NtpLeapIndicator {
        m.state.with_ref(|s| s.time_snapshot.leap_indicator)
    }
    /// Replace the observable CSPTP state (what `observe()` returns).
    pub fn set_csptp_state<M: StateMutex>(m: &CsptpManager<M>, st: CsptpState) {
        m.state.with_mut(|s| s.csptp_state = st);
    }
    pub fn active_source<M: StateMutex>(m: &CsptpManager<M>) -> Option<ClockId> {
        m.state.with_ref(|s| s.active_source)
    }
}
