//! Compiled INTO the repository crate only under `--cfg pendulum_project_ntpd_rs_verif`
//! (see /verif/DESIGN.md section 2.1). Adds items; changes no behaviour.
#![allow(missing_docs, unused_imports, unused, dead_code, unreachable_pub)]
#![allow(clippy::all, clippy::pedantic)]

pub mod m {
    pub mod manager { pub use crate::manager::*; }
    pub mod messages { pub use crate::messages::*; }
    pub mod platform { pub use crate::platform::*; }
    pub mod server { pub use crate::server::*; }
    pub mod source { pub use crate::source::*; }
}
