//! Compiled INTO the repository crate only under `--cfg pendulum_project_ntpd_rs_verif`
//! (see /verif/DESIGN.md section 2.1). Adds items; changes no behaviour.
#![allow(missing_docs, unused_imports, unused, dead_code, unreachable_pub)]
#![allow(clippy::all, clippy::pedantic)]

// wrappers for the misc property group

use crate::time_types::{NtpDuration, NtpTimestamp, PollInterval};

/// raw 64-bit fixed-point views (the constructors are `pub(crate)` / test-only)
pub fn ts_from_u64(x: u64) -> NtpTimestamp {
    NtpTimestamp::from_bits(x.to_be_bytes())
}
pub fn ts_to_u64(t: NtpTimestamp) -> u64 {
    u64::from_be_bytes(t.to_bits())
}
pub fn dur_from_i64(x: i64) -> NtpDuration {
    NtpDuration::from_bits(x.to_be_bytes())
}
pub fn dur_to_i64(d: NtpDuration) -> i64 {
    // NtpDuration has no public raw accessor; a timestamp difference exposes it exactly
    ts_to_u64(ts_from_u64(0) + d) as i64
}
pub fn dur_from_bits_short(b: [u8; 4]) -> NtpDuration {
    NtpDuration::from_bits_short(b)
}
pub fn dur_to_bits_short(d: NtpDuration) -> [u8; 4] {
    d.to_bits_short()
}
pub fn dur_from_bits_time32(b: [u8; 4]) -> NtpDuration {
    NtpDuration::from_bits_time32(b)
}
pub fn dur_to_bits_time32(d: NtpDuration) -> [u8; 4] {
    d.to_bits_time32()
}
