//! Compiled INTO the repository crate only under `--cfg pendulum_project_ntpd_rs_verif`
//! (see /verif/DESIGN.md section 2.1). Adds items; changes no behaviour.
#![allow(missing_docs, unused_imports, unused, dead_code, unreachable_pub)]
#![allow(clippy::all, clippy::pedantic)]

// owner: group a6. `super::super` is the repository module `packet`.
use super::super::*;

/// The three extension-field lists of a decoded packet (private field `efdata`),
/// each field rendered with its `Debug` form (type + full data), so that a monitor
/// can compare *content* without naming private types.
pub struct FieldLists {
    pub authenticated: Vec<String>,
    pub encrypted: Vec<String>,
    pub untrusted: Vec<String>,
}

pub fn field_lists(p: &NtpPacket<'_>) -> FieldLists {
    let f = |v: &Vec<ExtensionField<'_>>| v.iter().map(|e| format!("{e:?}")).collect::<Vec<_>>();
    FieldLists {
        authenticated: f(&p.efdata.authenticated),
        encrypted: f(&p.efdata.encrypted),
        untrusted: f(&p.efdata.untrusted),
    }
}

/// (authenticated, encrypted, untrusted) list lengths and whether a legacy MAC is present
pub fn field_counts(p: &NtpPacket<'_>) -> (usize, usize, usize, bool) {
    (
        p.efdata.authenticated.len(),
        p.efdata.encrypted.len(),
        p.efdata.untrusted.len(),
        p.mac.is_some(),
    )
}

/// The draft identification string the v5 decoder insists on.
pub fn draft_version() -> &'static str {
    v5::DRAFT_VERSION
}

/// AES-SIV (the `aes-siv` crate the repository's ciphers are built on) with a caller-chosen
/// nonce: returns tag||ciphertext exactly as the repository's `Cipher::encrypt` lays it out
/// (associated data = [aad, nonce]). Key length 32 -> AES-SIV-CMAC-256, 64 -> AES-SIV-CMAC-512.
#[cfg(feature = "rustcrypto")]
pub fn siv_encrypt(key: &[u8], nonce: &[u8], aad: &[u8], plaintext: &[u8]) -> Option<Vec<u8>> {
    use aes_siv::{
        KeyInit,
        siv::{Aes128Siv, Aes256Siv},
    };
    match key.len() {
        32 => {
            let mut siv = Aes128Siv::new_from_slice(key).ok()?;
            siv.encrypt([aad, nonce], plaintext).ok()
        }
        64 => {
            let mut siv = Aes256Siv::new_from_slice(key).ok()?;
            siv.encrypt([aad, nonce], plaintext).ok()
        }
        _ => None,
    }
}

#[cfg(not(feature = "rustcrypto"))]
pub fn siv_encrypt(_key: &[u8], _nonce: &[u8], _aad: &[u8], _plaintext: &[u8]) -> Option<Vec<u8>> {
    None
}

/// Same primitive, decrypting (used by oracles to find out under which key something was sealed).
#[cfg(feature = "rustcrypto")]
pub fn siv_decrypt(key: &[u8], nonce: &[u8], aad: &[u8], ciphertext: &[u8]) -> Option<Vec<u8>> {
    use aes_siv::{
        KeyInit,
        siv::{Aes128Siv, Aes256Siv},
    };
    match key.len() {
        32 => {
            let mut siv = Aes128Siv::new_from_slice(key).ok()?;
            siv.decrypt([aad, nonce], ciphertext).ok()
        }
        64 => {
            let mut siv = Aes256Siv::new_from_slice(key).ok()?;
            siv.decrypt([aad, nonce], ciphertext).ok()
        }
        _ => None,
    }
}

#[cfg(not(feature = "rustcrypto"))]
pub fn siv_decrypt(_key: &[u8], _nonce: &[u8], _aad: &[u8], _ciphertext: &[u8]) -> Option<Vec<u8>> {
    None
}

/// A session cipher (client key context) from raw key bytes: 32 bytes -> CMAC-256, 64 -> CMAC-512.
pub fn cipher_from_key(key: &[u8]) -> Option<Box<dyn Cipher>> {
    match key.len() {
        32 => Some(Box::new(AesSivCmac256::try_from(key).ok()?)),
        64 => Some(Box::new(AesSivCmac512::try_from(key).ok()?)),
        _ => None,
    }
}
