//! Compiled INTO the repository crate only under `--cfg pendulum_project_ntpd_rs_verif`
//! (see /verif/DESIGN.md section 2.1). Adds items; changes no behaviour.
#![allow(missing_docs, unused_imports, unused, dead_code, unreachable_pub)]
#![allow(clippy::all, clippy::pedantic)]

// wrappers for the ke property group (owner: group a7)

use crate::keyset::KeySet;
use crate::nts::KeyExchangeResult;
use crate::source::ProtocolVersion;

/// A server cookie decoded with the given key set: (AEAD id, c2s key bytes, s2c key bytes).
pub fn decode_cookie(keyset: &KeySet, cookie: &[u8]) -> Option<(u16, Vec<u8>, Vec<u8>)> {
    let d = keyset.decode_cookie(cookie).ok()?;
    Some((
        u16::from(d.algorithm),
        d.c2s.key_bytes().to_vec(),
        d.s2c.key_bytes().to_vec(),
    ))
}

/// What a key-exchange client ended up with, as plain data.
#[derive(Debug, Clone, PartialEq, Eq)]
pub struct ResultParts {
    pub remote: String,
    pub port: u16,
    /// 4 = NTPv4, 5 = NTPv5 (final), 45 = v4 upgrading to v5, 54 = upgraded to v5
    pub version: u8,
    pub c2s: Vec<u8>,
    pub s2c: Vec<u8>,
    /// cookies in the order the stash hands them out
    pub cookies: Vec<Vec<u8>>,
}

pub fn result_parts(mut r: KeyExchangeResult) -> ResultParts {
    let mut cookies = vec![];
    // bounded: the stash holds at most MAX_COOKIES entries
    for _ in 0..64 {
        match r.nts.cookies.get() {
            Some(c) => cookies.push(c),
            None => break,
        }
    }
    ResultParts {
        remote: r.remote.clone(),
        port: r.port,
        version: match r.protocol_version {
            ProtocolVersion::V4 => 4,
            ProtocolVersion::V5 => 5,
            ProtocolVersion::V4UpgradingToV5 { .. } => 45,
            ProtocolVersion::UpgradedToV5 => 54,
        },
        c2s: r.nts.c2s.key_bytes().to_vec(),
        s2c: r.nts.s2c.key_bytes().to_vec(),
        cookies,
    }
}
