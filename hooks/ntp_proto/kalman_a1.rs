//! Compiled INTO the repository crate only under `--cfg pendulum_project_ntpd_rs_verif`
//! (see /verif/DESIGN.md section 2.1). Adds items; changes no behaviour.
#![allow(missing_docs, unused_imports, unused, dead_code, unreachable_pub)]
#![allow(clippy::all, clippy::pedantic)]

// owner: group a1. `super::super` is the repository module `algorithm::kalman`.
use super::super::*;

// ---- read-only views of private controller state (C01, C02, C06) ----

pub fn in_startup<C: NtpClock>(c: &KalmanClockController<C>) -> bool {
    c.in_startup
}
pub fn freq_offset<C: NtpClock>(c: &KalmanClockController<C>) -> f64 {
    c.freq_offset
}
pub fn desired_freq<C: NtpClock>(c: &KalmanClockController<C>) -> f64 {
    c.desired_freq
}
pub fn timedata<C: NtpClock>(c: &KalmanClockController<C>) -> TimeSnapshot {
    c.timedata
}
pub fn source_count<C: NtpClock>(c: &KalmanClockController<C>) -> usize {
    c.sources.len()
}

// ---- direct drive of the private steering routines (mode (c) of E-CLK) ----

pub fn steer_offset<C: NtpClock>(
    c: &mut KalmanClockController<C>,
    change: f64,
    freq_delta: f64,
) -> InternalStateUpdate<KalmanControllerMessage> {
    c.steer_offset(change, freq_delta)
}
pub fn steer_frequency<C: NtpClock>(
    c: &mut KalmanClockController<C>,
    change: f64,
) -> InternalStateUpdate<KalmanControllerMessage> {
    c.steer_frequency(change)
}
pub fn check_offset_steer<C: NtpClock>(c: &mut KalmanClockController<C>, change: f64) {
    c.check_offset_steer(change)
}

// ---- plain-number views of the private message types ----

/// f64 view of the per-source estimate forwarded to the clock controller.
#[derive(Debug, Clone, Copy)]
pub struct SnapView {
    pub offset: f64,
    pub frequency: f64,
    pub var00: f64,
    pub var01: f64,
    pub var10: f64,
    pub var11: f64,
    pub delay: f64,
    pub wander: f64,
    pub period: Option<f64>,
    pub filter_time: NtpTimestamp,
    pub last_update: NtpTimestamp,
    pub source_uncertainty: NtpDuration,
    pub source_delay: NtpDuration,
    pub leap: NtpLeapIndicator,
}

fn view(s: &SourceSnapshot) -> SnapView {
    SnapView {
        offset: s.state.state.ventry(0),
        frequency: s.state.state.ventry(1),
        var00: s.state.uncertainty.entry(0, 0),
        var01: s.state.uncertainty.entry(0, 1),
        var10: s.state.uncertainty.entry(1, 0),
        var11: s.state.uncertainty.entry(1, 1),
        delay: s.delay,
        wander: s.wander,
        period: s.period,
        filter_time: s.state.time,
        last_update: s.last_update,
        source_uncertainty: s.source_uncertainty,
        source_delay: s.source_delay,
        leap: s.leap_indicator,
    }
}

pub fn snap_view(m: &KalmanSourceMessage) -> SnapView {
    view(&m.inner)
}

/// What `SourceSnapshot::observe` would report for this message (same code path as
/// `InternalSourceController::observe` for a source that has a snapshot).
pub fn snap_observe(m: &KalmanSourceMessage) -> ObservableSourceTimedata {
    m.inner.observe()
}

/// The controller's own copy of every source snapshot (after `progress_time`/steering): id, view, usable
pub fn controller_sources<C: NtpClock>(c: &KalmanClockController<C>) -> Vec<(ClockId, Option<SnapView>, bool)> {
    let mut v: Vec<_> = c
        .sources
        .iter()
        .map(|(id, (s, usable))| (*id, s.as_ref().map(view), *usable))
        .collect();
    v.sort_by_key(|e| e.0);
    v
}

/// (is_step, steer, time-of-frequency-change) of a controller message
pub fn ctrl_msg_view(m: &KalmanControllerMessage) -> (bool, f64, Option<NtpTimestamp>) {
    match &m.inner {
        KalmanControllerMessageInner::Step { steer } => (true, *steer, None),
        KalmanControllerMessageInner::FreqChange { steer, time } => (false, *steer, Some(*time)),
    }
}
