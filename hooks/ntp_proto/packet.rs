//! Compiled INTO the repository crate only under `--cfg pendulum_project_ntpd_rs_verif`
//! (see /verif/DESIGN.md section 2.1). Adds items; changes no behaviour.
#![allow(missing_docs, unused_imports, unused, dead_code, unreachable_pub)]
#![allow(clippy::all, clippy::pedantic)]

// Child-module probe of the repository module `packet`. Sub-files (one owner each) see that
// module as `super::super` and may touch its private items.
#[path = "packet_a4.rs"]
pub mod a4;
#[path = "packet_a5.rs"]
pub mod a5;
#[path = "packet_a6.rs"]
pub mod a6;
