//! Compiled INTO the repository crate only under `--cfg pendulum_project_ntpd_rs_verif`
//! (see /verif/DESIGN.md section 2.1). Adds items; changes no behaviour.
#![allow(missing_docs, unused_imports, unused, dead_code, unreachable_pub)]
#![allow(clippy::all, clippy::pedantic)]

// wrappers for the srv property group

use crate::identifiers::ReferenceId;
use crate::keyset::{DecodedServerCookie, KeySet};
use crate::nts::AeadAlgorithm;
use crate::packet::{AesSivCmac256, AesSivCmac512, Cipher};

/// `ReferenceId::from_int` / `to_bytes` are `pub(crate)`.
pub fn refid_from_u32(x: u32) -> ReferenceId {
    ReferenceId::from_int(x)
}
pub fn refid_to_u32(r: ReferenceId) -> u32 {
    u32::from_be_bytes(r.to_bytes())
}

/// A cipher object of the crate for AEAD algorithm 15 (AES-SIV-CMAC-256, 32-byte key) or
/// 17 (AES-SIV-CMAC-512, 64-byte key).
pub fn make_cipher(alg: u16, key: &[u8]) -> Option<Box<dyn Cipher>> {
    match alg {
        15 => AesSivCmac256::try_from(key).ok().map(|c| Box::new(c) as Box<dyn Cipher>),
        17 => AesSivCmac512::try_from(key.iter().copied()).ok().map(|c| Box::new(c) as Box<dyn Cipher>),
        _ => None,
    }
}

/// `DecodedServerCookie::algorithm` is `pub(crate)`: build one from plain bytes.
pub fn make_cookie(alg: u16, s2c: &[u8], c2s: &[u8]) -> Option<DecodedServerCookie> {
    Some(DecodedServerCookie {
        algorithm: AeadAlgorithm::from(alg),
        s2c: make_cipher(alg, s2c)?,
        c2s: make_cipher(alg, c2s)?,
    })
}

/// (algorithm id, s2c key bytes, c2s key bytes)
pub fn cookie_parts(c: &DecodedServerCookie) -> (u16, Vec<u8>, Vec<u8>) {
    (u16::from(c.algorithm), c.s2c.key_bytes().to_vec(), c.c2s.key_bytes().to_vec())
}

/// `KeySet::encode_cookie` / `decode_cookie` are `pub(crate)`.
pub fn encode_cookie(ks: &KeySet, c: &DecodedServerCookie) -> Vec<u8> {
    ks.encode_cookie(c)
}
pub fn decode_cookie(ks: &KeySet, cookie: &[u8]) -> Option<(u16, Vec<u8>, Vec<u8>)> {
    ks.decode_cookie(cookie).ok().map(|c| cookie_parts(&c))
}

/// AES-SIV straight from the `aes-siv` dependency (not through the crate's `Cipher`
/// wrappers) with a caller-chosen nonce: the harness builds NTS authenticator fields
/// and opens server replies with these.
#[cfg(feature = "rustcrypto")]
pub fn siv_encrypt(alg: u16, key: &[u8], nonce: &[u8], aad: &[u8], plaintext: &[u8]) -> Option<Vec<u8>> {
    use aes_siv::{KeyInit, siv::Aes128Siv, siv::Aes256Siv};
    match alg {
        15 => Aes128Siv::new_from_slice(key).ok()?.encrypt([aad, nonce], plaintext).ok(),
        17 => Aes256Siv::new_from_slice(key).ok()?.encrypt([aad, nonce], plaintext).ok(),
        _ => None,
    }
}
#[cfg(feature = "rustcrypto")]
pub fn siv_decrypt(alg: u16, key: &[u8], nonce: &[u8], aad: &[u8], ciphertext: &[u8]) -> Option<Vec<u8>> {
    use aes_siv::{KeyInit, siv::Aes128Siv, siv::Aes256Siv};
    match alg {
        15 => Aes128Siv::new_from_slice(key).ok()?.decrypt([aad, nonce], ciphertext).ok(),
        17 => Aes256Siv::new_from_slice(key).ok()?.decrypt([aad, nonce], ciphertext).ok(),
        _ => None,
    }
}
