//! Compiled INTO the repository crate only under `--cfg pendulum_project_ntpd_rs_verif`
//! (see /verif/DESIGN.md section 2.1). Adds items; changes no behaviour.
#![allow(missing_docs, unused_imports, unused, dead_code, unreachable_pub)]
#![allow(clippy::all, clippy::pedantic)]

// owner: group a5. `super::super` is the repository module `server`.
use super::super::*;

use std::net::IpAddr;
use std::time::{Duration, Instant};

/// Number of slots of the server's rate-limit cache.
pub fn cache_len<C>(s: &Server<C>) -> usize {
    s.client_cache.elements.len()
}
/// Slot an address maps to in this server's cache (None when the cache is disabled).
pub fn cache_index<C>(s: &Server<C>, ip: IpAddr) -> Option<usize> {
    if s.client_cache.elements.is_empty() {
        None
    } else {
        Some(s.client_cache.index(&ip))
    }
}
/// Current occupant of a slot.
pub fn cache_slot<C>(s: &Server<C>, idx: usize) -> Option<(IpAddr, Instant)> {
    s.client_cache
        .elements
        .get(idx)
        .and_then(|e| e.as_ref().map(|(a, t)| (*a, *t)))
}

/// The private `TimestampedCache<IpAddr>` on its own, driven with synthetic `Instant`s.
pub struct CacheProbe(TimestampedCache<IpAddr>);

impl CacheProbe {
    pub fn new(len: usize) -> Self {
        CacheProbe(TimestampedCache::new(len))
    }
    pub fn len(&self) -> usize {
        self.0.elements.len()
    }
    pub fn index(&self, ip: IpAddr) -> Option<usize> {
        if self.0.elements.is_empty() {
            None
        } else {
            Some(self.0.index(&ip))
        }
    }
    pub fn is_allowed(&mut self, ip: IpAddr, at: Instant, cutoff: Duration) -> bool {
        self.0.is_allowed(ip, at, cutoff)
    }
    pub fn slot(&self, idx: usize) -> Option<(IpAddr, Instant)> {
        self.0
            .elements
            .get(idx)
            .and_then(|e| e.as_ref().map(|(a, t)| (*a, *t)))
    }
}
