//! Compiled INTO the repository crate only under `--cfg pendulum_project_ntpd_rs_verif`
//! (see /verif/DESIGN.md section 2.1). Adds items; changes no behaviour.
#![allow(missing_docs, unused_imports, unused, dead_code, unreachable_pub)]
#![allow(clippy::all, clippy::pedantic)]

// owner: group a3. `super::super` is the repository module `source`.
use super::super::*;

/// Plain-number view of the private session state of an `NtpSource` (read-only; used by
/// the a3 monitors for violation details and shape signatures, never for verdicts).
#[derive(Clone, Copy, Debug, PartialEq, Eq, Hash)]
pub struct SrcProbe {
    /// 0 = V4, 1 = V4UpgradingToV5, 2 = UpgradedToV5, 3 = V5
    pub proto: u8,
    /// `tries_left` of V4UpgradingToV5 (0 otherwise)
    pub tries_left: u8,
    pub reach: u8,
    pub tries: usize,
    pub last_poll: i8,
    pub remote_min_poll: i8,
    pub have_deny: bool,
    pub has_pending: bool,
    pub stratum: u8,
    pub is_nts: bool,
}

pub fn probe<C: SourceController>(s: &NtpSource<C>) -> SrcProbe {
    let (proto, tries_left) = match s.protocol_version {
        ProtocolVersion::V4 => (0, 0),
        ProtocolVersion::V4UpgradingToV5 { tries_left } => (1, tries_left),
        ProtocolVersion::UpgradedToV5 => (2, 0),
        ProtocolVersion::V5 => (3, 0),
    };
    SrcProbe {
        proto,
        tries_left,
        reach: s.reach.0,
        tries: s.tries,
        last_poll: s.last_poll_interval.as_log(),
        remote_min_poll: s.remote_min_poll_interval.as_log(),
        have_deny: s.have_deny_rstr_response,
        has_pending: s.current_request_identifier.is_some(),
        stratum: s.stratum,
        is_nts: s.nts.is_some(),
    }
}

/// The controller owned by the source (the spy the harness installed).
pub fn controller<C: SourceController>(s: &NtpSource<C>) -> &C {
    &s.controller
}
