//! Compiled INTO the repository crate only under `--cfg pendulum_project_ntpd_rs_verif`
//! (see /verif/DESIGN.md section 2.1). Adds items; changes no behaviour.
#![allow(missing_docs, unused_imports, unused, dead_code, unreachable_pub)]
#![allow(clippy::all, clippy::pedantic)]

// Child-module probe of the repository module `nts`. Sub-files (one owner each) see that
// module as `super::super` and may touch its private items.
#[path = "nts_a6.rs"]
pub mod a6;
#[path = "nts_a7.rs"]
pub mod a7;
