//! Compiled INTO the repository crate only under `--cfg pendulum_project_ntpd_rs_verif`
//! (see /verif/DESIGN.md section 2.1). Adds items; changes no behaviour.
#![allow(missing_docs, unused_imports, unused, dead_code, unreachable_pub)]
#![allow(clippy::all, clippy::pedantic)]

// owner: group a5. `super::super` is the repository module `packet`.
use super::super::*;

/// The NTPv5 draft identification string the server insists on (`pub(crate)` constant).
pub fn draft_version() -> &'static str {
    v5::DRAFT_VERSION
}
