//! Compiled INTO the repository crate only under `--cfg pendulum_project_ntpd_rs_verif`
//! (see /verif/DESIGN.md section 2.1). Adds items; changes no behaviour.
#![allow(missing_docs, unused_imports, unused, dead_code, unreachable_pub)]
#![allow(clippy::all, clippy::pedantic)]

// wrappers for the pkt property group (owner: a6)

use std::net::IpAddr;

use crate::ipfilter::IpFilter;
use crate::keyset::{DecodedServerCookie, KeySet};
use crate::nts::AeadAlgorithm;
use crate::packet::{AesSivCmac256, AesSivCmac512, Cipher};
use crate::server::IpSubnet;

/// Build the content of a server cookie (`algorithm` is `pub(crate)`): AEAD id 15 -> 2x32-byte
/// keys, 17 -> 2x64-byte keys. None when the key sizes do not fit the algorithm.
pub fn make_cookie(alg: u16, s2c: &[u8], c2s: &[u8]) -> Option<DecodedServerCookie> {
    let algorithm = AeadAlgorithm::from(alg);
    match algorithm {
        AeadAlgorithm::AeadAesSivCmac256 => Some(DecodedServerCookie {
            algorithm,
            s2c: Box::new(AesSivCmac256::try_from(s2c).ok()?),
            c2s: Box::new(AesSivCmac256::try_from(c2s).ok()?),
        }),
        AeadAlgorithm::AeadAesSivCmac512 => Some(DecodedServerCookie {
            algorithm,
            s2c: Box::new(AesSivCmac512::try_from(s2c).ok()?),
            c2s: Box::new(AesSivCmac512::try_from(c2s).ok()?),
        }),
        AeadAlgorithm::Unknown(_) => None,
    }
}

/// (AEAD id, s2c key bytes, c2s key bytes) of a decoded cookie
pub fn cookie_parts(c: &DecodedServerCookie) -> (u16, Vec<u8>, Vec<u8>) {
    (
        u16::from(c.algorithm),
        c.s2c.key_bytes().to_vec(),
        c.c2s.key_bytes().to_vec(),
    )
}

pub fn encode_cookie(ks: &KeySet, c: &DecodedServerCookie) -> Vec<u8> {
    ks.encode_cookie(c)
}

pub fn decode_cookie(ks: &KeySet, cookie: &[u8]) -> Option<DecodedServerCookie> {
    ks.decode_cookie(cookie).ok()
}

/// decode and flatten in one go
pub fn decode_cookie_parts(ks: &KeySet, cookie: &[u8]) -> Option<(u16, Vec<u8>, Vec<u8>)> {
    ks.decode_cookie(cookie).ok().map(|c| cookie_parts(&c))
}

/// `IpFilter` is `pub(crate)`: opaque wrapper.
pub struct Filter(IpFilter);

impl Filter {
    pub fn new(subnets: &[IpSubnet]) -> Filter {
        Filter(IpFilter::new(subnets))
    }
    pub fn is_in(&self, addr: IpAddr) -> bool {
        self.0.is_in(addr)
    }
}
