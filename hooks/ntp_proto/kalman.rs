//! Compiled INTO the repository crate only under `--cfg pendulum_project_ntpd_rs_verif`
//! (see /verif/DESIGN.md section 2.1). Adds items; changes no behaviour.
#![allow(missing_docs, unused_imports, unused, dead_code, unreachable_pub)]
#![allow(clippy::all, clippy::pedantic)]

// Child-module probe of the repository module `algorithm::kalman`. Sub-files (one owner each) see that
// module as `super::super` and may touch its private items.
#[path = "kalman_a1.rs"]
pub mod a1;
#[path = "kalman_a2.rs"]
pub mod a2;
