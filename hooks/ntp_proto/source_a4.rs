//! Compiled INTO the repository crate only under `--cfg pendulum_project_ntpd_rs_verif`
//! (see /verif/DESIGN.md section 2.1). Adds items; changes no behaviour.
#![allow(missing_docs, unused_imports, unused, dead_code, unreachable_pub)]
#![allow(clippy::all, clippy::pedantic)]

// owner: group a4. `super::super` is the repository module `source`.
use super::super::*;

/// Plain-number view of the private session state of an `NtpSource`.
#[derive(Debug, Clone, PartialEq, Eq, Hash)]
pub struct Digest {
    pub reach: u8,
    pub tries: usize,
    pub last_poll: i8,
    pub remote_min_poll: i8,
    pub have_deny_rstr: bool,
    pub pending: bool,
    pub stratum: u8,
    pub reference_id: [u8; 4],
    pub source_id: [u8; 4],
    /// 0 = V4, 1 = V4UpgradingToV5, 2 = UpgradedToV5, 3 = V5
    pub version: u8,
    pub upgrade_tries_left: u8,
    pub cookies: Option<usize>,
    pub bloom_full: bool,
}

pub fn digest<C: SourceController>(s: &NtpSource<C>) -> Digest {
    let (version, upgrade_tries_left) = match s.protocol_version {
        ProtocolVersion::V4 => (0, 0),
        ProtocolVersion::V4UpgradingToV5 { tries_left } => (1, tries_left),
        ProtocolVersion::UpgradedToV5 => (2, 0),
        ProtocolVersion::V5 => (3, 0),
    };
    Digest {
        reach: s.reach.0,
        tries: s.tries,
        last_poll: s.last_poll_interval.as_log(),
        remote_min_poll: s.remote_min_poll_interval.as_log(),
        have_deny_rstr: s.have_deny_rstr_response,
        pending: s.current_request_identifier.is_some(),
        stratum: s.stratum,
        reference_id: s.reference_id.to_bytes(),
        source_id: s.source_id.to_bytes(),
        version,
        upgrade_tries_left,
        cookies: s.nts.as_ref().map(|n| n.cookies.len()),
        bloom_full: s.bloom_filter.full_filter().is_some(),
    }
}

/// The source's current copy of the remote Bloom filter once complete.
pub fn bloom_bytes<C: SourceController>(s: &NtpSource<C>) -> Option<Vec<u8>> {
    s.bloom_filter.full_filter().map(|f| f.as_bytes().to_vec())
}
