//! Compiled INTO the repository crate only under `--cfg pendulum_project_ntpd_rs_verif`
//! (see /verif/DESIGN.md section 2.1). Adds items; changes no behaviour.
#![allow(missing_docs, unused_imports, unused, dead_code, unreachable_pub)]
#![allow(clippy::all, clippy::pedantic)]

// owner: group a2. `super::super` is the repository module `algorithm::kalman`.
use super::super::*;

use super::super::matrix::{Matrix, Vector};
use super::super::source::KalmanState as KState;
// `super::super::super` is the repository module `algorithm`
use super::super::super::{
    InternalTimeSyncController as ITSC, TimeSyncControllerWrapper as TSCW, WrapperMessage as WMsg,
};

/// Plain-number view of the private `SourceSnapshot` (what a source filter
/// reports to the clock controller). Used by C03/C04/C37 to inject synthetic
/// per-source estimates and to read the tag (`time`) of a forwarded message.
#[derive(Debug, Clone, Copy)]
pub struct SynthSnap {
    pub id: u64,
    pub offset: f64,
    pub freq: f64,
    pub var_offset: f64,
    pub cov: f64,
    pub var_freq: f64,
    pub wander: f64,
    pub delay: f64,
    pub period: Option<f64>,
    pub source_uncertainty: NtpDuration,
    pub source_delay: NtpDuration,
    pub leap: NtpLeapIndicator,
    pub time: NtpTimestamp,
}

fn to_snapshot(s: &SynthSnap) -> SourceSnapshot {
    SourceSnapshot {
        index: ClockId(s.id),
        state: KState {
            state: Vector::new_vector([s.offset, s.freq]),
            uncertainty: Matrix::new([[s.var_offset, s.cov], [s.cov, s.var_freq]]),
            time: s.time,
        },
        wander: s.wander,
        delay: s.delay,
        period: s.period,
        source_uncertainty: s.source_uncertainty,
        source_delay: s.source_delay,
        leap_indicator: s.leap,
        last_update: s.time,
    }
}

fn from_snapshot(s: &SourceSnapshot) -> SynthSnap {
    SynthSnap {
        id: s.index.0,
        offset: s.state.state.ventry(0),
        freq: s.state.state.ventry(1),
        var_offset: s.state.uncertainty.entry(0, 0),
        cov: s.state.uncertainty.entry(0, 1),
        var_freq: s.state.uncertainty.entry(1, 1),
        wander: s.wander,
        delay: s.delay,
        period: s.period,
        source_uncertainty: s.source_uncertainty,
        source_delay: s.source_delay,
        leap: s.leap_indicator,
        time: s.last_update,
    }
}

/// Build the message a source filter would send for this snapshot.
pub fn make_message(s: &SynthSnap) -> KalmanSourceMessage {
    KalmanSourceMessage { inner: to_snapshot(s) }
}

/// Read a source message back as plain numbers.
pub fn view_message(m: &KalmanSourceMessage) -> SynthSnap {
    from_snapshot(&m.inner)
}

/// `last_update` of a message (the local time of the measurement that produced it).
pub fn message_time(m: &KalmanSourceMessage) -> NtpTimestamp {
    m.inner.last_update
}

pub fn clock_id(x: u64) -> ClockId {
    ClockId(x)
}

pub fn clock_id_raw(id: ClockId) -> u64 {
    id.0
}

/// The private selection step, called directly: returns the ids of the selected
/// snapshots in the order `select` returned them.
pub fn select_direct(
    synchronization_config: &SynchronizationConfig,
    algo_config: &AlgorithmConfig,
    candidates: &[SynthSnap],
) -> Vec<u64> {
    let c: Vec<SourceSnapshot> = candidates.iter().map(to_snapshot).collect();
    select::select(synchronization_config, algo_config, &c)
        .iter()
        .map(|s| s.index.0)
        .collect()
}

/// The private leap vote + combination, called directly on a given selection:
/// (used source ids, voted leap indicator).
pub fn combine_direct(
    algo_config: &AlgorithmConfig,
    selection: &[SynthSnap],
) -> Option<(Vec<u64>, Option<NtpLeapIndicator>)> {
    let c: Vec<SourceSnapshot> = selection.iter().map(to_snapshot).collect();
    combiner::combine(&c, algo_config).map(|c| (c.sources.iter().map(|i| i.0).collect(), c.leap_indicator))
}

/// Read-only view of the controller's source table: (id, usable flag, snapshot if any).
pub fn controller_sources<C: NtpClock>(c: &KalmanClockController<C>) -> Vec<(u64, bool, Option<SynthSnap>)> {
    let mut v: Vec<_> = c
        .sources
        .iter()
        .map(|(id, (snap, usable))| (id.0, *usable, snap.as_ref().map(from_snapshot)))
        .collect();
    v.sort_by_key(|e| e.0);
    v
}

pub fn controller_in_startup<C: NtpClock>(c: &KalmanClockController<C>) -> bool {
    c.in_startup
}

pub fn controller_leap<C: NtpClock>(c: &KalmanClockController<C>) -> NtpLeapIndicator {
    c.timedata.leap_indicator
}

/// Put a source message for `id` on the wrapper's own message channel, exactly as a
/// source-controller wrapper does (`messages_for_system.send((id, SourceMessage(m)))`).
/// Lets a workload deliver data for a source whose controller wrapper was already
/// dropped ("data arriving after removal"), which the public API cannot express.
/// Returns false when the channel is closed.
pub fn inject_source_message<T: ITSC>(w: &TSCW<T>, id: ClockId, m: T::SourceMessage) -> bool {
    w.messages_for_system_sender
        .send((id, WMsg::SourceMessage(m)))
        .is_ok()
}
