//! Compiled INTO the repository crate only under `--cfg pendulum_project_ntpd_rs_verif`
//! (see /verif/DESIGN.md section 2.1). Adds items; changes no behaviour.
#![allow(missing_docs, unused_imports, unused, dead_code, unreachable_pub)]
#![allow(clippy::all, clippy::pedantic)]

// wrappers for the src2 property group

// owner: group a4 (C07 C09 C13 C14 C33 C34). Accessors only; no behaviour.
use std::collections::HashMap;
use std::net::{IpAddr, SocketAddr};
use std::sync::{Arc, Mutex, RwLock};

use crate::cookiestash::CookieStash;
use crate::identifiers::ReferenceId;
use crate::keyset::{DecodedServerCookie, KeySet};
use crate::nts::AeadAlgorithm;
use crate::packet::{AesSivCmac256, AesSivCmac512, Cipher};
use crate::source::{
    NtpSource, NtpSourceActionIterator, NtpSourceSnapshot, ProtocolVersion, SourceNtsData,
};
use crate::system::NtpSourceInfo;
use crate::{ClockId, SourceConfig, SourceController};

/// AEAD cipher of the IANA id `alg` (15 = AES-SIV-CMAC-256, 17 = AES-SIV-CMAC-512) from raw key bytes.
pub fn cipher_from_key(alg: u16, key: &[u8]) -> Option<Box<dyn Cipher>> {
    match alg {
        15 => AesSivCmac256::try_from(key).ok().map(|c| Box::new(c) as Box<dyn Cipher>),
        17 => AesSivCmac512::try_from(key.iter().copied())
            .ok()
            .map(|c| Box::new(c) as Box<dyn Cipher>),
        _ => None,
    }
}

/// What a finished key exchange hands to the source (fields are `pub(crate)`).
pub fn make_nts_data(cookies: Vec<Vec<u8>>, c2s: Box<dyn Cipher>, s2c: Box<dyn Cipher>) -> Box<SourceNtsData> {
    let mut stash = CookieStash::default();
    for c in cookies {
        stash.store(c);
    }
    Box::new(SourceNtsData { cookies: stash, c2s, s2c })
}

/// The server-side view of a session (what a cookie encodes).
pub fn decoded_cookie(alg: u16, s2c: Box<dyn Cipher>, c2s: Box<dyn Cipher>) -> DecodedServerCookie {
    DecodedServerCookie {
        algorithm: AeadAlgorithm::from(alg),
        s2c,
        c2s,
    }
}

pub fn keyset_encode_cookie(ks: &KeySet, c: &DecodedServerCookie) -> Vec<u8> {
    ks.encode_cookie(c)
}

/// (algorithm id, s2c key, c2s key) of a cookie the key set can open.
pub fn keyset_decode_cookie(ks: &KeySet, cookie: &[u8]) -> Option<(u16, Vec<u8>, Vec<u8>)> {
    ks.decode_cookie(cookie).ok().map(|d| {
        (
            u16::from(d.algorithm),
            d.s2c.key_bytes().to_vec(),
            d.c2s.key_bytes().to_vec(),
        )
    })
}

/// `NtpSource::new` with caller-owned shared state instead of an `NtpManager`.
pub fn new_source<C: SourceController>(
    addr: SocketAddr,
    config: SourceConfig,
    version: ProtocolVersion,
    controller: C,
    nts: Option<Box<SourceNtsData>>,
    id: ClockId,
    ip_list: Vec<IpAddr>,
    server_id: crate::v5::ServerId,
    local_stratum: u8,
    snapshots: Arc<Mutex<HashMap<ClockId, NtpSourceSnapshot>>>,
) -> (NtpSource<C>, NtpSourceActionIterator) {
    let info = NtpSourceInfo {
        ip_list: ip_list.into(),
        server_id,
        local_stratum,
    };
    NtpSource::new(addr, config, version, controller, nts, id, Arc::new(RwLock::new(info)), snapshots)
}

pub fn refid_bytes(r: ReferenceId) -> [u8; 4] {
    r.to_bytes()
}
pub fn refid_from_bytes(b: [u8; 4]) -> ReferenceId {
    ReferenceId::from_bytes(b)
}

/// The crate-private cookie ring buffer, operation by operation.
pub struct Stash(CookieStash);
impl Stash {
    pub fn new() -> Stash {
        Stash(CookieStash::default())
    }
    pub fn store(&mut self, c: Vec<u8>) {
        self.0.store(c)
    }
    pub fn get(&mut self) -> Option<Vec<u8>> {
        self.0.get()
    }
    pub fn gap(&self) -> u8 {
        self.0.gap()
    }
    pub fn len(&self) -> usize {
        self.0.len()
    }
    pub fn is_empty(&self) -> bool {
        self.0.is_empty()
    }
}
