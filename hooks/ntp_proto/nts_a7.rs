//! Compiled INTO the repository crate only under `--cfg pendulum_project_ntpd_rs_verif`
//! (see /verif/DESIGN.md section 2.1). Adds items; changes no behaviour.
#![allow(missing_docs, unused_imports, unused, dead_code, unreachable_pub)]
#![allow(clippy::all, clippy::pedantic)]

// owner: group a7. `super::super` is the repository module `nts`.
use super::super::*;

use super::super::messages::{KeyExchangeResponse as KeResp, Request as KeReq};
use super::super::record::NtsRecord as Rec;

/// Plain-data view of a parsed key-exchange request (private id enums flattened to u16,
/// cipher objects flattened to their key bytes) so the driver can compare two values.
#[derive(Debug, Clone, PartialEq, Eq, Hash)]
pub enum ReqView {
    KeyExchange {
        algorithms: Vec<u16>,
        protocols: Vec<u16>,
        denied: Vec<String>,
    },
    FixedKey {
        authentication: String,
        c2s: Vec<u8>,
        s2c: Vec<u8>,
        algorithm: u16,
        protocol: u16,
        keep_alive: bool,
    },
    Support {
        authentication: String,
        wants_protocols: bool,
        wants_algorithms: bool,
        keep_alive: bool,
    },
}

pub fn request_view(r: &KeReq<'_>) -> ReqView {
    match r {
        KeReq::KeyExchange {
            algorithms,
            protocols,
            denied_servers,
        } => ReqView::KeyExchange {
            algorithms: algorithms.iter().map(|a| u16::from(*a)).collect(),
            protocols: protocols.iter().map(|p| u16::from(*p)).collect(),
            denied: denied_servers.iter().map(|d| d.to_string()).collect(),
        },
        KeReq::FixedKey {
            authentication,
            c2s_key,
            s2c_key,
            algorithm,
            protocol,
            keep_alive,
        } => ReqView::FixedKey {
            authentication: authentication.to_string(),
            c2s: c2s_key.key_bytes().to_vec(),
            s2c: s2c_key.key_bytes().to_vec(),
            algorithm: u16::from(*algorithm),
            protocol: u16::from(*protocol),
            keep_alive: *keep_alive,
        },
        KeReq::Support {
            authentication,
            wants_protocols,
            wants_algorithms,
            keep_alive,
        } => ReqView::Support {
            authentication: authentication.to_string(),
            wants_protocols: *wants_protocols,
            wants_algorithms: *wants_algorithms,
            keep_alive: *keep_alive,
        },
    }
}

/// Plain-data view of a parsed key-exchange response.
#[derive(Debug, Clone, PartialEq, Eq, Hash)]
pub struct RespView {
    pub protocol: u16,
    pub algorithm: u16,
    pub cookies: Vec<Vec<u8>>,
    pub server: Option<String>,
    pub port: Option<u16>,
    pub keep_alive: bool,
}

pub fn response_view(r: &KeResp<'_>) -> RespView {
    RespView {
        protocol: u16::from(r.protocol),
        algorithm: u16::from(r.algorithm),
        cookies: r.cookies.iter().map(|c| c.to_vec()).collect(),
        server: r.server.as_ref().map(|s| s.to_string()),
        port: r.port,
        keep_alive: r.keep_alive,
    }
}

/// Variant index of a record (shape signatures / evidence only).
pub fn record_kind(r: &Rec<'_>) -> u8 {
    match r {
        Rec::EndOfMessage => 0,
        Rec::NextProtocol { .. } => 1,
        Rec::Error { .. } => 2,
        Rec::Warning { .. } => 3,
        Rec::AeadAlgorithm { .. } => 4,
        Rec::NewCookie { .. } => 5,
        Rec::Server { .. } => 6,
        Rec::Port { .. } => 7,
        Rec::KeepAlive => 8,
        Rec::SupportedNextProtocolList { .. } => 9,
        Rec::SupportedAlgorithmList { .. } => 10,
        Rec::FixedKeyRequest { .. } => 12,
        Rec::NtpServerDeny { .. } => 13,
        Rec::Authentication { .. } => 14,
        Rec::Unknown { .. } => 255,
    }
}

/// Variant name of an `NtsError` (evidence / shape signatures only).
pub fn nts_error_kind(e: &NtsError) -> &'static str {
    match e {
        NtsError::IO(_) => "io",
        NtsError::Tls(_) => "tls",
        NtsError::Dns(_) => "dns",
        NtsError::UnrecognizedCriticalRecord => "unrecognized-critical",
        NtsError::Invalid => "invalid",
        NtsError::NoCookie => "no-cookie",
        NtsError::NoOverlappingProtocol => "no-overlap-protocol",
        NtsError::NoOverlappingAlgorithm => "no-overlap-algorithm",
        NtsError::UnknownWarning(_) => "unknown-warning",
        NtsError::Error(_) => "remote-error",
        NtsError::AeadNotSupported(_) => "aead-not-supported",
        NtsError::IncorrectSizedKey => "incorrect-sized-key",
        NtsError::NotPermitted => "not-permitted",
    }
}
