//! Compiled INTO the repository crate only under `--cfg pendulum_project_ntpd_rs_verif`
//! (see /verif/DESIGN.md section 2.1). Adds items; changes no behaviour.
#![allow(missing_docs, unused_imports, unused, dead_code, unreachable_pub)]
#![allow(clippy::all, clippy::pedantic)]

// Child-module probe of the repository module `server`. Sub-files (one owner each) see that
// module as `super::super` and may touch its private items.
#[path = "server_a5.rs"]
pub mod a5;
