//! Compiled INTO the repository crate only under `--cfg pendulum_project_ntpd_rs_verif`
//! (see /verif/DESIGN.md section 2.1). Adds items; changes no behaviour.
#![allow(missing_docs, unused_imports, unused, dead_code, unreachable_pub)]
#![allow(clippy::all, clippy::pedantic)]

// wrappers for the src property group

use std::collections::HashMap;
use std::net::{IpAddr, SocketAddr};
use std::sync::{Arc, Mutex, RwLock};

use crate::config::SourceConfig;
use crate::source::{NtpSource, NtpSourceActionIterator, ProtocolVersion};
use crate::system::NtpSourceInfo;
use crate::time_types::{PollInterval, PollIntervalLimits};
use crate::{ClockId, SourceController};

/// Wrapper around the `pub(crate)` constructor `NtpSource::new` for a plain (non-NTS)
/// source with an explicit local stratum / local address list.
pub fn new_plain_source<C: SourceController>(
    source_addr: SocketAddr,
    source_config: SourceConfig,
    protocol_version: ProtocolVersion,
    controller: C,
    local_stratum: u8,
    local_ips: Vec<IpAddr>,
) -> (NtpSource<C>, NtpSourceActionIterator) {
    let info = NtpSourceInfo {
        ip_list: local_ips.into(),
        server_id: Default::default(),
        local_stratum,
    };
    NtpSource::new(
        source_addr,
        source_config,
        protocol_version,
        controller,
        None,
        ClockId::new(),
        Arc::new(RwLock::new(info)),
        Arc::new(Mutex::new(HashMap::new())),
    )
}

/// `SourceConfig` from three raw exponents (fields are public; convenience only).
pub fn source_config(min: u8, initial: u8, max: u8) -> SourceConfig {
    SourceConfig {
        poll_interval_limits: PollIntervalLimits {
            min: PollInterval::from_byte(min),
            max: PollInterval::from_byte(max),
        },
        initial_poll_interval: PollInterval::from_byte(initial),
    }
}

/// An NTS source as it would be built from a key-exchange result: `n_cookies` opaque cookies of
/// `cookie_len` bytes, random AES-SIV-CMAC-512 keys, and the protocol version the key exchange
/// negotiated. (Wraps the `pub(crate)` constructor and the `pub(crate)` fields of `SourceNtsData`.)
pub fn new_nts_source<C: SourceController>(
    source_addr: SocketAddr,
    source_config: SourceConfig,
    negotiated: ProtocolVersion,
    controller: C,
    n_cookies: usize,
    cookie_len: usize,
) -> (NtpSource<C>, NtpSourceActionIterator) {
    let mut cookies = crate::cookiestash::CookieStash::default();
    for i in 0..n_cookies {
        cookies.store(vec![i as u8 ^ 0x5a; cookie_len]);
    }
    let nts = crate::source::SourceNtsData {
        cookies,
        c2s: Box::new(crate::packet::AesSivCmac512::new_random()),
        s2c: Box::new(crate::packet::AesSivCmac512::new_random()),
    };
    let info = NtpSourceInfo {
        ip_list: Vec::<IpAddr>::new().into(),
        server_id: Default::default(),
        local_stratum: 16,
    };
    NtpSource::new(
        source_addr,
        source_config,
        negotiated,
        controller,
        Some(Box::new(nts)),
        ClockId::new(),
        Arc::new(RwLock::new(info)),
        Arc::new(Mutex::new(HashMap::new())),
    )
}
