//! Compiled INTO the repository crate only under `--cfg pendulum_project_ntpd_rs_verif`
//! (see /verif/DESIGN.md section 2.1). Adds items; changes no behaviour.
#![allow(missing_docs, unused_imports, unused, dead_code, unreachable_pub)]
#![allow(clippy::all, clippy::pedantic)]

// wrappers for the clk property group

// owner: group a1 (C01, C02, C06): names the driver needs for running the real
// `KalmanClockController` through its crate-internal controller API.
pub use crate::algorithm::{
    InternalMeasurement, InternalSourceController, InternalStateUpdate, InternalTimeSyncController,
    KalmanClockController, KalmanControllerMessage, KalmanSourceMessage,
};
pub use crate::algorithm::verif_kalman::a1 as probe;

pub type TwoWayCtl<C> = <KalmanClockController<C> as InternalTimeSyncController>::NtpSourceController;
pub type OneWayCtl<C> = <KalmanClockController<C> as InternalTimeSyncController>::OneWaySourceController;

/// exit status used by the steering code when a panic threshold is exceeded
pub const EXIT_SOFTWARE: i32 = crate::exitcode::SOFTWARE;
