//! Compiled INTO the repository crate only under `--cfg pendulum_project_ntpd_rs_verif`
//! (see /verif/DESIGN.md section 2.1). Adds items; changes no behaviour.
#![allow(missing_docs, unused_imports, unused, dead_code, unreachable_pub)]
#![allow(clippy::all, clippy::pedantic)]

/// Mirrors of the crate's private top-level modules: every `pub` item in them
/// becomes nameable from the external driver as `ntp_proto::verif::m::<module>::<item>`.
pub mod m {
    pub mod algorithm { pub use crate::algorithm::*; }
    pub mod clock { pub use crate::clock::*; }
    pub mod config { pub use crate::config::*; }
    pub mod cookiestash { pub use crate::cookiestash::*; }
    pub mod identifiers { pub use crate::identifiers::*; }
    pub mod io { pub use crate::io::*; }
    pub mod ipfilter { pub use crate::ipfilter::*; }
    pub mod keyset { pub use crate::keyset::*; }
    pub mod nts { pub use crate::nts::*; }
    pub mod packet { pub use crate::packet::*; }
    pub mod server { pub use crate::server::*; }
    pub mod source { pub use crate::source::*; }
    pub mod system { pub use crate::system::*; }
    pub mod time_types { pub use crate::time_types::*; }
}

/// Child-module probes (they can see private items of the module they live in).
pub use crate::algorithm::verif_kalman as kalman;
pub use crate::nts::verif_probe as nts;
pub use crate::packet::verif_probe as packet;
pub use crate::server::verif_probe as server;
pub use crate::source::verif_probe as source;

/// Wrappers around `pub(crate)` items, one file per group of properties.
pub mod clk;
pub mod sel;
pub mod src2;
pub mod ke;
pub mod misc;
pub mod pkt;
pub mod src;
pub mod srv;
