#!/bin/bash
# tools/check_seeds.sh seed-dir... : detection-only pass. One shared worktree + one shared target dir, so each seed costs an
# incremental rebuild of the patched crate(s) plus the quick check of its property. Writes <seed>/quickcheck.txt.
WT=${SEEDCHK_WT:-/tmp/seedchk-wt}
T=${SEEDCHK_T:-/verif/target-seedchk}
[ -d $T ] || cp -a /verif/target $T
git -C /repo worktree remove --force $WT >/dev/null 2>&1
git -C /repo worktree add -q --detach $WT HEAD || exit 2
for d in "$@"; do
  PROP=$(python3 -c "import json;print(json.load(open('$d/meta.json'))['property'])")
  git -C $WT checkout -q -- . ; git -C $WT clean -fdq -e target
  if ! git -C $WT apply "$d/patch.diff"; then echo "$(basename $d): patch does not apply" | tee $d/quickcheck.txt; continue; fi
  out=$(cd /verif && VERIF_REPO=$WT VERIF_TARGET=$T VERIF_JOBS=${VERIF_JOBS:-12} ./check $PROP --tier quick 2>$d/quickcheck.stderr)
  rc=$?
  sigs=$(grep -E '^\[check\] [a-z0-9A-Z/]' $d/quickcheck.stderr | grep -v "built \|tier=" | cut -c9-140 | head -3 | tr '\n' ';')
  echo "$(basename $d): rc=$rc $(echo "$out" | grep -E 'HELD|INCONCLUSIVE' | head -1 | cut -c1-100) $sigs" | tee $d/quickcheck.txt
done
git -C /repo worktree remove --force $WT >/dev/null 2>&1
