#!/bin/bash
# Runs the repository's own test suite with the verification guard OFF and
# compares the result with the stable baseline (/root/.vp/BASELINE.json).
# Exit 0 iff every stable-pass test of the baseline passes.
set -u
REPO_DIR="${BASELINE_REPO:-/repo}"
cd "$REPO_DIR"
export CARGO_NET_OFFLINE=true
unset RUSTFLAGS
OUT=$(mktemp -d)
cp /w/lib/nextest.toml "$OUT/nextest.toml" 2>/dev/null || cat > "$OUT/nextest.toml" <<'T'
[profile.pb]
fail-fast = false
retries = 0
status-level = "fail"
final-status-level = "flaky"
failure-output = "never"
success-output = "never"
slow-timeout = { period = "60s", terminate-after = 5 }
[profile.pb.junit]
path = "junit.xml"
report-name = "pb"
T
cargo nextest run --workspace --no-fail-fast --tool-config-file "pb:$OUT/nextest.toml" --profile pb --test-threads 8 --offline >"$OUT/log" 2>&1
python3 - "$OUT" <<'P'
import json, sys, glob, os, xml.etree.ElementTree as ET
out = sys.argv[1]
base = json.load(open('/root/.vp/BASELINE.json'))
want = set(base['stable_pass'])
cands = glob.glob(os.environ.get("BASELINE_REPO", "/repo") + "/target/nextest/pb/junit.xml")
if not cands:
    print('baseline_off: no junit output; log tail:'); print(open(os.path.join(out,'log')).read()[-3000:]); sys.exit(2)
root = ET.parse(cands[0]).getroot()
passed = set()
for ts in root.iter('testsuite'):
    suite = ts.get('name')
    for tc in ts.iter('testcase'):
        ok = not any(ch.tag in ('failure', 'error') for ch in tc)
        name = tc.get('name')
        # baseline ids are "<binary id>::<test path>" with '::bin'/'::tests' noise removed by its parser;
        # accept a match on crate + test path
        crate = suite.split('::')[0]
        if ok:
            passed.add(crate + '::' + name)
            passed.add(suite + '::' + name)
missing = sorted(t for t in want if t not in passed)
# some baseline tests bind fixed ports / use 100 ms timeouts and flake under load:
# re-run each missing test alone (up to 3 times) before calling it failed
import subprocess
still = []
for m in missing:
    crate, _, test = m.partition('::')
    ok = False
    for _ in range(8):
        r = subprocess.run(['cargo', 'nextest', 'run', '--offline', '-p', crate, '-E', 'test(=%s)' % test, '--test-threads', '1'],
                           cwd=os.environ.get("BASELINE_REPO", "/repo"), stdout=subprocess.PIPE, stderr=subprocess.STDOUT, text=True)
        if r.returncode == 0 and '1 passed' in r.stdout:
            ok = True
            break
    if ok:
        print('  passed on isolated re-run:', m)
    else:
        still.append(m)
missing = still
print('baseline_off: %d/%d stable baseline tests passed with the guard off' % (len(want) - len(missing), len(want)))
for m in missing[:40]:
    print('  NOT PASSED:', m)
sys.exit(1 if missing else 0)
P
rc=$?
rm -rf "$OUT"
exit $rc
