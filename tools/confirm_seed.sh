#!/bin/bash
# Confirms an independently written breaking change ("seed") and runs our check against it.
#   tools/confirm_seed.sh /verif/seeded/<name> [--skip-suite]
# The seed directory holds: patch.diff (the breaking change), demo.diff (adds a demonstration test only),
# demo_cmd.txt (command run inside the worktree; exit 0 = property holds), meta.json ("property": "Cxx").
# Confirms: patch applies + compiles, the repository's baseline suite still passes with it, the demo passes
# without the patch and fails with it; then runs ./check <property> against the patched worktree.
set -u
SEED="$1"; SKIP="${2:-}"
NAME=$(basename "$SEED")
PROP=$(python3 -c "import json,sys;print(json.load(open('$SEED/meta.json'))['property'])")
WT=/tmp/seedconf-$NAME
RES="$SEED/confirm.json"
git -C /repo worktree remove --force "$WT" >/dev/null 2>&1
git -C /repo worktree add -q --detach "$WT" HEAD || exit 2
cleanup() { git -C /repo worktree remove --force "$WT" >/dev/null 2>&1; }
trap cleanup EXIT
[ -d /repo/target ] && cp -a /repo/target "$WT/target"
cd "$WT"
DEMO_CMD=$(cat "$SEED/demo_cmd.txt")
run_demo() { ( cd "$WT" && CARGO_NET_OFFLINE=true timeout 1800 bash -c "$DEMO_CMD" ) >"$WT/.demo.log" 2>&1; echo $?; }
git apply "$SEED/demo.diff" || { echo "demo.diff does not apply"; exit 2; }
git apply "$SEED/patch.diff" || { echo "patch.diff does not apply"; exit 2; }
# one build of the patched tree (demo included) serves the baseline suite and the demo
SUITE=skipped
if [ "$SKIP" != "--skip-suite" ]; then
  if BASELINE_REPO="$WT" /verif/tools/baseline_off.sh > "$WT/.suite.log" 2>&1; then SUITE=pass; else SUITE=fail; fi
  tail -8 "$WT/.suite.log" > "$SEED/suite.log"
fi
DEMO_PATCHED=$(run_demo)
tail -5 "$WT/.demo.log" > "$SEED/demo_patched.log" 2>/dev/null
git apply -R "$SEED/patch.diff"
DEMO_CLEAN=$(run_demo)
git apply -R "$SEED/demo.diff"
git apply "$SEED/patch.diff"
cd /verif
if [ -f "$SEED/quickcheck.txt" ] && grep -q "rc=[0-9]" "$SEED/quickcheck.txt"; then
  # the detection-only pass (tools/check_seeds.sh) already ran ./check against this patch
  CHECK_RC=$(sed -n 's/.*rc=\([0-9]*\).*/\1/p' "$SEED/quickcheck.txt" | head -1)
  cp "$SEED/quickcheck.stderr" "$SEED/check.stderr" 2>/dev/null
else
  CHECK_OUT=$(VERIF_REPO="$WT" VERIF_TARGET="${VERIF_TARGET:-/verif/target}" ./check "$PROP" --tier quick 2>"$SEED/check.stderr")
  CHECK_RC=$?
  echo "$CHECK_OUT" > "$SEED/check.stdout"
fi
python3 - "$RES" "$PROP" "$DEMO_CLEAN" "$DEMO_PATCHED" "$SUITE" "$CHECK_RC" <<'P'
import json, sys
res, prop, dc, dp, suite, rc = sys.argv[1:]
ok = dc == "0" and dp != "0" and suite in ("pass", "skipped")
json.dump({"property": prop, "demo_exit_without_patch": int(dc), "demo_exit_with_patch": int(dp), "baseline_suite_with_patch": suite,
           "seed_confirmed": ok, "check_exit_with_patch": int(rc), "detected": rc == "1"}, open(res, "w"), indent=1)
print(open(res).read())
P
