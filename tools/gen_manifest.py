#!/usr/bin/env python3
"""Regenerates /verif/MANIFEST.json from props_meta.py, properties.jsonl and the
driver's property modules. A property is claimed only when it has a META entry
AND a monitor module driver/src/props/cNN.rs; everything else is listed under
not_applicable with a reason."""
import json, os, subprocess, sys
ROOT = os.path.dirname(os.path.dirname(os.path.abspath(__file__)))
sys.path.insert(0, ROOT)
import props_meta

props = [json.loads(l) for l in open(os.path.join(ROOT, "properties.jsonl"))]
hooks = subprocess.run(["git", "-C", "/repo", "log", "--format=%h %s"], stdout=subprocess.PIPE, text=True).stdout.splitlines()
hook_commits = [l.split()[0] for l in hooks if l.split(" ", 1)[1].startswith("verif hook")]
PENDING = set()
if os.path.exists(os.path.join(ROOT, "meta", "pending.json")):
    PENDING = set(json.load(open(os.path.join(ROOT, "meta", "pending.json"))))
checks, na = [], []
for p in props:
    pid = p["id"]
    m = props_meta.META.get(pid)
    have = os.path.exists(os.path.join(ROOT, "driver/src/props/%s.rs" % pid.lower())) and pid not in PENDING
    if m and have:
        checks.append({
            "property_id": pid,
            "quick_cmd": "./check %s --tier quick" % pid,
            "thorough_cmd": "./check %s --tier thorough" % pid,
            "evidence_file": "/verif/evidence/%s.json" % pid,
            "replay_cmd_template": "./check %s --replay {path}" % pid,
            "engine": m["engine"],
            "level_claimed": {"category": m["category"], "text": m["text"], "design_ref": m["design_ref"]},
            "level_note": m["note"],
            "technique": m["technique"],
        })
    else:
        na.append({"property_id": pid, "reason": props_meta.NA.get(pid, "no monitor registered yet: the runtime monitor designed in DESIGN.md section 4 for this property has not been built/validated; nothing is claimed")})
man = {
    "version": 1,
    "setup_cmd": "./setup.sh",
    "hooks": {
        "guard": "--cfg pendulum_project_ntpd_rs_verif",
        "enable": "the driver crate /verif/driver has path dependencies on the crates in /repo and builds them with RUSTFLAGS='--cfg pendulum_project_ntpd_rs_verif' (driver/.cargo/config.toml); the guarded `#[path]` includes in /repo pull /verif/hooks/** into the crates",
        "baseline_off_cmd": "/verif/tools/baseline_off.sh",
        "source_commits": hook_commits,
        "add_only": True,
    },
    "engines": props_meta.ENGINES,
    "checks": checks,
    "not_applicable": na,
    "notes": "Technique family: runtime monitoring and sanitizers. Every check runs the real code (both a release-semantics and a debug-semantics build where it matters) under generated workloads in worker processes and decides with an oracle over the observed events; exit 2 + INCONCLUSIVE is used for harness problems and is never a verdict. known_findings.json lists genuine defects (open / fixed).",
}
json.dump(man, open(os.path.join(ROOT, "MANIFEST.json"), "w"), indent=1)
print("MANIFEST.json: %d checks, %d not_applicable" % (len(checks), len(na)))
