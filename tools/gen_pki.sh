#!/bin/bash
# Generates the harness TLS test PKI used by the NTS key-exchange monitors (C28/C29):
# a CA and a server certificate for "localhost", both valid for 10 years (the
# repository's own test certificate expires 2027-02-27). Idempotent: keeps an
# existing PKI that is still valid for more than 30 days unless --force is given.
#
#   tools/gen_pki.sh [--force] [outdir]      (default outdir: /verif/pki)
#
# Files: ca.pem ca.key server.pem server.key server.fullchain.pem
set -euo pipefail
FORCE=0
if [ "${1:-}" = "--force" ]; then FORCE=1; shift; fi
OUT="${1:-$(cd "$(dirname "$0")/.." && pwd)/pki}"
mkdir -p "$OUT"
cd "$OUT"

if [ "$FORCE" = 0 ] && [ -s ca.pem ] && [ -s server.fullchain.pem ] && [ -s server.key ] \
   && openssl x509 -in server.pem -noout -checkend 2592000 >/dev/null 2>&1 \
   && openssl x509 -in ca.pem -noout -checkend 2592000 >/dev/null 2>&1 \
   && openssl verify -CAfile ca.pem server.pem >/dev/null 2>&1; then
    echo "pki ok (kept): $OUT"
    exit 0
fi

TMP="$(mktemp -d)"
trap 'rm -rf "$TMP"' EXIT

# CA (EC P-256, PKCS#8 key)
openssl genpkey -algorithm EC -pkeyopt ec_paramgen_curve:P-256 -out "$TMP/ca.key" 2>/dev/null
cat > "$TMP/ca.cnf" <<EOF
[req]
distinguished_name = dn
x509_extensions = v3_ca
prompt = no
[dn]
O = verif harness
CN = verif harness test CA
[v3_ca]
basicConstraints = critical,CA:TRUE
keyUsage = critical,keyCertSign,cRLSign
subjectKeyIdentifier = hash
EOF
openssl req -x509 -new -key "$TMP/ca.key" -sha256 -days 3650 -config "$TMP/ca.cnf" -out "$TMP/ca.pem"

# server certificate for localhost
openssl genpkey -algorithm EC -pkeyopt ec_paramgen_curve:P-256 -out "$TMP/server.key" 2>/dev/null
cat > "$TMP/server.cnf" <<EOF
[req]
distinguished_name = dn
prompt = no
[dn]
O = verif harness
CN = localhost
EOF
openssl req -new -key "$TMP/server.key" -config "$TMP/server.cnf" -out "$TMP/server.csr"
cat > "$TMP/server.ext" <<EOF
authorityKeyIdentifier = keyid,issuer
basicConstraints = CA:FALSE
keyUsage = digitalSignature, keyEncipherment, keyAgreement
extendedKeyUsage = serverAuth
subjectAltName = @alt_names
[alt_names]
DNS.1 = localhost
EOF
openssl x509 -req -in "$TMP/server.csr" -CA "$TMP/ca.pem" -CAkey "$TMP/ca.key" -CAcreateserial \
    -out "$TMP/server.pem" -days 3650 -sha256 -extfile "$TMP/server.ext" 2>/dev/null
cat "$TMP/server.pem" "$TMP/ca.pem" > "$TMP/server.fullchain.pem"
openssl verify -CAfile "$TMP/ca.pem" "$TMP/server.pem" >/dev/null

for f in ca.pem ca.key server.pem server.key server.fullchain.pem; do
    install -m 0644 "$TMP/$f" "$OUT/$f"
done
echo "pki generated: $OUT"
