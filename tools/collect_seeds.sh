#!/bin/bash
# tools/collect_seeds.sh Cxx... : copies /tmp/mut-Cxx/_out/{A,B} to /verif/seeded/Cxx-{A,B} and removes the worktree
for p in "$@"; do
  for x in A B; do
    src=/tmp/mut-$p/_out/$x
    if [ -f $src/patch.diff ] && [ -f $src/demo.diff ] && [ -f $src/demo_cmd.txt ] && [ -f $src/meta.json ]; then
      mkdir -p /verif/seeded/$p-$x
      cp $src/patch.diff $src/demo.diff $src/demo_cmd.txt $src/meta.json /verif/seeded/$p-$x/
      echo "collected $p-$x"
    else
      echo "MISSING $p-$x"
    fi
  done
  git -C /repo worktree remove --force /tmp/mut-$p >/dev/null 2>&1
done
