#!/usr/bin/env python3
"""Prints the prompt given to an independent sub-agent that writes breaking changes ("seeds") for one property.
The agent gets ONLY the property text and its own scratch worktree; nothing from /verif."""
import json, sys
pid = sys.argv[1]
single = len(sys.argv) > 2 and sys.argv[2] == "single"
wt = "/tmp/mut-%s" % pid
p = next(json.loads(l) for l in open('/verif/properties.jsonl') if json.loads(l)['id'] == pid)
files = ", ".join(p['anchors']['files'])
text = (f"""You are testing a verification effort for the Rust project pendulum-project/ntpd-rs (an NTP/NTS daemon). You have your own scratch git worktree of the repository at {wt} (branch-less, at the project's current commit; a pre-built `target/` directory is inside it so `cargo test` is incremental). Work ONLY inside {wt}. Do not read or touch /verif or /repo. There is no network: always pass `--offline` to cargo.

Here is a semantic property the project is supposed to satisfy:

  Title: {p['title']}
  Statement: {p['statement']}
  Quantified over: {p['quantifier']['text']}
  Code it is anchored in: {files}

Your task: produce TWO different, independent source changes (seed A and seed B — different code sites or different mechanisms) to the project's non-test source code, each of which BREAKS this property (makes the statement false for some input/history/schedule) while
  (1) still compiling (`cargo build --workspace --offline`), and
  (2) still passing the project's existing test suite: run `cargo nextest run --workspace --offline --no-fail-fast` (or `cargo test --workspace --offline --no-fail-fast`) on the unmodified tree first to learn which tests fail or flake there anyway (a handful do in this sandbox: tests needing DNS/network, `statime-netptp` loopback timestamp tests, some `ntpd::daemon::*` socket tests) — your change must not make any additional test fail.
Prefer realistic bugs a developer could plausibly introduce (an off-by-one, a dropped or inverted condition, a wrong variable, a missing clamp/check, a reordered statement, state updated in the wrong place, an error path that forgets something) over sabotage. Each change must need something SPECIFIC to manifest — a particular input class or boundary value, a multi-step sequence of operations, a particular interleaving or timing, a fault/crash at a particular point, or two cooperating sites that each look fine alone — NOT something that ordinary use or any smoke test would expose at once. Keep each change small (a few lines). Do not modify tests, Cargo manifests, or anything guarded by `cfg(pendulum_project_ntpd_rs_verif)` and do not remove or rename functions/fields (other code links against them).

For each seed also write a DEMONSTRATION: a test (unit test or integration test added in a separate diff) or small program that PASSES on the unmodified tree and FAILS with your change applied, showing concretely that the property is broken (not merely that some internal value differs). Confirm both directions yourself.

Deliver, for X in {{A, B}}, the directory {wt}/_out/X/ containing:
  - patch.diff      : `git diff` of the breaking source change ONLY (must apply with `git apply` to the clean tree at the worktree's HEAD)
  - demo.diff       : `git diff` adding ONLY the demonstration (must apply to the clean tree, and also together with patch.diff)
  - demo_cmd.txt    : one shell command, run from the worktree root, that runs just the demonstration (e.g. `cargo test -p ntp-proto --offline --lib my_demo_test`); exit status 0 = property holds
  - meta.json       : {{"property": "{pid}", "seed": "X", "summary": "...what was changed, file:line...", "why_it_breaks": "...", "needs_to_manifest": "...the specific input/sequence/interleaving/fault...", "ran": ["...commands you ran and their outcomes..."]}}
At the end leave the worktree's tracked files clean (`git checkout -- . && git clean -fd -e _out -e target`), keeping only _out/ (and target/). If after real effort you can only produce one seed, deliver A only and say why. Finish with a short summary of both seeds.""")
if single:
    text = text.replace("produce TWO different, independent source changes (seed A and seed B — different code sites or different mechanisms)", "produce ONE source change (seed A)")
    text = text.replace("each of which BREAKS", "which BREAKS").replace("For each seed also write", "Also write").replace("Deliver, for X in {A, B}, the directory", "Deliver the directory").replace("/_out/X/", "/_out/A/").replace('"seed": "X"', '"seed": "A"')
    text = text.replace("If after real effort you can only produce one seed, deliver A only and say why. Finish with a short summary of both seeds.", "Run the full test suite at most twice in total (once on the clean tree, once with your change); the machine is shared. Finish with a short summary.")
print(text)
