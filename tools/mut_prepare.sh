#!/bin/bash
# tools/mut_prepare.sh Cxx...  : creates /tmp/mut-Cxx worktrees (HEAD of /repo) with a pre-built target and INSTRUCTIONS.md
for p in "$@"; do
  wt=/tmp/mut-$p
  git -C /repo worktree remove --force $wt >/dev/null 2>&1
  git -C /repo worktree add -q --detach $wt HEAD || continue
  cp -a /repo/target $wt/target
  python3 /verif/tools/mut_prompt.py $p $MUT_VARIANT > $wt/INSTRUCTIONS.md
  echo "The machine is shared and busy: pass \`-j 6\` to every cargo build/test command." >> $wt/INSTRUCTIONS.md
  echo prepared $wt
done
