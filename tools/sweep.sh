#!/bin/bash
# tools/sweep.sh [tier] [seed] [props...] : runs ./check for every property, one line per result
cd /verif
TIER=${1:-quick}; SEED=${2:-1}; shift 2 2>/dev/null
PROPS="$@"
[ -z "$PROPS" ] && PROPS=$(python3 -c "import json;print(' '.join(c['property_id'] for c in json.load(open('MANIFEST.json'))['checks']))")
for p in $PROPS; do
  t0=$(date +%s)
  out=$(./check $p --tier $TIER --seed $SEED 2>/tmp/sweep-$p.err)
  rc=$?
  t1=$(date +%s)
  echo "$p rc=$rc wall=$((t1-t0))s $(echo "$out" | grep -E 'HELD|VIOLATION|INCONCLUSIVE|KNOWN' | head -3 | cut -c1-160 | tr '\n' '|')"
done
