#!/bin/bash
# tools/confirm_batch.sh <parallel> seed-dir... : confirms seeds, <parallel> at a time, each with its own target dir copy
PAR=$1; shift
i=0
for d in "$@"; do
  slot=$((i % PAR))
  T=/verif/target-seed$slot
  if [ ! -f "$d/quickcheck.txt" ]; then [ -d $T ] || cp -a /verif/target $T; fi
  ( VERIF_TARGET=$T VERIF_JOBS=8 /verif/tools/confirm_seed.sh $d > $d/confirm.log 2>&1 ) &
  i=$((i+1))
  if [ $((i % PAR)) -eq 0 ]; then wait; fi
done
wait
for d in "$@"; do echo "$(basename $d): $(python3 -c "import json;c=json.load(open('$d/confirm.json'));print('confirmed' if c['seed_confirmed'] else 'REJECTED', 'DETECTED' if c['detected'] else 'missed rc=%s'%c['check_exit_with_patch'])" 2>/dev/null || echo no-result)"; done
