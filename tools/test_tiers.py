#!/usr/bin/env python3
"""Runs every configured extra tier once (thorough settings) and prints one line per tier: used to check that
the sanitizer tiers work on the unchanged tree."""
import json, sys, os, time
sys.path.insert(0, '/verif')
import props_meta, tiers
only = sys.argv[1:]
for pid, m in sorted(props_meta.META.items()):
    if only and pid not in only:
        continue
    for t in m.get('extra_tiers', []):
        t0 = time.time()
        r = tiers.run(t, pid, 'thorough', 1, '/repo', '/verif/target')
        v = [x['sig'] for x in r.get('violations', [])]
        r2 = {k: r[k] for k in r if k not in ('violations', 'events')}
        print(pid, t['name'], json.dumps(r2)[:400], 'VIOLATIONS:' + json.dumps(v)[:600] if v else '', flush=True)
