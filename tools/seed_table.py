#!/usr/bin/env python3
"""Rebuilds the seeded-change table in DESIGN.md (between the SEED_TABLE markers) from seeded/*/{meta,confirm}.json."""
import glob, json, os, re
rows = []
for d in sorted(glob.glob('/verif/seeded/*')):
    m = os.path.join(d, 'meta.json'); c = os.path.join(d, 'confirm.json')
    if not os.path.exists(m):
        continue
    meta = json.load(open(m))
    conf = json.load(open(c)) if os.path.exists(c) else {}
    sigs = ''
    so = os.path.join(d, 'check.stderr')
    if os.path.exists(so):
        found = re.findall(r'^\[check\] ([^:]+?): ', open(so).read(), flags=re.M)
        found = [f for f in found if not f.startswith('built') and not f.startswith('C') and not f.startswith('note')]
        sigs = '; '.join(sorted(set(found))[:3])
    extra = meta.get('also_detected_by', '')
    status = 'not confirmed' if not conf else ('seed rejected: ' + conf.get('reject_reason', 'demo/suite') if not conf.get('seed_confirmed') else ('**caught**' if conf.get('detected') else ('caught by ' + extra if extra else '**missed**')))
    rows.append('| %s | %s | %s | %s | %s |' % (os.path.basename(d), meta.get('property'), (meta.get('summary', '') or '')[:170].replace('|', '/').replace('\n', ' '),
                                              (meta.get('needs_to_manifest', '') or '')[:140].replace('|', '/').replace('\n', ' '), status + ((' — `' + sigs[:150] + '`') if sigs and conf.get('detected') else '')))
table = '| seed | property | change | needs to manifest | quick check of that property |\n|---|---|---|---|---|\n' + '\n'.join(rows) + '\n'
p = '/verif/DESIGN.md'
s = open(p).read()
if 'SEED_TABLE_PLACEHOLDER' in s:
    s = s.replace('SEED_TABLE_PLACEHOLDER', '<!-- SEED_TABLE_BEGIN -->\n' + table + '<!-- SEED_TABLE_END -->')
else:
    s = re.sub(r'<!-- SEED_TABLE_BEGIN -->.*<!-- SEED_TABLE_END -->', lambda _: '<!-- SEED_TABLE_BEGIN -->\n' + table + '<!-- SEED_TABLE_END -->', s, flags=re.S)
open(p, 'w').write(s)
print(len(rows), 'seeds;', sum('**caught**' in r for r in rows), 'caught;', sum('**missed**' in r for r in rows), 'missed')
