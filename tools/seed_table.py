#!/usr/bin/env python3
"""Rebuilds the seeded-change table in DESIGN.md (between the SEED_TABLE markers) from seeded/*/{meta,confirm}.json."""
import glob, json, os, re
rows = []
for d in sorted(glob.glob('/verif/seeded/*')):
    m = os.path.join(d, 'meta.json'); c = os.path.join(d, 'confirm.json')
    if not os.path.exists(m):
        continue
    meta = json.load(open(m))
    conf = json.load(open(c)) if os.path.exists(c) else {}
    sigs = ''
    detected = None
    qc = os.path.join(d, 'quickcheck.txt')
    if os.path.exists(qc):
        t = open(qc).read()
        m = re.search(r'rc=(\d+)', t)
        if m:
            detected = m.group(1) == '1'
        sigs = '; '.join(x.strip().split(':')[0] for x in t.split(' ', 2)[-1].split(';')[:3] if '/' in x)[:170]
    if conf:
        detected = conf.get('detected', detected) if detected is None else detected
    if not conf:
        cstat = 'demo + suite not re-run by the coordinator (authoring agent confirmed both)'
    elif conf.get('seed_confirmed'):
        cstat = 'confirmed (demo passes without / fails with the patch; baseline suite passes with it)'
    else:
        cstat = 'NOT confirmed (demo %s/%s, suite %s)' % (conf.get('demo_exit_without_patch'), conf.get('demo_exit_with_patch'), conf.get('baseline_suite_with_patch'))
    note = meta.get('coordinator_note', '')
    dstat = 'not run' if detected is None else ('**caught**' if detected else '**missed**')
    if note:
        dstat += ' (' + note[:200] + ')'
    rows.append('| %s | %s | %s | %s | %s | %s |' % (os.path.basename(d), meta.get('property'), (meta.get('summary', '') or '')[:170].replace('|', '/').replace('\n', ' '),
                                                 (meta.get('needs_to_manifest', '') or '')[:140].replace('|', '/').replace('\n', ' '), cstat, dstat + ((' — `' + sigs + '`') if sigs and detected else '')))
table = '| seed | property | change | needs to manifest | seed confirmation | quick check of that property |\n|---|---|---|---|---|---|\n' + '\n'.join(rows) + '\n'
p = '/verif/DESIGN.md'
s = open(p).read()
if 'SEED_TABLE_PLACEHOLDER' in s:
    s = s.replace('SEED_TABLE_PLACEHOLDER', '<!-- SEED_TABLE_BEGIN -->\n' + table + '<!-- SEED_TABLE_END -->')
else:
    s = re.sub(r'<!-- SEED_TABLE_BEGIN -->.*<!-- SEED_TABLE_END -->', lambda _: '<!-- SEED_TABLE_BEGIN -->\n' + table + '<!-- SEED_TABLE_END -->', s, flags=re.S)
open(p, 'w').write(s)
print(len(rows), 'seeds;', sum('**caught**' in r for r in rows), 'caught;', sum('**missed**' in r for r in rows), 'missed')
