"""Per-property metadata: used by ./check (extra tiers) and tools/gen_manifest.py."""
META = {}

def P(pid, category, text, note, technique, engine, design_ref, extra_tiers=()):
    META[pid] = dict(category=category, text=text, note=note, technique=technique, engine=engine,
                     design_ref=design_ref, extra_tiers=list(extra_tiers))

P("C32", "exploration",
  "Every listed operation of NtpTimestamp/NtpDuration and of the PTP Timestamp/Duration is executed on boundary-lattice and random operands in a release-semantics and a debug-semantics build and compared with i128/u128 reference arithmetic; panics are caught per operation. Held on the operands observed (the 8-bit scalar x lattice sub-space is enumerated completely), not proved for all 2^64 values.",
  "Trusts the reference arithmetic in driver/src/props/c32.rs and the raw-bit accessors exposed by the guarded hook; division by zero is not exercised.",
  "runtime differential monitor vs i128 reference arithmetic, two build profiles, panic capture", "direct", "DESIGN.md#c32")

# reasons for properties not claimed (overrides the default text)
NA = {}

ENGINES = [
    {"name": "driver", "path": "/verif/driver", "serves_properties": [], "kind_free_text": "Rust worker binary (two build profiles) linking the real crates with the guarded hooks; per-property monitors in src/props, shared workload engines in src/common"},
    {"name": "check", "path": "/verif/check", "serves_properties": [], "kind_free_text": "Python orchestrator: rebuilds, shards cases over worker processes, merges event counts, applies known_findings.json, writes evidence"},
]
