"""Per-property metadata, one JSON file per property under /verif/meta/Cxx.json:
  {"category": "exploration|fault_enumeration", "text": "...level claimed, own words...",
   "note": "...trusted base / assumptions...", "technique": "...few words...",
   "engine": "...", "design_ref": "DESIGN.md#cxx", "extra_tiers": [ ... ]}
Used by ./check (extra tiers) and tools/gen_manifest.py."""
import glob, json, os
_ROOT = os.path.dirname(os.path.abspath(__file__))
META = {}
for _f in sorted(glob.glob(os.path.join(_ROOT, "meta", "C*.json"))):
    _m = json.load(open(_f))
    _m.setdefault("extra_tiers", [])
    META[os.path.basename(_f)[:-5]] = _m

# reasons for properties not claimed (overrides the default text)
NA = {}
if os.path.exists(os.path.join(_ROOT, "meta", "not_applicable.json")):
    NA = json.load(open(os.path.join(_ROOT, "meta", "not_applicable.json")))

ENGINES = [
    {"name": "driver", "path": "/verif/driver", "serves_properties": sorted(META), "kind_free_text": "Rust worker binary (two build profiles: release semantics 'ship', debug-assertions+overflow-checks 'strict') linking the real crates with the guarded hooks; per-property monitors in src/props, shared workload engines in src/common"},
    {"name": "check", "path": "/verif/check", "serves_properties": sorted(META), "kind_free_text": "Python orchestrator: rebuilds from /repo's working tree, shards cases over worker processes, merges event counts, applies known_findings.json, writes evidence"},
]
