#!/bin/bash
# Build and run the C37 threaded stress under ThreadSanitizer.
#   ./run.sh [histories] [seed] [repeats]
# Exit 0: no data-race report and the offline oracle found nothing; 1: report(s); 2: build failed.
set -u
cd "$(dirname "$0")"
N=${1:-300}; SEED=${2:-1}; REP=${3:-5}
export CARGO_TARGET_DIR=${VERIF_TSAN_TARGET:-/verif/target-tsan}
export RUSTFLAGS="-Zsanitizer=thread --cfg pendulum_project_ntpd_rs_verif --cap-lints warn -A missing_docs -A unused -A unreachable_pub"
cargo +nightly build --offline -Zbuild-std --target x86_64-unknown-linux-gnu 2>&1 | tail -3 || exit 2
BIN=$CARGO_TARGET_DIR/x86_64-unknown-linux-gnu/debug/verif-tsan-c37
[ -x "$BIN" ] || exit 2
rc=0
for i in $(seq 1 "$REP"); do
  TSAN_OPTIONS="halt_on_error=0 second_deadlock_stack=1 exitcode=66" "$BIN" "$N" "$((SEED + i))" 2> "$CARGO_TARGET_DIR/tsan-run-$i.log" || rc=1
  reports=$(grep -c "WARNING: ThreadSanitizer" "$CARGO_TARGET_DIR/tsan-run-$i.log")
  echo "run $i: tsan_reports=$reports $(tail -1 "$CARGO_TARGET_DIR/tsan-run-$i.log")"
  [ "$reports" -gt 0 ] && rc=1
done
exit $rc
