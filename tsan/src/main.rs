//! C37 threaded stress (same engine and offline oracle as the driver's C37 monitor),
//! built with -Zsanitizer=thread so that ThreadSanitizer watches the real wrapper,
//! channel, source wrappers and Kalman code for data races.
#![allow(dead_code, unused_imports, unused_variables)]

#[path = "/verif/driver/src/common/selsim.rs"]
mod selsim;

use selsim::Op;

struct Rng(u64);
impl Rng {
    fn next(&mut self) -> u64 {
        self.0 = self.0.wrapping_add(0x9E3779B97F4A7C15);
        let mut z = self.0;
        z = (z ^ (z >> 30)).wrapping_mul(0xBF58476D1CE4E5B9);
        z = (z ^ (z >> 27)).wrapping_mul(0x94D049BB133111EB);
        z ^ (z >> 31)
    }
    fn below(&mut self, n: u64) -> u64 {
        self.next() % n
    }
    fn range(&mut self, lo: i64, hi: i64) -> i64 {
        lo + self.below((hi - lo + 1) as u64) as i64
    }
}

fn scripts(r: &mut Rng) -> (Vec<Vec<Op>>, usize) {
    let nthreads = r.range(2, 8) as usize;
    let per = (r.range(20, 200) as usize / nthreads).max(4);
    let base = [0i32, 300, -700, 30_000][r.below(4) as usize];
    let mut out = Vec::new();
    for _ in 0..nthreads {
        let mut v = vec![Op::Usable(true)];
        for _ in 0..r.range(per as i64 / 2, per as i64 * 3 / 2) {
            let x = r.below(100);
            v.push(if x < 50 {
                Op::Measure { offset_us: base + r.range(-100, 100) as i32, delay_us: r.range(300, 3000) as u32, leap: 0 }
            } else if x < 62 {
                Op::Usable(true)
            } else if x < 70 {
                Op::Usable(false)
            } else if x < 76 {
                Op::Drop
            } else if x < 80 {
                Op::LateData
            } else if x < 94 {
                Op::Yield(r.range(1, 4) as u8)
            } else {
                Op::SleepUs(r.range(1, 60) as u8)
            });
        }
        out.push(v);
    }
    (out, [1usize, 2, 3][r.below(3) as usize])
}

fn main() {
    let args: Vec<String> = std::env::args().collect();
    let n: u64 = args.get(1).and_then(|s| s.parse().ok()).unwrap_or(300);
    let seed: u64 = args.get(2).and_then(|s| s.parse().ok()).unwrap_or(1);
    let mut rng = Rng(seed);
    let (mut findings, mut estimates, mut harness) = (0u64, 0u64, 0u64);
    for _ in 0..n {
        let (s, m) = scripts(&mut rng);
        let res = selsim::run_stress(&s, m, rng.below(2) == 0);
        if res.thread_panicked || !res.loop_finished {
            harness += 1;
            continue;
        }
        let (f, st) = selsim::check_stress(&res);
        estimates += st.estimates_with_used;
        for (sig, what) in f.iter().take(2) {
            eprintln!("ORACLE C37/{sig}: {what}");
        }
        findings += f.len() as u64;
    }
    eprintln!("histories={n} estimates_with_used={estimates} oracle_findings={findings} harness_errors={harness}");
    if findings > 0 {
        std::process::exit(1);
    }
}
