#![no_main]
use libfuzzer_sys::fuzz_target;

fuzz_target!(|data: &[u8]| {
    verif_driver::fuzz_table::fuzz_one("C22", data);
});
