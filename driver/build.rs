// Discovers property modules (src/props/cNN.rs) and shared engine modules
// (src/common/*.rs) so that adding a property never touches a shared file.
// VERIF_ONLY=c01,c02,simclock restricts the build to those modules (used while
// developing one group of properties without depending on the others compiling).
use std::{env, fs, path::PathBuf};

fn main() {
    let root = PathBuf::from(env::var("CARGO_MANIFEST_DIR").unwrap());
    let only: Option<Vec<String>> = env::var("VERIF_ONLY").ok().filter(|s| !s.is_empty()).map(|s| {
        s.split(',').map(|x| x.trim().to_lowercase()).collect()
    });
    println!("cargo:rerun-if-env-changed=VERIF_ONLY");
    println!("cargo::rustc-check-cfg=cfg(verif_all)");
    if only.is_none() {
        println!("cargo:rustc-cfg=verif_all");
    }
    println!("cargo:rerun-if-changed=src/props");
    println!("cargo:rerun-if-changed=src/common");
    let mut out = String::new();
    let list = |dir: &str| -> Vec<String> {
        let mut v: Vec<String> = fs::read_dir(root.join(dir))
            .unwrap()
            .filter_map(|e| e.ok())
            .filter_map(|e| {
                let n = e.file_name().to_string_lossy().to_string();
                n.strip_suffix(".rs").map(|s| s.to_string())
            })
            .filter(|n| n != "mod")
            .collect();
        v.sort();
        v
    };
    let keep = |n: &String| only.as_ref().map(|o| o.contains(n)).unwrap_or(true);
    out.push_str("pub mod common {\n");
    for n in list("src/common").iter().filter(|n| keep(n)) {
        out.push_str(&format!(
            "    #[path = \"{}/src/common/{n}.rs\"] pub mod {n};\n",
            root.display()
        ));
    }
    out.push_str("}\npub mod props {\n");
    let props: Vec<String> = list("src/props").into_iter().filter(|n| keep(n)).collect();
    for n in &props {
        out.push_str(&format!(
            "    #[path = \"{}/src/props/{n}.rs\"] pub mod {n};\n",
            root.display()
        ));
    }
    out.push_str("}\npub fn registry() -> Vec<&'static crate::core::Prop> {\n    vec![\n");
    for n in &props {
        out.push_str(&format!("        &props::{n}::PROP,\n"));
    }
    out.push_str("    ]\n}\n");
    let dest = PathBuf::from(env::var("OUT_DIR").unwrap()).join("gen.rs");
    fs::write(dest, out).unwrap();
}
