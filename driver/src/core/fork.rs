//! Process isolation for cases in which the code under test may terminate the
//! process (`std::process::exit(70)` in the steering code, aborts, stack
//! overflow). The child runs the closure and sends a JSON value back over a
//! pipe; the parent observes how the child ended. Only used from
//! single-threaded workers.

use serde_json::Value;
use std::io::Read;
use std::os::fd::FromRawFd;

#[derive(Debug)]
pub enum Ended {
    /// the closure returned; the value it produced
    Returned(Value),
    /// the process exited with this status before the closure returned
    Exited(i32, Option<Value>),
    /// killed by a signal
    Signaled(i32),
    /// fork/pipe failure (harness problem, never a verdict)
    HarnessError(String),
}

/// Run `f` in a forked child. `f` may call `progress(v)` any number of times:
/// the last progress value is available even if the process then exits.
pub fn in_child(f: impl FnOnce(&mut dyn FnMut(Value)) -> Value) -> Ended {
    let mut fds = [0i32; 2];
    // SAFETY: plain libc calls on fresh descriptors
    unsafe {
        if libc::pipe(fds.as_mut_ptr()) != 0 {
            return Ended::HarnessError("pipe failed".into());
        }
        let pid = libc::fork();
        if pid < 0 {
            libc::close(fds[0]);
            libc::close(fds[1]);
            return Ended::HarnessError("fork failed".into());
        }
        if pid == 0 {
            libc::close(fds[0]);
            let wfd = fds[1];
            let mut progress = |v: Value| {
                let mut s = serde_json::to_vec(&v).unwrap_or_default();
                s.push(b'\n');
                let mut off = 0;
                while off < s.len() {
                    let n = libc::write(wfd, s[off..].as_ptr().cast(), s.len() - off);
                    if n <= 0 {
                        break;
                    }
                    off += n as usize;
                }
            };
            let r = std::panic::catch_unwind(std::panic::AssertUnwindSafe(|| f(&mut progress)));
            match r {
                Ok(v) => {
                    progress(serde_json::json!({"__returned": v}));
                    libc::_exit(0);
                }
                Err(_) => {
                    let p = crate::core::take_last_panic();
                    progress(serde_json::json!({"__panicked": {"location": p.location, "message": p.message}}));
                    libc::_exit(101);
                }
            }
        }
        libc::close(fds[1]);
        let mut file = std::fs::File::from_raw_fd(fds[0]);
        let mut buf = Vec::new();
        let _ = file.read_to_end(&mut buf);
        drop(file);
        let mut status = 0i32;
        loop {
            let r = libc::waitpid(pid, &mut status, 0);
            if r == pid {
                break;
            }
            if r < 0 && std::io::Error::last_os_error().raw_os_error() != Some(libc::EINTR) {
                return Ended::HarnessError("waitpid failed".into());
            }
        }
        let mut last: Option<Value> = None;
        for line in buf.split(|b| *b == b'\n') {
            if line.is_empty() {
                continue;
            }
            if let Ok(v) = serde_json::from_slice::<Value>(line) {
                last = Some(v);
            }
        }
        if libc::WIFSIGNALED(status) {
            return Ended::Signaled(libc::WTERMSIG(status));
        }
        let code = libc::WEXITSTATUS(status);
        if let Some(v) = &last {
            if let Some(r) = v.get("__returned") {
                return Ended::Returned(r.clone());
            }
        }
        Ended::Exited(code, last)
    }
}
