//! Framework shared by all property monitors: deterministic case generation,
//! panic capture, fork isolation, event/evidence accounting and the worker loop.
//!
//! A property is a `Prop`: a number of *cases* per tier and a function that runs
//! one case. A case derives all its choices from `(VERIF_SEED, property, index)`,
//! so `(seed, index)` is a complete replay token independent of sharding.

pub mod fork;
pub mod rng;

use std::cell::RefCell;
use std::collections::{BTreeMap, HashSet};
use std::panic::{AssertUnwindSafe, catch_unwind};
use std::time::Instant;

pub use rng::Rng;
use serde_json::{Value, json};

#[derive(Clone, Copy, Debug, PartialEq, Eq)]
pub enum Tier {
    Quick,
    Thorough,
}

impl Tier {
    pub fn pick<T>(self, quick: T, thorough: T) -> T {
        match self {
            Tier::Quick => quick,
            Tier::Thorough => thorough,
        }
    }
    pub fn name(self) -> &'static str {
        self.pick("quick", "thorough")
    }
}

#[derive(Clone, Copy, Debug, PartialEq, Eq)]
pub enum Profiles {
    /// release semantics only
    Ship,
    /// debug-assertions + overflow-checks only
    Strict,
    /// every case runs under both
    Both,
}

pub struct Prop {
    pub id: &'static str,
    /// "exploration" | "fault_enumeration"
    pub level: &'static str,
    /// how cases are generated and what makes one non-trivial/distinct (evidence `rule`)
    pub rule: &'static str,
    pub assumptions: &'static [&'static str],
    pub profiles: Profiles,
    /// number of cases in the global index space for a tier
    pub cases: fn(Tier) -> u64,
    /// wall-clock budget (seconds) per worker after which it stops starting new
    /// cases (never decides a verdict; only bounds the run)
    pub budget_s: fn(Tier) -> u64,
    /// run one case
    pub run: fn(&mut Case),
    /// minimum number of distinct non-trivial cases (over all shards) below
    /// which the run is inconclusive rather than "held"
    pub min_nontrivial: u64,
    /// counters that must be non-zero in the merged report for a conclusive
    /// verdict (the event kinds the oracle judges)
    pub required_counters: &'static [&'static str],
    /// true when the case index space is a complete enumeration of a finite space
    pub exhaustive: bool,
    /// true when the death of a worker (abort, stack overflow, exit) while running a
    /// case is itself a violation of this property ("never crashes" clauses)
    pub crash_is_violation: bool,
}

#[derive(Clone, Debug)]
pub struct Violation {
    pub sig: String,
    pub what: String,
    pub detail: Value,
    pub idx: u64,
}

pub struct PanicInfo {
    pub location: String,
    pub message: String,
}

impl PanicInfo {
    /// Stable identification of the panic site: file + message with digits removed.
    pub fn site(&self) -> String {
        let file = self.location.split(':').next().unwrap_or("?");
        let mut file = file.trim_start_matches("/repo/").to_string();
        if let Some(rest) = file.strip_prefix("/rustc/") {
            // /rustc/<hash>/library/... -> library/...
            file = rest.splitn(2, '/').nth(1).unwrap_or(rest).to_string();
        }
        if let Some(pos) = file.find("/ntp-proto/").or(file.find("/ntpd/")).or(file.find("/statime-")) {
            // scratch copies of the repository: keep the in-repo part only
            if file.starts_with('/') {
                file = file[pos + 1..].to_string();
            }
        }
        let msg: String = self
            .message
            .chars()
            .map(|c| if c.is_ascii_digit() { '#' } else { c })
            .take(70)
            .collect();
        // collapse runs of '#'
        let mut out = String::new();
        let mut last_hash = false;
        for c in msg.chars() {
            if c == '#' {
                if !last_hash {
                    out.push('#');
                }
                last_hash = true;
            } else {
                out.push(c);
                last_hash = false;
            }
        }
        format!("{file}:{out}")
    }
}

thread_local! {
    static LAST_PANIC: RefCell<Option<PanicInfo>> = const { RefCell::new(None) };
}

pub fn install_panic_hook() {
    let verbose = std::env::var("VERIF_VERBOSE").is_ok();
    let default = std::panic::take_hook();
    std::panic::set_hook(Box::new(move |info| {
        let location = info
            .location()
            .map(|l| format!("{}:{}:{}", l.file(), l.line(), l.column()))
            .unwrap_or_else(|| "?".into());
        let message = if let Some(s) = info.payload().downcast_ref::<&str>() {
            (*s).to_string()
        } else if let Some(s) = info.payload().downcast_ref::<String>() {
            s.clone()
        } else {
            "<non-string panic>".to_string()
        };
        LAST_PANIC.with(|p| *p.borrow_mut() = Some(PanicInfo { location, message }));
        if verbose {
            default(info);
        }
    }));
}

pub fn take_last_panic() -> PanicInfo {
    LAST_PANIC
        .with(|p| p.borrow_mut().take())
        .unwrap_or(PanicInfo {
            location: "?".into(),
            message: "?".into(),
        })
}

/// Run `f`, converting a panic of the code under test into `Err(PanicInfo)`.
pub fn guard<T>(f: impl FnOnce() -> T) -> Result<T, PanicInfo> {
    match catch_unwind(AssertUnwindSafe(f)) {
        Ok(v) => Ok(v),
        Err(_) => Err(take_last_panic()),
    }
}

/// Everything a case may record. One `Case` value lives for one case index.
pub struct Case<'a> {
    pub idx: u64,
    pub tier: Tier,
    pub seed: u64,
    /// "ship" or "strict": which build of the code under test this worker is
    pub profile: &'static str,
    pub rng: Rng,
    pub replaying: bool,
    acc: &'a mut Acc,
}

#[derive(Default)]
pub struct Acc {
    pub sigs: HashSet<u64>,
    pub counters: BTreeMap<String, u64>,
    pub samples: Vec<Value>,
    pub violations: Vec<Violation>,
    pub violation_sigs: HashSet<String>,
    pub harness_errors: Vec<String>,
    pub evaluations: u64,
    pub sample_cap: usize,
}

impl<'a> Case<'a> {
    /// Mark that this case reached the monitored decision point with the given
    /// *shape signature*; distinct signatures are what `distinct_nontrivial` counts.
    pub fn sig(&mut self, s: u64) {
        if self.acc.sigs.len() < 2_000_000 {
            self.acc.sigs.insert(s);
        }
    }
    pub fn sig_of<T: std::hash::Hash>(&mut self, t: &T) {
        self.sig(hash_of(t));
    }
    pub fn count(&mut self, name: &str, n: u64) {
        *self.acc.counters.entry(name.to_string()).or_insert(0) += n;
    }
    pub fn inc(&mut self, name: &str) {
        self.count(name, 1);
    }
    /// Record an actual case for the evidence file (only the first few are kept).
    pub fn sample(&mut self, v: impl FnOnce() -> Value) {
        if self.acc.samples.len() < self.acc.sample_cap {
            let v = v();
            self.acc.samples.push(json!({"idx": self.idx, "profile": self.profile, "case": v}));
        }
    }
    pub fn wants_sample(&self) -> bool {
        self.acc.samples.len() < self.acc.sample_cap
    }
    /// Report a violation. `sig` identifies the *class* (call site / input class),
    /// is matched against known_findings.json, and deduplicates within the run.
    pub fn violation(&mut self, sig: impl Into<String>, what: impl Into<String>, detail: Value) {
        let sig = sig.into();
        self.count("violations_raw", 1);
        if self.acc.violation_sigs.insert(sig.clone()) {
            self.acc.violations.push(Violation {
                sig,
                what: what.into(),
                detail,
                idx: self.idx,
            });
        }
    }
    /// Run code under test that must not panic; a panic is a violation with a
    /// signature naming the panic site and profile.
    pub fn no_panic<T>(&mut self, label: &str, detail: impl FnOnce() -> Value, f: impl FnOnce() -> T) -> Option<T> {
        match guard(f) {
            Ok(v) => Some(v),
            Err(p) => {
                let sig = format!("panic/{label}/{}/{}", self.profile, p.site());
                let what = format!("panic in {label} at {}: {}", p.location, p.message);
                let d = detail();
                self.violation(sig, what, d);
                None
            }
        }
    }
    pub fn harness_error(&mut self, msg: impl Into<String>) {
        if self.acc.harness_errors.len() < 20 {
            self.acc.harness_errors.push(format!("idx {}: {}", self.idx, msg.into()));
        }
    }
    pub fn is_strict(&self) -> bool {
        self.profile == "strict"
    }
}

pub fn hash_of<T: std::hash::Hash>(t: &T) -> u64 {
    use std::hash::Hasher;
    let mut h = std::collections::hash_map::DefaultHasher::new();
    t.hash(&mut h);
    h.finish()
}

pub fn hex(b: &[u8]) -> String {
    let mut s = String::with_capacity(b.len() * 2);
    for x in b {
        s.push_str(&format!("{x:02x}"));
    }
    s
}

pub fn unhex(s: &str) -> Vec<u8> {
    (0..s.len() / 2)
        .map(|i| u8::from_str_radix(&s[2 * i..2 * i + 2], 16).unwrap_or(0))
        .collect()
}

pub const PROFILE: &str = if cfg!(debug_assertions) { "strict" } else { "ship" };

pub struct WorkerArgs {
    pub tier: Tier,
    pub seed: u64,
    pub shard: u64,
    pub nshards: u64,
    pub out: String,
    pub only_idx: Option<u64>,
    /// stop after this many cases (used by the slow sanitizer tiers: Miri, valgrind)
    pub max_cases: Option<u64>,
    /// start at this position of the shard's (permuted) case sequence (crash attribution)
    pub from_pos: Option<u64>,
}

fn gcd(a: u64, b: u64) -> u64 {
    if b == 0 { a } else { gcd(b, a % b) }
}

/// an odd multiplier coprime to `total`, so that g -> (g * mult + c) mod total is a permutation
fn perm_multiplier(total: u64) -> u64 {
    if total <= 2 {
        return 1;
    }
    let mut m = (0x9E37_79B9_7F4A_7C15u64 % total) | 1;
    while gcd(m, total) != 1 {
        m += 2;
    }
    m
}

fn prop_salt(id: &str) -> u64 {
    let mut h: u64 = 0xcbf29ce484222325;
    for b in id.bytes() {
        h ^= b as u64;
        h = h.wrapping_mul(0x100000001b3);
    }
    h
}

/// The worker loop: runs this shard's cases and writes the shard report.
pub fn run_worker(prop: &Prop, a: &WorkerArgs) -> i32 {
    install_panic_hook();
    let start = Instant::now();
    let total = (prop.cases)(a.tier);
    let budget = (prop.budget_s)(a.tier);
    let mut acc = Acc {
        sample_cap: 4,
        ..Default::default()
    };
    let cur_path = format!("{}.cur", a.out);
    let mut completed = true;
    let mut last_cur_write = Instant::now();
    // Cases are visited in a fixed pseudo-random order (a multiplicative permutation of the index space), so
    // that a run stopped early by its time budget still samples every section of the index space instead of
    // only its first block. The case itself depends on its index only, never on the visiting order.
    let mult = perm_multiplier(total);
    let perm = move |g: u64| -> u64 { ((g as u128 * mult as u128 + 12_345) % total.max(1) as u128) as u64 };
    let first_pos = a.from_pos.unwrap_or(0);
    let (shard, nshards) = (a.shard, a.nshards.max(1));
    let indices: Box<dyn Iterator<Item = (u64, u64)>> = match a.only_idx {
        Some(i) => Box::new(std::iter::once((0, i))),
        None => Box::new((first_pos..).map(move |p| (p, p * nshards + shard)).take_while(move |(_, g)| *g < total).map(move |(p, g)| (p, perm(g)))),
    };
    let mut n_since = 0u32;
    for (pos, idx) in indices {
        if a.only_idx.is_none() && start.elapsed().as_secs() >= budget {
            completed = false;
            break;
        }
        if let Some(m) = a.max_cases {
            if acc.evaluations >= m {
                completed = false;
                break;
            }
        }
        // position marker for crash attribution: written for every slow case, every 64th fast case
        n_since += 1;
        if n_since >= 64 || last_cur_write.elapsed().as_millis() >= 2 || a.from_pos.is_some() {
            let _ = std::fs::write(&cur_path, format!("{pos} {idx}"));
            last_cur_write = Instant::now();
            n_since = 0;
        }
        let rng = Rng::for_case(a.seed, prop_salt(prop.id), idx);
        let mut case = Case {
            idx,
            tier: a.tier,
            seed: a.seed,
            profile: PROFILE,
            rng,
            replaying: a.only_idx.is_some(),
            acc: &mut acc,
        };
        let r = catch_unwind(AssertUnwindSafe(|| (prop.run)(&mut case)));
        acc.evaluations += 1;
        if r.is_err() {
            let p = take_last_panic();
            if acc.harness_errors.len() < 20 {
                acc.harness_errors.push(format!(
                    "idx {idx}: unguarded panic at {}: {}",
                    p.location, p.message
                ));
            }
        }
    }
    let mut sigs: Vec<String> = acc.sigs.iter().map(|s| format!("{s:016x}")).collect();
    sigs.sort();
    let report = json!({
        "property": prop.id,
        "profile": PROFILE,
        "tier": a.tier.name(),
        "seed": a.seed,
        "shard": a.shard,
        "nshards": a.nshards,
        "total_cases": total,
        "evaluations": acc.evaluations,
        "completed": completed,
        "sigs": sigs,
        "counters": acc.counters,
        "samples": acc.samples,
        "violations": acc.violations.iter().map(|v| json!({
            "sig": v.sig, "what": v.what, "detail": v.detail, "idx": v.idx, "profile": PROFILE,
        })).collect::<Vec<_>>(),
        "harness_errors": acc.harness_errors,
        "wall_s": start.elapsed().as_secs_f64(),
    });
    std::fs::write(&a.out, serde_json::to_vec(&report).unwrap()).unwrap();
    let _ = std::fs::remove_file(&cur_path);
    0
}

/// Byte-driven execution of a monitor (used by the libFuzzer/ASan tier and by `verif-driver bytes`):
/// runs `f` on `data` with a fresh accumulator and returns the violations it recorded.
pub fn run_bytes(f: fn(&mut Case, &[u8]), data: &[u8]) -> Vec<Violation> {
    let mut acc = Acc { sample_cap: 0, ..Default::default() };
    let mut case = Case {
        idx: 0,
        tier: Tier::Quick,
        seed: 0,
        profile: PROFILE,
        rng: Rng::new(hash_of(&data)),
        replaying: true,
        acc: &mut acc,
    };
    f(&mut case, data);
    acc.violations
}
