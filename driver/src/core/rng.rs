//! Deterministic generator: SplitMix64 seeding, xoshiro256** stream.

#[derive(Clone, Debug)]
pub struct Rng {
    s: [u64; 4],
}

fn splitmix(x: &mut u64) -> u64 {
    *x = x.wrapping_add(0x9E3779B97F4A7C15);
    let mut z = *x;
    z = (z ^ (z >> 30)).wrapping_mul(0xBF58476D1CE4E5B9);
    z = (z ^ (z >> 27)).wrapping_mul(0x94D049BB133111EB);
    z ^ (z >> 31)
}

impl Rng {
    pub fn new(seed: u64) -> Rng {
        let mut x = seed;
        let s = [splitmix(&mut x), splitmix(&mut x), splitmix(&mut x), splitmix(&mut x)];
        Rng { s }
    }
    pub fn for_case(seed: u64, salt: u64, idx: u64) -> Rng {
        let mut x = seed ^ salt.rotate_left(17);
        let a = splitmix(&mut x);
        let mut y = a ^ idx.wrapping_mul(0xD6E8FEB86659FD93);
        Rng::new(splitmix(&mut y))
    }
    /// an independent sub-stream (e.g. one per simulated source)
    pub fn fork(&mut self) -> Rng {
        Rng::new(self.u64())
    }
    pub fn u64(&mut self) -> u64 {
        let r = self.s[1].wrapping_mul(5).rotate_left(7).wrapping_mul(9);
        let t = self.s[1] << 17;
        self.s[2] ^= self.s[0];
        self.s[3] ^= self.s[1];
        self.s[1] ^= self.s[2];
        self.s[0] ^= self.s[3];
        self.s[2] ^= t;
        self.s[3] = self.s[3].rotate_left(45);
        r
    }
    pub fn u32(&mut self) -> u32 {
        (self.u64() >> 32) as u32
    }
    pub fn u16(&mut self) -> u16 {
        (self.u64() >> 48) as u16
    }
    pub fn u8(&mut self) -> u8 {
        (self.u64() >> 56) as u8
    }
    pub fn i64(&mut self) -> i64 {
        self.u64() as i64
    }
    /// uniform in [0, n) (n > 0)
    pub fn below(&mut self, n: u64) -> u64 {
        debug_assert!(n > 0);
        ((self.u64() as u128 * n as u128) >> 64) as u64
    }
    /// uniform in [lo, hi] inclusive
    pub fn range(&mut self, lo: i64, hi: i64) -> i64 {
        let span = (hi as i128 - lo as i128 + 1) as u128;
        let r = ((self.u64() as u128 * span) >> 64) as i128;
        (lo as i128 + r) as i64
    }
    pub fn usize(&mut self, lo: usize, hi: usize) -> usize {
        self.range(lo as i64, hi as i64) as usize
    }
    pub fn bool(&mut self) -> bool {
        self.u64() & 1 == 1
    }
    /// true with probability num/den
    pub fn chance(&mut self, num: u64, den: u64) -> bool {
        self.below(den) < num
    }
    /// uniform in [0,1)
    pub fn unit(&mut self) -> f64 {
        (self.u64() >> 11) as f64 / (1u64 << 53) as f64
    }
    pub fn f64_range(&mut self, lo: f64, hi: f64) -> f64 {
        lo + (hi - lo) * self.unit()
    }
    /// standard normal (Box-Muller)
    pub fn normal(&mut self) -> f64 {
        let u1 = (1.0 - self.unit()).max(1e-300);
        let u2 = self.unit();
        (-2.0 * u1.ln()).sqrt() * (2.0 * std::f64::consts::PI * u2).cos()
    }
    /// log-uniform magnitude in [lo, hi] (both > 0)
    pub fn log_uniform(&mut self, lo: f64, hi: f64) -> f64 {
        (lo.ln() + (hi.ln() - lo.ln()) * self.unit()).exp()
    }
    pub fn pick<'a, T>(&mut self, xs: &'a [T]) -> &'a T {
        &xs[self.below(xs.len() as u64) as usize]
    }
    pub fn bytes(&mut self, n: usize) -> Vec<u8> {
        let mut v = Vec::with_capacity(n);
        while v.len() < n {
            let x = self.u64().to_le_bytes();
            let take = (n - v.len()).min(8);
            v.extend_from_slice(&x[..take]);
        }
        v
    }
    pub fn fill(&mut self, b: &mut [u8]) {
        let v = self.bytes(b.len());
        b.copy_from_slice(&v);
    }
    pub fn shuffle<T>(&mut self, xs: &mut [T]) {
        for i in (1..xs.len()).rev() {
            let j = self.below(i as u64 + 1) as usize;
            xs.swap(i, j);
        }
    }
    /// a u64 biased towards boundaries: 0, 1, MAX, powers of two +-1, small, or random
    pub fn edge_u64(&mut self) -> u64 {
        match self.below(8) {
            0 => 0,
            1 => self.below(4),
            2 => u64::MAX - self.below(4),
            3 => {
                let p = self.below(64);
                (1u64 << p).wrapping_add(self.range(-2, 2) as u64)
            }
            4 => self.below(1 << 16),
            5 => self.u64() & 0xFFFF_FFFF_0000_0000 | self.below(4),
            _ => self.u64(),
        }
    }
    pub fn edge_i64(&mut self) -> i64 {
        match self.below(8) {
            0 => i64::MIN.wrapping_add(self.below(4) as i64),
            1 => i64::MAX.wrapping_sub(self.below(4) as i64),
            2 => self.range(-4, 4),
            3 => {
                let p = self.below(63);
                let v = (1i64 << p).wrapping_add(self.range(-2, 2));
                if self.bool() { v } else { v.wrapping_neg() }
            }
            _ => self.edge_u64() as i64,
        }
    }
    /// any f64 bit class: finite normal, subnormal, zero, inf, nan, integers, extremes
    pub fn any_f64(&mut self) -> f64 {
        match self.below(12) {
            0 => 0.0,
            1 => -0.0,
            2 => f64::INFINITY,
            3 => f64::NEG_INFINITY,
            4 => f64::NAN,
            5 => f64::from_bits(self.below(1 << 52)), // subnormal
            6 => f64::MAX * if self.bool() { 1.0 } else { -1.0 },
            7 => self.range(-1000, 1000) as f64,
            8 => self.f64_range(-1.0, 1.0),
            9 => self.log_uniform(1e-12, 1e12) * if self.bool() { 1.0 } else { -1.0 },
            _ => f64::from_bits(self.u64()),
        }
    }
    /// a finite f64 from a broad range of classes
    pub fn finite_f64(&mut self) -> f64 {
        loop {
            let x = self.any_f64();
            if x.is_finite() {
                return x;
            }
        }
    }
}
