//! Byte-driven entry points of the monitors whose input is a byte string. The libFuzzer + AddressSanitizer
//! tier (/verif/fuzz) calls `fuzz_one`, so coverage guidance generates the workload while the oracle is the
//! monitor's own; `verif-driver bytes <Cxx> <file>` replays an artifact natively.
use crate::core::Case;

pub fn entry(id: &str) -> Option<fn(&mut Case, &[u8])> {
    match id.to_ascii_uppercase().as_str() {
        "C22" => Some(crate::props::c22::fuzz_bytes),
        "C23" => Some(crate::props::c23::fuzz_bytes),
        "C24" => Some(crate::props::c24::fuzz_bytes),
        "C41" => Some(crate::props::c41::fuzz_bytes),
        _ => None,
    }
}

/// Called by the fuzz targets: aborts (so libFuzzer keeps the input as an artifact) when the oracle fires.
pub fn fuzz_one(id: &str, data: &[u8]) {
    static HOOK: std::sync::Once = std::sync::Once::new();
    HOOK.call_once(crate::core::install_panic_hook);
    let f = entry(id).expect("no byte-driven entry");
    let v = crate::core::run_bytes(f, data);
    if let Some(x) = v.first() {
        eprintln!("VERIF-FUZZ-VIOLATION sig={}", x.sig);
        eprintln!("what: {}", x.what);
        std::process::abort();
    }
}

/// Seed corpus for a target (written to disk by `verif-driver corpus <Cxx> <dir>`).
pub fn corpus(id: &str, n: usize) -> Vec<Vec<u8>> {
    match id.to_ascii_uppercase().as_str() {
        "C22" => crate::props::c22::fuzz_corpus(n),
        "C23" | "C24" => crate::props::c23::fuzz_corpus(n),
        _ => vec![],
    }
}
