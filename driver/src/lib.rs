//! verif-driver library: framework core, generated module tree (common engines + property monitors) and the
//! worker entry point. The binary (src/main.rs) is a thin wrapper; the fuzz and Miri tiers link this library.
//!   verif-driver list
//!   verif-driver run <Cxx> --tier quick|thorough --seed N --shard i --nshards n --out FILE [--idx K]
#![allow(clippy::all)]
#![allow(dead_code, unused_imports, unused_variables)]

pub mod core;
include!(concat!(env!("OUT_DIR"), "/gen.rs"));
#[cfg(verif_all)]
pub mod fuzz_table;

use crate::core::{Tier, WorkerArgs};

pub fn main_entry() {
    let args: Vec<String> = std::env::args().collect();
    if args.len() < 2 {
        eprintln!("usage: verif-driver list | run <prop> ...");
        std::process::exit(2);
    }
    match args[1].as_str() {
        "list" => {
            let v: Vec<serde_json::Value> = registry()
                .iter()
                .map(|p| {
                    serde_json::json!({
                        "id": p.id, "level": p.level, "rule": p.rule, "assumptions": p.assumptions,
                        "profiles": format!("{:?}", p.profiles), "min_nontrivial": p.min_nontrivial,
                        "required_counters": p.required_counters, "exhaustive": p.exhaustive, "crash_is_violation": p.crash_is_violation,
                        "budget_quick": (p.budget_s)(Tier::Quick), "budget_thorough": (p.budget_s)(Tier::Thorough),
                        "cases_quick": (p.cases)(Tier::Quick), "cases_thorough": (p.cases)(Tier::Thorough),
                    })
                })
                .collect();
            println!("{}", serde_json::to_string(&v).unwrap());
        }
        #[cfg(verif_all)]
        "corpus" => {
            let id = args.get(2).cloned().unwrap_or_default();
            let dir = args.get(3).cloned().unwrap_or_default();
            let n: usize = args.get(4).and_then(|s| s.parse().ok()).unwrap_or(200);
            std::fs::create_dir_all(&dir).ok();
            for (i, b) in fuzz_table::corpus(&id, n).iter().enumerate() {
                std::fs::write(format!("{dir}/seed-{i:04}"), b).ok();
            }
        }
        #[cfg(verif_all)]
        "bytes" => {
            // verif-driver bytes <Cxx> <file>: run the byte-driven entry of a monitor on one input (fuzz artifact replay)
            core::install_panic_hook();
            let id = args.get(2).cloned().unwrap_or_default();
            let data = std::fs::read(args.get(3).cloned().unwrap_or_default()).unwrap_or_default();
            let Some(f) = fuzz_table::entry(&id) else {
                eprintln!("no byte-driven entry for {id}");
                std::process::exit(2);
            };
            let v = core::run_bytes(f, &data);
            for x in &v {
                println!("VERIF-FUZZ-VIOLATION sig={} what={}", x.sig, x.what);
            }
            std::process::exit(if v.is_empty() { 0 } else { 1 });
        }
        "run" => {
            let id = args.get(2).cloned().unwrap_or_default();
            let mut a = WorkerArgs { tier: Tier::Quick, seed: 1, shard: 0, nshards: 1, out: String::new(), only_idx: None, max_cases: None, from_pos: None };
            let mut i = 3;
            while i + 1 < args.len() + 1 && i < args.len() {
                let v = args.get(i + 1).cloned().unwrap_or_default();
                match args[i].as_str() {
                    "--tier" => a.tier = if v == "thorough" { Tier::Thorough } else { Tier::Quick },
                    "--seed" => a.seed = v.parse().unwrap_or(1),
                    "--shard" => a.shard = v.parse().unwrap_or(0),
                    "--nshards" => a.nshards = v.parse().unwrap_or(1),
                    "--out" => a.out = v,
                    "--idx" => a.only_idx = v.parse().ok(),
                    "--max-cases" => a.max_cases = v.parse().ok(),
                    "--from-pos" => a.from_pos = v.parse().ok(),
                    other => {
                        eprintln!("unknown argument {other}");
                        std::process::exit(2);
                    }
                }
                i += 2;
            }
            let reg = registry();
            let Some(p) = reg.iter().find(|p| p.id.eq_ignore_ascii_case(&id)) else {
                eprintln!("unknown property {id}");
                std::process::exit(2);
            };
            std::process::exit(core::run_worker(p, &a));
        }
        _ => {
            eprintln!("unknown command");
            std::process::exit(2);
        }
    }
}
