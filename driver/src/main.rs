//! verif-driver: worker process of /verif/check (see src/lib.rs).
fn main() {
    verif_driver::main_entry();
}
