//! Engine of group a2 (C03, C04, C37): a recording clock, synthetic per-source
//! snapshots injected into the REAL `KalmanClockController`, and a threaded
//! stress of the REAL `TimeSyncControllerWrapper` message loop observed by a spy
//! controller. Nothing here depends on `crate::core`, so the file can also be
//! `#[path]`-included by the standalone TSan crate.

use std::sync::atomic::{AtomicU64, Ordering};
use std::sync::{Arc, Mutex};

use ntp_proto::verif::kalman::a2 as hook;
use ntp_proto::verif::m::algorithm::{
    InternalMeasurement, InternalSourceController, InternalStateUpdate, InternalTimeSyncController,
};
use ntp_proto::verif::misc::{dur_from_i64, dur_to_i64, ts_from_u64, ts_to_u64};
use ntp_proto::{
    AlgorithmConfig, KalmanClockController, KalmanControllerMessage, KalmanSourceMessage, Measurement, NtpClock,
    NtpDuration, NtpLeapIndicator, NtpTimestamp, ObservableSourceTimedata, PollInterval, SourceConfig,
    SourceController, StepThreshold, SynchronizationConfig, TimeSnapshot, TimeSyncController,
    TimeSyncControllerWrapper,
};

pub use hook::SynthSnap;

// ---------------------------------------------------------------------------
// recording clock
// ---------------------------------------------------------------------------

#[derive(Debug, Clone, Copy, PartialEq)]
pub enum ClockCall {
    /// raw fixed-point step
    Step(i64),
    SetFrequency(f64),
    DisableNtpAlgorithm,
    ErrorEstimate(i64, i64),
    Status(NtpLeapIndicator),
}

impl ClockCall {
    /// does this call change the clock (time or rate)?
    pub fn changes_clock(&self) -> bool {
        matches!(self, ClockCall::Step(_) | ClockCall::SetFrequency(_))
    }
}

#[derive(Debug, Default)]
pub struct ClockState {
    pub calls: Vec<ClockCall>,
    /// value returned by `now` and by the steering calls (raw NTP timestamp)
    pub now: u64,
    pub freq: f64,
}

/// `NtpClock` that records every call; time is whatever the harness sets.
#[derive(Debug, Clone, Default)]
pub struct RecClock {
    pub st: Arc<Mutex<ClockState>>,
    /// C37 only: the spy's shared log travels with the clock because the wrapper
    /// constructs the controller itself (`T::new(clock, ..)`).
    pub spy: Option<Arc<SpyShared>>,
}

impl RecClock {
    pub fn new(now: u64) -> RecClock {
        let c = RecClock::default();
        c.st.lock().unwrap().now = now;
        c
    }
    pub fn set_now(&self, now: u64) {
        self.st.lock().unwrap().now = now;
    }
    pub fn n_calls(&self) -> usize {
        self.st.lock().unwrap().calls.len()
    }
    pub fn calls_from(&self, from: usize) -> Vec<ClockCall> {
        self.st.lock().unwrap().calls[from..].to_vec()
    }
    fn cur_now(&self, g: &ClockState) -> u64 {
        match &self.spy {
            // threaded mode: the clock reads the case's global logical clock
            Some(sh) => tag_time(sh.seq.load(Ordering::SeqCst)),
            None => g.now,
        }
    }
    fn rec(&self, c: ClockCall) -> NtpTimestamp {
        let mut g = self.st.lock().unwrap();
        g.calls.push(c);
        ts_from_u64(self.cur_now(&g))
    }
}

impl NtpClock for RecClock {
    type Error = std::io::Error;
    fn now(&self) -> Result<NtpTimestamp, Self::Error> {
        let g = self.st.lock().unwrap();
        Ok(ts_from_u64(self.cur_now(&g)))
    }
    fn set_frequency(&self, freq: f64) -> Result<NtpTimestamp, Self::Error> {
        let t = self.rec(ClockCall::SetFrequency(freq));
        self.st.lock().unwrap().freq = freq;
        Ok(t)
    }
    fn get_frequency(&self) -> Result<f64, Self::Error> {
        Ok(self.st.lock().unwrap().freq)
    }
    fn step_clock(&self, offset: NtpDuration) -> Result<NtpTimestamp, Self::Error> {
        Ok(self.rec(ClockCall::Step(dur_to_i64(offset))))
    }
    fn disable_ntp_algorithm(&self) -> Result<(), Self::Error> {
        self.rec(ClockCall::DisableNtpAlgorithm);
        Ok(())
    }
    fn error_estimate_update(&self, est_error: NtpDuration, max_error: NtpDuration) -> Result<(), Self::Error> {
        self.rec(ClockCall::ErrorEstimate(dur_to_i64(est_error), dur_to_i64(max_error)));
        Ok(())
    }
    fn status_update(&self, leap_status: NtpLeapIndicator) -> Result<(), Self::Error> {
        self.rec(ClockCall::Status(leap_status));
        Ok(())
    }
}

/// Synchronisation config whose panic thresholds can never trigger `exit(70)`.
pub fn sync_config(minimum_agreeing_sources: usize) -> SynchronizationConfig {
    SynchronizationConfig {
        minimum_agreeing_sources,
        single_step_panic_threshold: StepThreshold { forward: None, backward: None },
        startup_step_panic_threshold: StepThreshold { forward: None, backward: None },
        accumulated_step_panic_threshold: None,
        warn_on_jump: false,
        ..SynchronizationConfig::default()
    }
}

pub fn leap_code(l: NtpLeapIndicator) -> u8 {
    match l {
        NtpLeapIndicator::NoWarning => 0,
        NtpLeapIndicator::Leap61 => 1,
        NtpLeapIndicator::Leap59 => 2,
        NtpLeapIndicator::Unknown => 3,
        NtpLeapIndicator::Unsynchronized => 4,
    }
}

pub fn leap_from_code(c: u8) -> NtpLeapIndicator {
    match c {
        0 => NtpLeapIndicator::NoWarning,
        1 => NtpLeapIndicator::Leap61,
        2 => NtpLeapIndicator::Leap59,
        3 => NtpLeapIndicator::Unknown,
        _ => NtpLeapIndicator::Unsynchronized,
    }
}

pub fn leap_name(c: u8) -> &'static str {
    ["none", "leap61", "leap59", "unknown", "unsynchronized"][c.min(4) as usize]
}

// ---------------------------------------------------------------------------
// mode (b): synthetic snapshots with exactly representable intervals
// ---------------------------------------------------------------------------

/// All synthetic quantities are integer multiples of 2^-12 s so that every
/// product/sum/sqrt the selection computes is exact in f64 (no knife edges).
pub const UNIT: f64 = 1.0 / 4096.0;

/// One synthetic source. The confidence interval the code under test derives is
/// `[offset - r, offset + r]`, `r = sigma*w_stat + delay*w_delay`, all in UNITs.
#[derive(Debug, Clone)]
pub struct Syn {
    pub id: u64,
    /// centre in UNITs
    pub center: i64,
    /// statistical sigma in UNITs (variance = (sigma*UNIT)^2, exact)
    pub sigma: i64,
    /// delay in UNITs
    pub delay: i64,
    pub usable: bool,
    /// leap code (4 = unsynchronised)
    pub leap: u8,
    /// Some(p) = periodic source with period p UNITs
    pub period: Option<i64>,
    /// frequency estimate in 2^-30 units (non-zero keeps "any selection => steering")
    pub freq: i64,
    pub one_way: bool,
}

/// Weights are quarter units: w = q/4 (0, 1/4, 1/2, 1, 2 ... exact).
#[derive(Debug, Clone, Copy)]
pub struct Weights {
    pub stat_q: i64,
    pub delay_q: i64,
    /// maximum source uncertainty in quarter UNITs
    pub max_q: i64,
}

impl Syn {
    /// radius in quarter UNITs (integer, exact)
    pub fn radius_q(&self, w: &Weights) -> i64 {
        self.sigma * w.stat_q + self.delay * w.delay_q
    }
    pub fn snap(&self, time: u64) -> SynthSnap {
        let s = self.sigma as f64 * UNIT;
        SynthSnap {
            id: self.id,
            offset: self.center as f64 * UNIT,
            freq: self.freq as f64 / (1u64 << 30) as f64,
            var_offset: s * s,
            cov: 0.0,
            var_freq: 1e-12,
            wander: 1e-16,
            delay: self.delay as f64 * UNIT,
            period: self.period.map(|p| p as f64 * UNIT),
            source_uncertainty: dur_from_i64(0),
            source_delay: dur_from_i64(1 << 20),
            leap: leap_from_code(self.leap),
            time: ts_from_u64(time),
        }
    }
}

pub fn algo_config(w: &Weights) -> AlgorithmConfig {
    AlgorithmConfig {
        range_statistical_weight: w.stat_q as f64 / 4.0,
        range_delay_weight: w.delay_q as f64 / 4.0,
        maximum_source_uncertainty: w.max_q as f64 / 4.0 * UNIT,
        ..AlgorithmConfig::default()
    }
}

/// Result of one controller call as plain data.
#[derive(Debug, Clone)]
pub struct UpdateObs {
    pub used: Option<Vec<u64>>,
    pub snapshot_leap: Option<u8>,
    pub has_source_message: bool,
    pub next_update: bool,
    pub calls: Vec<ClockCall>,
}

impl UpdateObs {
    pub fn clock_changed(&self) -> bool {
        self.calls.iter().any(|c| c.changes_clock())
    }
}

/// A real `KalmanClockController` over a recording clock, driven synchronously.
pub struct Rig {
    pub clock: RecClock,
    pub ctl: KalmanClockController<RecClock>,
    pub time: u64,
}

impl Rig {
    pub fn new(sync: SynchronizationConfig, algo: AlgorithmConfig, time: u64) -> Rig {
        let clock = RecClock::new(time);
        let ctl = KalmanClockController::new(clock.clone(), sync, algo).expect("controller");
        Rig { clock, ctl, time }
    }
    pub fn take_control(&mut self) {
        self.ctl.take_control().expect("take_control");
    }
    /// move the rig's (and the clock's) notion of "now" forward
    pub fn advance_seconds(&mut self, secs: u64) {
        self.time = self.time.wrapping_add(secs << 32);
        self.clock.set_now(self.time);
    }
    pub fn add(&mut self, s: &Syn) {
        let id = hook::clock_id(s.id);
        if s.one_way {
            let _ = self.ctl.add_one_way_source(
                id,
                SourceConfig::default(),
                1e-6,
                1e-6,
                s.period.map(|p| p as f64 * UNIT),
            );
        } else {
            let _ = self.ctl.add_source(id, SourceConfig::default());
        }
    }
    pub fn remove(&mut self, id: u64) {
        self.ctl.remove_source(hook::clock_id(id));
    }
    pub fn set_usable(&mut self, id: u64, usable: bool) {
        self.ctl.source_update(hook::clock_id(id), usable);
    }
    /// Deliver the source's current snapshot (timestamp = the rig's fixed time).
    pub fn inject(&mut self, s: &Syn) -> UpdateObs {
        let from = self.clock.n_calls();
        let msg = hook::make_message(&s.snap(self.time));
        let u = self.ctl.source_message(hook::clock_id(s.id), msg);
        self.obs(u, from)
    }
    pub fn time_update(&mut self) -> UpdateObs {
        let from = self.clock.n_calls();
        let u = self.ctl.time_update();
        self.obs(u, from)
    }
    fn obs(&self, u: InternalStateUpdate<KalmanControllerMessage>, from: usize) -> UpdateObs {
        UpdateObs {
            used: u.used_sources.map(|v| v.into_iter().map(hook::clock_id_raw).collect()),
            snapshot_leap: u.time_snapshot.map(|t| leap_code(t.leap_indicator)),
            has_source_message: u.source_message.is_some(),
            next_update: u.next_update.is_some(),
            calls: self.clock.calls_from(from),
        }
    }
}

// ---------------------------------------------------------------------------
// C37: spy controller behind the real wrapper, real threads
// ---------------------------------------------------------------------------

/// What the message loop (or a registering thread) asked the controller to do,
/// recorded under the wrapper's own `inner` mutex, hence totally ordered.
#[derive(Debug, Clone)]
pub enum SpyEv {
    Add { id: u64 },
    Remove { id: u64 },
    Usable { id: u64, usable: bool },
    Msg { id: u64, tag: u64, q: u64, used: Option<Vec<u64>>, clock_calls: usize, changed_clock: bool, default_update: bool },
    TimeUpdate { q: u64, used: Option<Vec<u64>>, clock_calls: usize },
}

#[derive(Debug, Default)]
pub struct SpyShared {
    pub log: Mutex<Vec<SpyEv>>,
    /// global logical clock of the case: production stamps and processing stamps
    pub seq: AtomicU64,
    /// id whose removal ends the case
    pub sentinel: AtomicU64,
    pub done: Mutex<Option<tokio::sync::oneshot::Sender<()>>>,
}

impl SpyShared {
    pub fn stamp(&self) -> u64 {
        self.seq.fetch_add(1, Ordering::SeqCst)
    }
}

pub struct Spy {
    inner: KalmanClockController<RecClock>,
    clock: RecClock,
    sh: Arc<SpyShared>,
}

type RealCtl = KalmanClockController<RecClock>;

impl InternalTimeSyncController for Spy {
    type Clock = RecClock;
    type AlgorithmConfig = AlgorithmConfig;
    type ControllerMessage = KalmanControllerMessage;
    type SourceMessage = KalmanSourceMessage;
    type NtpSourceController = <RealCtl as InternalTimeSyncController>::NtpSourceController;
    type OneWaySourceController = <RealCtl as InternalTimeSyncController>::OneWaySourceController;

    fn new(
        clock: RecClock,
        synchronization_config: SynchronizationConfig,
        algorithm_config: AlgorithmConfig,
    ) -> Result<Self, std::io::Error> {
        let sh = clock.spy.clone().expect("RecClock for the spy carries the shared log");
        let inner = RealCtl::new(clock.clone(), synchronization_config, algorithm_config)?;
        Ok(Spy { inner, clock, sh })
    }
    fn take_control(&mut self) -> Result<(), std::io::Error> {
        self.inner.take_control()
    }
    fn add_source(&mut self, id: ntp_proto::ClockId, source_config: SourceConfig) -> Self::NtpSourceController {
        self.sh.log.lock().unwrap().push(SpyEv::Add { id: hook::clock_id_raw(id) });
        self.inner.add_source(id, source_config)
    }
    fn add_one_way_source(
        &mut self,
        id: ntp_proto::ClockId,
        source_config: SourceConfig,
        measurement_noise_estimate: f64,
        measurement_accuracy_estimate: f64,
        period: Option<f64>,
    ) -> Self::OneWaySourceController {
        self.sh.log.lock().unwrap().push(SpyEv::Add { id: hook::clock_id_raw(id) });
        self.inner.add_one_way_source(
            id,
            source_config,
            measurement_noise_estimate,
            measurement_accuracy_estimate,
            period,
        )
    }
    fn remove_source(&mut self, id: ntp_proto::ClockId) {
        let raw = hook::clock_id_raw(id);
        self.inner.remove_source(id);
        self.sh.log.lock().unwrap().push(SpyEv::Remove { id: raw });
    }
    fn source_update(&mut self, id: ntp_proto::ClockId, usable: bool) {
        self.inner.source_update(id, usable);
        self.sh.log.lock().unwrap().push(SpyEv::Usable { id: hook::clock_id_raw(id), usable });
    }
    fn source_message(
        &mut self,
        id: ntp_proto::ClockId,
        message: KalmanSourceMessage,
    ) -> InternalStateUpdate<KalmanControllerMessage> {
        if hook::clock_id_raw(id) == self.sh.sentinel.load(Ordering::SeqCst) {
            // end-of-history marker (sent after every source thread has finished): not part of
            // the history, not forwarded, not logged
            if let Some(tx) = self.sh.done.lock().unwrap().take() {
                let _ = tx.send(());
            }
            return InternalStateUpdate::default();
        }
        let q = self.sh.stamp();
        let tag = ts_to_u64(hook::message_time(&message));
        let from = self.clock.n_calls();
        let u = self.inner.source_message(id, message);
        let calls = self.clock.calls_from(from);
        let default_update =
            u.source_message.is_none() && u.time_snapshot.is_none() && u.used_sources.is_none() && u.next_update.is_none();
        self.sh.log.lock().unwrap().push(SpyEv::Msg {
            id: hook::clock_id_raw(id),
            tag,
            q,
            used: u.used_sources.as_ref().map(|v| v.iter().map(|i| hook::clock_id_raw(*i)).collect()),
            clock_calls: calls.len(),
            changed_clock: calls.iter().any(|c| c.changes_clock()),
            default_update,
        });
        u
    }
    fn time_update(&mut self) -> InternalStateUpdate<KalmanControllerMessage> {
        let q = self.sh.stamp();
        let from = self.clock.n_calls();
        let u = self.inner.time_update();
        let calls = self.clock.calls_from(from);
        self.sh.log.lock().unwrap().push(SpyEv::TimeUpdate {
            q,
            used: u.used_sources.as_ref().map(|v| v.iter().map(|i| hook::clock_id_raw(*i)).collect()),
            clock_calls: calls.len(),
        });
        u
    }
}

/// One operation of a source thread.
#[derive(Debug, Clone, Copy, PartialEq)]
pub enum Op {
    /// outgoing + incoming measurement pair; offset/delay in microseconds
    Measure { offset_us: i32, delay_us: u32, leap: u8 },
    Usable(bool),
    /// drop the current source controller (the next op registers a fresh id)
    Drop,
    /// deliver a copy of this thread's last forwarded message for its most recently
    /// dropped id straight onto the wrapper channel (data arriving after removal)
    LateData,
    Yield(u8),
    SleepUs(u8),
}

/// What a source thread did, with global stamps taken immediately before the
/// call started (`pre`) and after it returned (`post`).
#[derive(Debug, Clone)]
pub struct Prod {
    pub thread: usize,
    pub id: u64,
    pub kind: ProdKind,
    pub pre: u64,
    pub post: u64,
}

#[derive(Debug, Clone, Copy, PartialEq)]
pub enum ProdKind {
    Register,
    Usable(bool),
    /// measurement whose local time (tag) is `tag`
    Measure { tag: u64 },
    Drop,
    Late { tag: u64 },
}

pub struct StressResult {
    pub spy: Vec<SpyEv>,
    /// per thread, in production order
    pub prod: Vec<Vec<Prod>>,
    pub final_used: Vec<u64>,
    pub loop_finished: bool,
    pub sentinel: u64,
    /// a source thread of the harness panicked (harness problem, never a verdict)
    pub thread_panicked: bool,
}

/// local time of stamp `s`: stamps are 2^-12 s apart starting at a fixed epoch
pub fn tag_time(s: u64) -> u64 {
    (3_900_000_000u64 << 32) + (s << 20)
}

fn meas(sender: ntp_proto::ClockId, receiver: ntp_proto::ClockId, sts: u64, rts: u64, leap: u8) -> Measurement {
    Measurement {
        sender_id: sender,
        receiver_id: receiver,
        sender_ts: ts_from_u64(sts),
        receiver_ts: ts_from_u64(rts),
        root_delay: dur_from_i64(1 << 18),
        root_dispersion: dur_from_i64(1 << 16),
        leap: leap_from_code(leap),
        precision: -20,
    }
}

/// Run one threaded history against the real wrapper. `scripts[i]` is the op list
/// of source thread `i`; ids are `1000*(i+1) + incarnation`.
pub fn run_stress(scripts: &[Vec<Op>], min_agree: usize, take_control: bool) -> StressResult {
    type W = TimeSyncControllerWrapper<Spy>;
    let sh = Arc::new(SpyShared::default());
    let (done_tx, done_rx) = tokio::sync::oneshot::channel::<()>();
    *sh.done.lock().unwrap() = Some(done_tx);
    let sentinel = 999_999u64;
    sh.sentinel.store(sentinel, Ordering::SeqCst);
    let mut clock = RecClock::new(tag_time(0));
    clock.spy = Some(sh.clone());
    let wrapper: Arc<W> = Arc::new(
        <W as TimeSyncController>::new(clock, sync_config(min_agree), AlgorithmConfig::default()).expect("wrapper"),
    );
    if take_control {
        wrapper.take_control().expect("take control");
    }

    // message loop on its own thread: current-thread tokio runtime with a paused
    // (virtual) clock, so a pending slew-end timer fires as soon as the loop is idle.
    let loop_wrapper = wrapper.clone();
    let (fin_tx, fin_rx) = std::sync::mpsc::channel::<bool>();
    let loop_thread = std::thread::spawn(move || {
        let rt = tokio::runtime::Builder::new_current_thread()
            .enable_all()
            .start_paused(true)
            .build()
            .expect("runtime");
        let r = rt.block_on(async move {
            tokio::select! {
                _ = loop_wrapper.run() => false,
                r = done_rx => r.is_ok(),
            }
        });
        let _ = fin_tx.send(r);
    });

    let start = Arc::new(std::sync::Barrier::new(scripts.len()));
    let mut handles = Vec::new();
    for (ti, script) in scripts.iter().enumerate() {
        let script = script.clone();
        let wrapper = wrapper.clone();
        let sh = sh.clone();
        let start = start.clone();
        handles.push(std::thread::spawn(move || {
            let mut prod: Vec<Prod> = Vec::new();
            let mut incarnation = 0u64;
            let mut cur: Option<(u64, <W as TimeSyncController>::NtpSourceController)> = None;
            let mut last_dropped: Option<u64> = None;
            start.wait();
            for op in script {
                match op {
                    Op::Yield(n) => {
                        for _ in 0..n {
                            std::thread::yield_now();
                        }
                        continue;
                    }
                    Op::SleepUs(n) => {
                        std::thread::sleep(std::time::Duration::from_micros(n as u64));
                        continue;
                    }
                    Op::LateData => {
                        if let Some(id) = last_dropped {
                            let pre = sh.stamp();
                            let tag = tag_time(pre);
                            let s = SynthSnap {
                                id,
                                offset: 0.0,
                                freq: 1e-7,
                                var_offset: 1e-8,
                                cov: 0.0,
                                var_freq: 1e-12,
                                wander: 1e-16,
                                delay: 1e-3,
                                period: None,
                                source_uncertainty: dur_from_i64(0),
                                source_delay: dur_from_i64(1 << 18),
                                leap: NtpLeapIndicator::NoWarning,
                                time: ts_from_u64(tag),
                            };
                            hook::inject_source_message(&*wrapper, hook::clock_id(id), hook::make_message(&s));
                            let post = sh.stamp();
                            prod.push(Prod { thread: ti, id, kind: ProdKind::Late { tag }, pre, post });
                        }
                        continue;
                    }
                    _ => {}
                }
                if cur.is_none() {
                    if op == Op::Drop {
                        continue;
                    }
                    incarnation += 1;
                    let id = 1000 * (ti as u64 + 1) + incarnation;
                    let pre = sh.stamp();
                    let ctl = wrapper.add_source(hook::clock_id(id), SourceConfig::default());
                    let post = sh.stamp();
                    prod.push(Prod { thread: ti, id, kind: ProdKind::Register, pre, post });
                    cur = Some((id, ctl));
                }
                match op {
                    Op::Measure { offset_us, delay_us, leap } => {
                        let (id, ctl) = cur.as_mut().unwrap();
                        let pre = sh.stamp();
                        let t_recv = tag_time(pre);
                        // outgoing: sent d before reception locally, received remotely at +d/2+offset
                        let d = ((delay_us as u64) << 32) / 1_000_000;
                        let off = (((offset_us as i64) << 32) / 1_000_000) as u64;
                        let t_send = t_recv.wrapping_sub(d);
                        let t_remote = t_send.wrapping_add(d / 2).wrapping_add(off);
                        ctl.handle_measurement(meas(ntp_proto::ClockId::SYSTEM, hook::clock_id(*id), t_send, t_remote, leap));
                        ctl.handle_measurement(meas(hook::clock_id(*id), ntp_proto::ClockId::SYSTEM, t_remote, t_recv, leap));
                        let post = sh.stamp();
                        prod.push(Prod { thread: ti, id: *id, kind: ProdKind::Measure { tag: t_recv }, pre, post });
                    }
                    Op::Usable(b) => {
                        let (id, ctl) = cur.as_mut().unwrap();
                        let pre = sh.stamp();
                        ctl.set_usable(b);
                        let post = sh.stamp();
                        prod.push(Prod { thread: ti, id: *id, kind: ProdKind::Usable(b), pre, post });
                    }
                    Op::Drop => {
                        let (id, ctl) = cur.take().unwrap();
                        let pre = sh.stamp();
                        drop(ctl);
                        let post = sh.stamp();
                        prod.push(Prod { thread: ti, id, kind: ProdKind::Drop, pre, post });
                        last_dropped = Some(id);
                    }
                    _ => {}
                }
            }
            // thread end: the controller (if any) is dropped like a finishing source task
            if let Some((id, ctl)) = cur.take() {
                let pre = sh.stamp();
                drop(ctl);
                let post = sh.stamp();
                prod.push(Prod { thread: ti, id, kind: ProdKind::Drop, pre, post });
            }
            prod
        }));
    }
    let mut prod = Vec::new();
    let mut thread_panicked = false;
    for h in handles {
        match h.join() {
            Ok(p) => prod.push(p),
            Err(_) => {
                thread_panicked = true;
                prod.push(Vec::new());
            }
        }
    }
    // everything the sources sent is now in the channel: a sentinel source, registered
    // and dropped after them, marks the end of the history (FIFO channel).
    // The marker is a source *message* for an id nobody registered, put on the wrapper's
    // own channel: whatever the loop does with removals or usability changes, it has to
    // take this message off the channel after everything the sources sent.
    {
        let t = tag_time(sh.stamp());
        let marker = SynthSnap {
            id: sentinel,
            offset: 0.0,
            freq: 0.0,
            var_offset: 1.0,
            cov: 0.0,
            var_freq: 1e-12,
            wander: 1e-16,
            delay: 1.0,
            period: None,
            source_uncertainty: dur_from_i64(0),
            source_delay: dur_from_i64(0),
            leap: NtpLeapIndicator::Unsynchronized,
            time: ts_from_u64(t),
        };
        hook::inject_source_message(&*wrapper, hook::clock_id(sentinel), hook::make_message(&marker));
    }
    // generous wall-clock bound for the harness itself (never a verdict: the case becomes a
    // harness error if the loop does not reach the marker)
    let mut loop_finished = match fin_rx.recv_timeout(std::time::Duration::from_secs(30)) {
        Ok(r) => r,
        Err(_) => {
            if let Some(tx) = sh.done.lock().unwrap().take() {
                let _ = tx.send(());
            }
            false
        }
    };
    if loop_thread.join().is_err() {
        loop_finished = false;
    }
    let (_, final_used) = wrapper.synchronization_state();
    let spy = sh.log.lock().unwrap().clone();
    StressResult {
        spy,
        prod,
        final_used: final_used.into_iter().map(hook::clock_id_raw).collect(),
        loop_finished,
        sentinel,
        thread_panicked,
    }
}

/// A finding of the offline checker: (signature suffix, description).
pub type Finding = (String, String);

#[derive(Debug, Default, Clone)]
pub struct StressStats {
    pub estimates: u64,
    pub estimates_with_used: u64,
    pub used_checked: u64,
    pub msgs: u64,
    pub msgs_after_removal: u64,
    pub usable_events: u64,
    pub removes: u64,
    pub order_checked: u64,
    pub time_updates: u64,
    pub ambiguous_windows: u64,
    pub not_seen: u64,
}

#[derive(Clone, Copy, Default, Debug)]
pub struct Told {
    pub added: bool,
    pub removed: bool,
    pub usable: bool,
}

/// inverse of `tag_time` (None for times that are not on the stamp grid)
pub fn tag_stamp(t: u64) -> Option<u64> {
    let base = 3_900_000_000u64 << 32;
    if t >= base && (t - base) % (1 << 20) == 0 { Some((t - base) >> 20) } else { None }
}

/// Offline oracle over the linearised spy log and the per-thread production logs.
///
/// (1) per-source order: the events the controller saw for one source are in the order
///     that source produced them (unforwarded/lost events are not judged, only inversions,
///     duplicates and events nobody produced);
/// (2) every source used for an estimate is, at that point of the spy log, registered, not
///     removed and last reported usable (what the loop told the controller);
/// (3) the same against the source tasks' own operation logs using the global stamps:
///     operations that returned before the triggering measurement was taken are certainly
///     reported, operations started after the estimate was computed certainly are not; a used
///     source must be eligible for at least one admissible prefix of its own operations;
/// (4) a message for a source that is removed / not registered at that point of the log
///     produces no update and no clock call.
pub fn check_stress(r: &StressResult) -> (Vec<Finding>, StressStats) {
    use std::collections::HashMap;
    let mut f: Vec<Finding> = Vec::new();
    let mut st = StressStats::default();

    let mut prod_by_id: HashMap<u64, Vec<&Prod>> = HashMap::new();
    for t in &r.prod {
        for p in t {
            prod_by_id.entry(p.id).or_default().push(p);
        }
    }
    let mut consumed: HashMap<u64, (usize, Vec<bool>)> = HashMap::new();
    let mut told: HashMap<u64, Told> = HashMap::new();

    for ev in &r.spy {
        let (id, want): (u64, Option<ProdKind>) = match ev {
            SpyEv::Add { id } => (*id, Some(ProdKind::Register)),
            SpyEv::Remove { id } => (*id, Some(ProdKind::Drop)),
            SpyEv::Usable { id, usable } => (*id, Some(ProdKind::Usable(*usable))),
            SpyEv::Msg { id, tag, .. } => (*id, Some(ProdKind::Measure { tag: *tag })),
            SpyEv::TimeUpdate { .. } => (0, None),
        };
        if let (Some(want), true) = (want, id != r.sentinel) {
            let list = prod_by_id.get(&id).map(|v| v.as_slice()).unwrap_or(&[]);
            let (cur, done) = consumed.entry(id).or_insert_with(|| (0, vec![false; list.len()]));
            let same = |k: &ProdKind| match (k, &want) {
                (ProdKind::Late { tag: a }, ProdKind::Measure { tag: b }) => a == b,
                (a, b) => a == b,
            };
            st.order_checked += 1;
            if let Some(j) = (*cur..list.len()).find(|j| !done[*j] && same(&list[*j].kind)) {
                done[j] = true;
                *cur = j + 1;
            } else if let Some(j) = (0..(*cur).min(list.len())).find(|j| !done[*j] && same(&list[*j].kind)) {
                done[j] = true;
                f.push((
                    "per-source-order".into(),
                    format!(
                        "source {id}: the controller processed {:?} (produced as operation #{j}) after operation #{} of the same source",
                        want,
                        *cur - 1
                    ),
                ));
            } else {
                f.push((
                    "unproduced-event".into(),
                    format!("source {id}: the controller processed {:?}, which the source produced no (further) time", want),
                ));
            }
        }

        match ev {
            SpyEv::Add { id } => {
                told.insert(*id, Told { added: true, removed: false, usable: false });
            }
            SpyEv::Remove { id } => {
                st.removes += 1;
                told.entry(*id).or_default().removed = true;
            }
            SpyEv::Usable { id, usable } => {
                st.usable_events += 1;
                told.entry(*id).or_default().usable = *usable;
            }
            SpyEv::Msg { id, tag, q, used, clock_calls, changed_clock, default_update } => {
                st.msgs += 1;
                let s = told.get(id).copied().unwrap_or_default();
                if !s.added || s.removed {
                    st.msgs_after_removal += 1;
                    if !*default_update || *clock_calls > 0 {
                        f.push((
                            "data-after-removal-used".into(),
                            format!(
                                "message (tag {tag:#x}) for source {id}, which is {} at that point of the log, produced an update (used={used:?}, clock calls={clock_calls})",
                                if s.removed { "removed" } else { "not registered" }
                            ),
                        ));
                    }
                }
                if let Some(u) = used {
                    st.estimates += 1;
                    if !u.is_empty() {
                        st.estimates_with_used += 1;
                    }
                    check_used(&mut f, &mut st, u, &told, &prod_by_id, tag_stamp(*tag), *q);
                } else if *changed_clock {
                    f.push((
                        "clock-change-without-used-sources".into(),
                        format!("message (tag {tag:#x}) of source {id} changed the clock but reported no used sources"),
                    ));
                }
            }
            SpyEv::TimeUpdate { q, used, .. } => {
                st.time_updates += 1;
                if let Some(u) = used {
                    check_used(&mut f, &mut st, u, &told, &prod_by_id, None, *q);
                }
            }
        }
    }
    for (id, list) in &prod_by_id {
        let done = consumed.get(id).map(|c| c.1.clone()).unwrap_or_else(|| vec![false; list.len()]);
        st.not_seen += list
            .iter()
            .zip(done.iter())
            .filter(|(p, d)| !**d && !matches!(p.kind, ProdKind::Measure { .. }))
            .count() as u64;
    }
    (f, st)
}

fn check_used(
    f: &mut Vec<Finding>,
    st: &mut StressStats,
    used: &[u64],
    told: &std::collections::HashMap<u64, Told>,
    prod_by_id: &std::collections::HashMap<u64, Vec<&Prod>>,
    p: Option<u64>,
    q: u64,
) {
    for u in used {
        st.used_checked += 1;
        let s = told.get(u).copied().unwrap_or_default();
        if !(s.added && !s.removed && s.usable) {
            f.push((
                "used-source-not-eligible-in-log".into(),
                format!(
                    "estimate at stamp {q} uses source {u} which at that point of the log is added={} removed={} last-reported-usable={}",
                    s.added, s.removed, s.usable
                ),
            ));
        }
        let list = prod_by_id.get(u).map(|v| v.as_slice()).unwrap_or(&[]);
        if list.is_empty() {
            f.push((
                "used-source-never-registered".into(),
                format!("estimate at stamp {q} uses source {u} which no task registered"),
            ));
            continue;
        }
        // admissible prefixes of the source's own operations: lengths lo..=hi
        let lo = match p {
            Some(p) => list.iter().take_while(|o| o.post < p).count(),
            None => 0,
        };
        let hi = list.iter().take_while(|o| o.pre < q).count();
        if hi > lo {
            st.ambiguous_windows += 1;
        }
        let (mut ok, mut reg, mut rem, mut usable) = (false, false, false, false);
        for (j, o) in list.iter().enumerate().take(hi) {
            match o.kind {
                ProdKind::Register => reg = true,
                ProdKind::Drop => rem = true,
                ProdKind::Usable(b) => usable = b,
                _ => {}
            }
            if j + 1 >= lo && reg && !rem && usable {
                ok = true;
            }
        }
        if !ok {
            f.push((
                "used-source-not-eligible-by-production".into(),
                format!(
                    "estimate at stamp {q} (measurement stamp {p:?}) uses source {u}, but no prefix of that source's own operations between 'certainly reported' ({lo} ops) and 'possibly reported' ({hi} ops) leaves it registered, not dropped and last reported usable: {:?}",
                    list.iter().map(|o| (o.kind, o.pre, o.post)).collect::<Vec<_>>()
                ),
            ));
        }
    }
}
