//! E-SRV — the shared NTP *server* workload engine (properties C15–C22).
//!
//! * builds the REAL `ntp_proto::Server` with a spy `ServerStatHandler`, arbitrary
//!   configuration, arbitrary `NtpServerInfo` and a `KeySet` with a rotation history;
//! * generates request datagrams byte by byte (own encoder on top of `refntp`): the grammar
//!   of valid requests (v3/v4/v5, plain, upgrade marker, NTS with real cookies, placeholders,
//!   unique ids, reference-id requests, unknown fields, legacy MACs, v5 padding), hostile
//!   mutations of those and raw random bytes; every datagram carries ground truth;
//! * handles a datagram the way the daemon does (request-sized response buffer);
//! * reference-side helpers for the oracles: own subnet matcher, own reply classifier, own
//!   NTS opener (AES-SIV straight from the `aes-siv` dependency via the hook), own reflection
//!   (taint) scanner.
//!
//! Nothing in here decides a verdict; the monitors in props/c15..c22 do.

use std::net::{IpAddr, Ipv4Addr, Ipv6Addr};
use std::sync::atomic::{AtomicU64, Ordering};
use std::sync::{Arc, RwLock};
use std::time::Duration;

use ntp_proto::verif::misc::{dur_from_i64, ts_from_u64};
use ntp_proto::verif::packet::a5 as hpkt;
use ntp_proto::verif::srv as hsrv;
use ntp_proto::{
    FilterAction, FilterList, IpSubnet, KeySet, KeySetProvider, NtpClock, NtpDuration, NtpLeapIndicator,
    NtpServerInfo, NtpSnapshot, NtpTimestamp, NtpVersion, Server, ServerAction, ServerConfig, ServerReason,
    ServerResponse, ServerStatHandler, TimeSnapshot,
};
use serde_json::{Value, json};

use crate::common::refntp::{
    self, EF_NTS_AUTH, EF_NTS_COOKIE, EF_NTS_PLACEHOLDER, EF_UNIQUE_ID, EF_V5_DRAFT_ID, EF_V5_PADDING,
    EF_V5_REFID_REQ, EF_V5_REFID_RESP, RefField, RefHeader, RefPacket, UPGRADE_MARKER,
};
use crate::core::{Rng, hex};

// ------------------------------------------------------------------------------------------
// spy statistics handler and clock
// ------------------------------------------------------------------------------------------

#[derive(Clone, Copy, Debug, PartialEq, Eq, Hash)]
pub struct Reg {
    pub version: u8,
    pub nts: bool,
    pub reason: ServerReason,
    pub response: ServerResponse,
}

impl Reg {
    pub fn json(&self) -> Value {
        json!({"version": self.version, "nts": self.nts, "reason": format!("{:?}", self.reason), "response": format!("{:?}", self.response)})
    }
}

/// Records every `register` call; optionally forwards it to the daemon's `ServerStats`.
#[derive(Default)]
pub struct Spy {
    pub regs: Vec<Reg>,
    pub forward: Option<ntpd::verif::m::server::ServerStats>,
}

impl ServerStatHandler for Spy {
    fn register(&mut self, version: u8, nts: bool, reason: ServerReason, response: ServerResponse) {
        self.regs.push(Reg { version, nts, reason, response });
        if let Some(f) = self.forward.as_mut() {
            f.register(version, nts, reason, response);
        }
    }
}

#[derive(Clone, Default)]
pub struct SimClock(pub Arc<AtomicU64>);

#[derive(Debug)]
pub struct NoSteer;
impl std::fmt::Display for NoSteer {
    fn fmt(&self, f: &mut std::fmt::Formatter<'_>) -> std::fmt::Result {
        write!(f, "server-side clock is read-only")
    }
}
impl std::error::Error for NoSteer {}

impl NtpClock for SimClock {
    type Error = NoSteer;
    fn now(&self) -> Result<NtpTimestamp, NoSteer> {
        Ok(ts_from_u64(self.0.load(Ordering::Relaxed)))
    }
    fn set_frequency(&self, _: f64) -> Result<NtpTimestamp, NoSteer> {
        Err(NoSteer)
    }
    fn get_frequency(&self) -> Result<f64, NoSteer> {
        Ok(0.0)
    }
    fn step_clock(&self, _: NtpDuration) -> Result<NtpTimestamp, NoSteer> {
        Err(NoSteer)
    }
    fn disable_ntp_algorithm(&self) -> Result<(), NoSteer> {
        Err(NoSteer)
    }
    fn error_estimate_update(&self, _: NtpDuration, _: NtpDuration) -> Result<(), NoSteer> {
        Err(NoSteer)
    }
    fn status_update(&self, _: NtpLeapIndicator) -> Result<(), NoSteer> {
        Err(NoSteer)
    }
}

// ------------------------------------------------------------------------------------------
// configuration
// ------------------------------------------------------------------------------------------

#[derive(Clone, Copy, Debug, PartialEq, Eq, Hash)]
pub enum Act {
    Ignore,
    Deny,
}

impl Act {
    fn real(self) -> FilterAction {
        match self {
            Act::Ignore => FilterAction::Ignore,
            Act::Deny => FilterAction::Deny,
        }
    }
}

/// A subnet as the monitor understands it: address in its canonical family + prefix length.
#[derive(Clone, Debug, PartialEq, Eq, Hash)]
pub struct Subnet {
    pub addr: IpAddr,
    pub mask: u8,
    /// how it is handed to the code under test: Some(text) = through the real `FromStr`
    pub text: Option<String>,
}

#[derive(Clone, Debug)]
pub struct CfgSpec {
    pub deny: Vec<Subnet>,
    pub deny_action: Act,
    pub allow: Vec<Subnet>,
    pub allow_action: Act,
    pub cache_size: usize,
    pub cutoff: Duration,
    pub require_nts: Option<Act>,
    pub versions: Vec<u8>,
}

impl CfgSpec {
    pub fn open() -> CfgSpec {
        CfgSpec {
            deny: vec![],
            deny_action: Act::Ignore,
            allow: vec![
                Subnet { addr: IpAddr::V4(Ipv4Addr::UNSPECIFIED), mask: 0, text: None },
                Subnet { addr: IpAddr::V6(Ipv6Addr::UNSPECIFIED), mask: 0, text: None },
            ],
            allow_action: Act::Ignore,
            cache_size: 0,
            cutoff: Duration::ZERO,
            require_nts: None,
            versions: vec![3, 4, 5],
        }
    }

    fn real_list(list: &[Subnet]) -> Result<Vec<IpSubnet>, String> {
        list.iter()
            .map(|s| match &s.text {
                Some(t) => t.parse::<IpSubnet>().map_err(|e| format!("subnet {t}: {e}")),
                None => Ok(IpSubnet { addr: s.addr, mask: s.mask }),
            })
            .collect()
    }

    pub fn to_config(&self) -> Result<ServerConfig, String> {
        Ok(ServerConfig {
            denylist: FilterList { filter: Self::real_list(&self.deny)?, action: self.deny_action.real() },
            allowlist: FilterList { filter: Self::real_list(&self.allow)?, action: self.allow_action.real() },
            rate_limiting_cache_size: self.cache_size,
            rate_limiting_cutoff: self.cutoff,
            require_nts: self.require_nts.map(Act::real),
            accepted_versions: self
                .versions
                .iter()
                .map(|v| NtpVersion::try_from(*v).map_err(|e| e.to_string()))
                .collect::<Result<_, _>>()?,
        })
    }

    pub fn json(&self) -> Value {
        let l = |v: &[Subnet]| v.iter().map(|s| s.text.clone().unwrap_or(format!("{}/{}", s.addr, s.mask))).collect::<Vec<_>>();
        json!({
            "deny": l(&self.deny), "deny_action": format!("{:?}", self.deny_action),
            "allow": l(&self.allow), "allow_action": format!("{:?}", self.allow_action),
            "cache_size": self.cache_size, "cutoff_ms": self.cutoff.as_millis() as u64,
            "require_nts": self.require_nts.map(|a| format!("{a:?}")),
            "versions": self.versions,
        })
    }
}

#[derive(Clone, Copy, Debug, PartialEq, Eq)]
pub enum RateMode {
    /// cache size 0
    Off,
    /// any size, cutoff 0 or 1 h (so decisions do not depend on wall-clock)
    Any,
}

#[derive(Clone, Copy, Debug)]
pub struct CfgOpts {
    pub lists: bool,
    pub rate: RateMode,
    pub require_nts: bool,
    pub version_subsets: bool,
}

fn gen_subnet(rng: &mut Rng) -> Subnet {
    if rng.chance(3, 5) {
        let mask = match rng.below(6) {
            0 => *rng.pick(&[0u8, 32, 31, 1]),
            1 => *rng.pick(&[8u8, 16, 24]),
            _ => rng.below(33) as u8,
        };
        let a = Ipv4Addr::from(gen_v4_bits(rng));
        if rng.chance(1, 6) && mask <= 32 {
            // written as an IPv4-mapped IPv6 subnet in the configuration text
            let text = format!("::ffff:{}/{}", a, mask as u16 + 96);
            Subnet { addr: IpAddr::V4(a), mask, text: Some(text) }
        } else if rng.chance(1, 4) {
            Subnet { addr: IpAddr::V4(a), mask, text: Some(format!("{a}/{mask}")) }
        } else {
            Subnet { addr: IpAddr::V4(a), mask, text: None }
        }
    } else {
        let mask = match rng.below(6) {
            0 => *rng.pick(&[0u8, 128, 127, 1]),
            1 => *rng.pick(&[32u8, 48, 56, 64, 96, 112]),
            _ => rng.below(129) as u8,
        };
        let mut bits = rng.u64() as u128 | ((rng.u64() as u128) << 64);
        if rng.chance(1, 4) {
            bits &= !0u128 << 64; // typical: interface id zero
        }
        // keep configuration subnets out of the mapped range unless written in mapped form
        if (bits >> 32) == 0xffff {
            bits ^= 1 << 127;
        }
        let a = Ipv6Addr::from(bits);
        if rng.chance(1, 4) {
            Subnet { addr: IpAddr::V6(a), mask, text: Some(format!("{a}/{mask}")) }
        } else {
            Subnet { addr: IpAddr::V6(a), mask, text: None }
        }
    }
}

fn gen_v4_bits(rng: &mut Rng) -> u32 {
    match rng.below(5) {
        0 => u32::from_be_bytes([10, rng.u8(), rng.u8(), rng.u8()]),
        1 => u32::from_be_bytes([192, 168, rng.u8(), rng.u8()]),
        2 => rng.edge_u64() as u32,
        _ => rng.u32(),
    }
}

pub fn gen_cfg(rng: &mut Rng, o: CfgOpts) -> CfgSpec {
    let mut c = CfgSpec::open();
    if o.lists {
        match rng.below(4) {
            0 => {}
            _ => {
                c.deny = (0..rng.below(7)).map(|_| gen_subnet(rng)).collect();
            }
        }
        match rng.below(5) {
            0 => {} // allow everything
            1 => c.allow = vec![],
            _ => {
                c.allow = (0..rng.below(7)).map(|_| gen_subnet(rng)).collect();
                if rng.bool() {
                    // wide nets so that a fair share of clients passes
                    c.allow.push(Subnet { addr: IpAddr::V4(Ipv4Addr::from(rng.u32())), mask: rng.below(3) as u8, text: None });
                    c.allow.push(Subnet { addr: IpAddr::V6(Ipv6Addr::from((rng.u64() as u128) << 64)), mask: rng.below(3) as u8, text: None });
                }
            }
        }
        c.deny_action = if rng.bool() { Act::Ignore } else { Act::Deny };
        c.allow_action = if rng.bool() { Act::Ignore } else { Act::Deny };
    }
    match o.rate {
        RateMode::Off => {}
        RateMode::Any => {
            c.cache_size = *rng.pick(&[0usize, 1, 2, 8, 64]);
            c.cutoff = if rng.bool() { Duration::ZERO } else { Duration::from_secs(3600) };
        }
    }
    if o.require_nts {
        c.require_nts = match rng.below(4) {
            0 => Some(Act::Ignore),
            1 => Some(Act::Deny),
            _ => None,
        };
    }
    if o.version_subsets {
        c.versions = match rng.below(10) {
            0 => vec![],
            1 => vec![3],
            2 => vec![4],
            3 => vec![5],
            4 => vec![3, 4],
            5 => vec![4, 5],
            6 => vec![5, 3],
            _ => vec![3, 4, 5],
        };
    }
    c
}

// --- own subnet matcher (written from the statement: a client is "on" a list when its
// address, IPv4-mapped IPv6 taken as IPv4, lies in one of the list's subnets) ---

pub fn canon(ip: IpAddr) -> IpAddr {
    match ip {
        IpAddr::V4(_) => ip,
        IpAddr::V6(a) => {
            let o = a.octets();
            if o[..10].iter().all(|b| *b == 0) && o[10] == 0xff && o[11] == 0xff {
                IpAddr::V4(Ipv4Addr::new(o[12], o[13], o[14], o[15]))
            } else {
                ip
            }
        }
    }
}

fn prefix_eq(a: u128, b: u128, width: u32, mask: u32) -> bool {
    if mask == 0 {
        return true;
    }
    let shift = width - mask.min(width);
    (a >> shift) == (b >> shift)
}

pub fn subnet_contains(s: &Subnet, ip: IpAddr) -> bool {
    match (s.addr, canon(ip)) {
        (IpAddr::V4(n), IpAddr::V4(a)) => prefix_eq(u32::from(n) as u128, u32::from(a) as u128, 32, s.mask as u32),
        (IpAddr::V6(n), IpAddr::V6(a)) => prefix_eq(u128::from(n), u128::from(a), 128, s.mask as u32),
        _ => false,
    }
}

#[derive(Clone, Copy, Debug, PartialEq, Eq, Hash)]
pub enum ListVerdict {
    In,
    Out,
    /// an IPv4 (or mapped) client that is in no IPv4 subnet of the list but whose mapped form
    /// `::ffff:a.b.c.d` lies in one of the list's IPv6 subnets: the statement does not say
    /// which way this goes, so the monitors do not judge list membership here
    Ambiguous,
}

pub fn list_verdict(list: &[Subnet], ip: IpAddr) -> ListVerdict {
    if list.iter().any(|s| subnet_contains(s, ip)) {
        return ListVerdict::In;
    }
    if let IpAddr::V4(a) = canon(ip) {
        let mapped = 0xffff_0000_0000u128 | u32::from(a) as u128;
        if list.iter().any(|s| match s.addr {
            IpAddr::V6(n) => prefix_eq(u128::from(n), mapped, 128, s.mask as u32),
            _ => false,
        }) {
            return ListVerdict::Ambiguous;
        }
    }
    ListVerdict::Out
}

/// A client address placed inside, outside or at the edges of the configured subnets.
pub fn gen_client(rng: &mut Rng, cfg: &CfgSpec) -> IpAddr {
    let all: Vec<&Subnet> = cfg.deny.iter().chain(cfg.allow.iter()).collect();
    let ip = if !all.is_empty() && rng.chance(3, 4) {
        let s = *rng.pick(&all);
        match s.addr {
            IpAddr::V4(n) => {
                let n = u32::from(n);
                let host = if s.mask >= 32 { 0 } else { u32::MAX >> s.mask };
                let first = n & !host;
                let last = first | host;
                let v = match rng.below(6) {
                    0 => first,
                    1 => last,
                    2 => first.wrapping_sub(1),
                    3 => last.wrapping_add(1),
                    4 => first ^ (1u32.checked_shl(32 - s.mask.min(32) as u32).unwrap_or(0)), // sibling subnet
                    _ => first | (rng.u32() & host),
                };
                IpAddr::V4(Ipv4Addr::from(v))
            }
            IpAddr::V6(n) => {
                let n = u128::from(n);
                let host = if s.mask >= 128 { 0 } else { u128::MAX >> s.mask };
                let first = n & !host;
                let last = first | host;
                let r = rng.u64() as u128 | ((rng.u64() as u128) << 64);
                let v = match rng.below(6) {
                    0 => first,
                    1 => last,
                    2 => first.wrapping_sub(1),
                    3 => last.wrapping_add(1),
                    4 => first ^ (1u128.checked_shl(128 - s.mask.min(128) as u32).unwrap_or(0)),
                    _ => first | (r & host),
                };
                IpAddr::V6(Ipv6Addr::from(v))
            }
        }
    } else if rng.bool() {
        IpAddr::V4(Ipv4Addr::from(gen_v4_bits(rng)))
    } else {
        IpAddr::V6(Ipv6Addr::from(rng.u64() as u128 | ((rng.u64() as u128) << 64)))
    };
    // an IPv4 client may show up in mapped form (dual-stack socket)
    match ip {
        IpAddr::V4(a) if rng.chance(1, 4) => IpAddr::V6(a.to_ipv6_mapped()),
        _ => ip,
    }
}

// ------------------------------------------------------------------------------------------
// synchronisation state
// ------------------------------------------------------------------------------------------

#[derive(Clone, Debug)]
pub struct InfoSpec {
    pub stratum: u8,
    /// 0 NoWarning, 1 Leap61, 2 Leap59, 3 Unknown, 4 Unsynchronized
    pub leap: u8,
    pub refid: u32,
    pub root_delay_raw: i64,
    pub precision_raw: i64,
    pub base_time: u64,
    pub var: [f64; 4],
    pub bloom: Vec<u8>,
    /// "normal" | "zero" | "stale" | "race"
    pub class: &'static str,
}

impl InfoSpec {
    pub fn leap_bits(&self) -> u8 {
        match self.leap {
            0 => 0,
            1 => 1,
            2 => 2,
            _ => 3,
        }
    }
    /// root dispersion (seconds) the statement's "current reference data" implies at `recv`
    pub fn dispersion_at(&self, recv: u64) -> f64 {
        let t = (recv.wrapping_sub(self.base_time) as i64) as f64 / 4294967296.0;
        (self.var[0] + t * self.var[1] + t * t * self.var[2] + t * t * t * self.var[3]).sqrt()
    }
    pub fn json(&self) -> Value {
        json!({"stratum": self.stratum, "leap": self.leap, "refid": format!("{:08x}", self.refid),
               "root_delay_raw": self.root_delay_raw, "precision_raw": self.precision_raw,
               "base_time": format!("{:016x}", self.base_time), "var": self.var, "class": self.class})
    }
}

/// `recv` is the reception timestamp the case is going to use (the state is placed relative to it).
pub fn gen_info(rng: &mut Rng, recv: u64, allow_odd: bool) -> (InfoSpec, NtpServerInfo) {
    use rand::SeedableRng;
    let class = if allow_odd {
        match rng.below(10) {
            0 => "zero",
            1 | 2 => "stale",
            3 => "race",
            _ => "normal",
        }
    } else if rng.chance(1, 10) {
        "zero"
    } else {
        "normal"
    };
    let sec = 1u64 << 32;
    let (base_time, var) = match class {
        "zero" => (0u64, [0.0; 4]),
        "stale" => {
            let dt = rng.below(1 << 31) * sec + rng.below(sec);
            let vb = rng.log_uniform(1e-12, 1e-2);
            let vq = rng.log_uniform(1e-16, 1e-8);
            (recv.wrapping_sub(dt), [vb, rng.f64_range(-1.0, 1.0) * (vb * vq).sqrt(), vq, rng.log_uniform(1e-16, 1e-8)])
        }
        "race" => {
            // the request was timestamped by the kernel shortly before the last clock update
            let dt = rng.below(10 * sec);
            let vb = rng.log_uniform(1e-14, 1e-4);
            let vq = rng.log_uniform(1e-16, 1e-10);
            (recv.wrapping_add(dt), [vb, rng.f64_range(-1.0, 1.0) * (vb * vq).sqrt(), vq, rng.log_uniform(1e-16, 1e-8)])
        }
        _ => {
            let dt = rng.below(100_000) * sec + rng.below(sec);
            let vb = rng.log_uniform(1e-12, 1e-2);
            let vq = if rng.chance(1, 3) { 0.0 } else { rng.log_uniform(1e-16, 1e-10) };
            let vc = if rng.chance(1, 3) { 0.0 } else { rng.log_uniform(1e-18, 1e-14) };
            (recv.wrapping_sub(dt), [vb, rng.f64_range(-1.0, 1.0) * (vb * vq).sqrt(), vq, vc])
        }
    };
    let mut bloom = ntp_proto::v5::BloomFilter::new();
    let mut r = rand::rngs::StdRng::seed_from_u64(rng.u64());
    for _ in 0..rng.below(12) {
        bloom.add_id(&ntp_proto::v5::ServerId::new(&mut r));
    }
    let spec = InfoSpec {
        stratum: if class == "zero" { 16 } else { rng.range(1, 16) as u8 },
        leap: if class == "zero" { 3 } else { rng.below(5) as u8 },
        refid: match rng.below(4) {
            0 => u32::from_be_bytes(*b"XNON"),
            1 => u32::from_be_bytes(*b"PPS\0"),
            _ => rng.u32(),
        },
        root_delay_raw: match rng.below(4) {
            0 => 0,
            1 => rng.below(1 << 20) as i64,
            _ => rng.below(16 << 32) as i64,
        },
        precision_raw: match rng.below(3) {
            0 => 1i64 << rng.range(2, 31),
            1 => 1 << 14,
            _ => rng.range(1, 1 << 30),
        },
        base_time,
        var,
        bloom: bloom.as_bytes().to_vec(),
        class,
    };
    let info = NtpServerInfo {
        time_snapshot: TimeSnapshot {
            precision: dur_from_i64(spec.precision_raw),
            root_delay: dur_from_i64(spec.root_delay_raw),
            root_variance_base_time: ts_from_u64(spec.base_time),
            root_variance_base: var[0],
            root_variance_linear: var[1],
            root_variance_quadratic: var[2],
            root_variance_cubic: var[3],
            leap_indicator: match spec.leap {
                0 => NtpLeapIndicator::NoWarning,
                1 => NtpLeapIndicator::Leap61,
                2 => NtpLeapIndicator::Leap59,
                3 => NtpLeapIndicator::Unknown,
                _ => NtpLeapIndicator::Unsynchronized,
            },
            accumulated_steps: NtpDuration::ZERO,
            accumulated_steps_threshold: None,
        },
        ntp_snapshot: NtpSnapshot {
            stratum: spec.stratum,
            reference_id: hsrv::refid_from_u32(spec.refid),
            bloom_filter: bloom,
        },
    };
    (spec, info)
}

// ------------------------------------------------------------------------------------------
// key sets
// ------------------------------------------------------------------------------------------

pub struct KeyWorld {
    pub history: usize,
    /// snaps[k] = key set after k rotations; the server holds the last one
    pub snaps: Vec<Arc<KeySet>>,
}

impl KeyWorld {
    pub fn current(&self) -> Arc<KeySet> {
        self.snaps.last().unwrap().clone()
    }
    pub fn rotations(&self) -> usize {
        self.snaps.len() - 1
    }
}

/// Initial key set through the real `KeySetProvider::load` (deterministic key bytes, any id
/// offset), then the real `rotate` `rotations` times.
pub fn gen_keys(rng: &mut Rng, max_rot: usize, max_hist: usize) -> Result<KeyWorld, String> {
    let history = rng.usize(0, max_hist);
    let n = rng.usize(1, history + 1);
    let id_offset: u32 = match rng.below(4) {
        0 => 0,
        1 => u32::MAX - rng.below(4) as u32,
        2 => rng.below(16) as u32,
        _ => rng.u32(),
    };
    let mut file = Vec::new();
    file.extend_from_slice(&1_700_000_000u64.to_be_bytes());
    file.extend_from_slice(&id_offset.to_be_bytes());
    file.extend_from_slice(&((n - 1) as u32).to_be_bytes());
    file.extend_from_slice(&(n as u32).to_be_bytes());
    for _ in 0..n {
        file.extend_from_slice(&rng.bytes(64));
    }
    let (mut p, _) = KeySetProvider::load(&mut &file[..], history).map_err(|e| format!("keyset load: {e}"))?;
    let mut snaps = vec![p.get()];
    for _ in 0..rng.usize(0, max_rot) {
        p.rotate();
        snaps.push(p.get());
    }
    Ok(KeyWorld { history, snaps })
}

#[derive(Clone, Debug)]
pub struct Session {
    pub alg: u16,
    pub c2s: Vec<u8>,
    pub s2c: Vec<u8>,
}

pub fn gen_session(rng: &mut Rng) -> Session {
    let alg = if rng.chance(2, 3) { 15 } else { 17 };
    let n = if alg == 15 { 32 } else { 64 };
    Session { alg, c2s: rng.bytes(n), s2c: rng.bytes(n) }
}

/// A REAL cookie for the session, issued under the key set as it was after `snap` rotations.
pub fn make_cookie(keys: &KeyWorld, snap: usize, s: &Session) -> Result<Vec<u8>, String> {
    let c = hsrv::make_cookie(s.alg, &s.s2c, &s.c2s).ok_or("make_cookie: bad key size")?;
    Ok(hsrv::encode_cookie(&keys.snaps[snap], &c))
}

// ------------------------------------------------------------------------------------------
// the world: one real server
// ------------------------------------------------------------------------------------------

pub struct World {
    pub cfg: CfgSpec,
    pub info: InfoSpec,
    pub keys: KeyWorld,
    pub clock: SimClock,
    pub server: Server<SimClock>,
    pub info_handle: Arc<RwLock<NtpServerInfo>>,
}

pub fn build_server(cfg: &CfgSpec, info: NtpServerInfo, keyset: Arc<KeySet>, clock: SimClock) -> Result<(Server<SimClock>, Arc<RwLock<NtpServerInfo>>), String> {
    let h = Arc::new(RwLock::new(info));
    Ok((Server::new_internal(cfg.to_config()?, clock, h.clone(), keyset), h))
}

pub fn build_world(cfg: CfgSpec, spec: InfoSpec, info: NtpServerInfo, keys: KeyWorld, now: u64) -> Result<World, String> {
    let clock = SimClock(Arc::new(AtomicU64::new(now)));
    let (server, info_handle) = build_server(&cfg, info, keys.current(), clock.clone())?;
    Ok(World { cfg, info: spec, keys, clock, server, info_handle })
}

#[derive(Clone, Debug)]
pub struct Handled {
    /// None = `ServerAction::Ignore`
    pub reply: Option<Vec<u8>>,
    pub regs: Vec<Reg>,
}

/// One datagram through the real `Server::handle` with a response buffer of `buf_len` bytes.
pub fn handle_buf(server: &mut Server<SimClock>, spy: &mut Spy, ip: IpAddr, recv: u64, msg: &[u8], buf_len: usize) -> Handled {
    let before = spy.regs.len();
    let mut buf = vec![0u8; buf_len];
    let reply = match server.handle(ip, ts_from_u64(recv), msg, &mut buf, spy) {
        ServerAction::Ignore => None,
        ServerAction::Respond { message } => Some(message.to_vec()),
    };
    Handled { reply, regs: spy.regs[before..].to_vec() }
}

/// The way the daemon calls it: `&mut send_buf[..length]` (ntpd/src/daemon/server.rs).
pub fn handle_like_daemon(server: &mut Server<SimClock>, spy: &mut Spy, ip: IpAddr, recv: u64, msg: &[u8]) -> Handled {
    handle_buf(server, spy, ip, recv, msg, msg.len())
}

// ------------------------------------------------------------------------------------------
// request grammar
// ------------------------------------------------------------------------------------------

/// One extension field of a request under construction.
#[derive(Clone, Debug)]
pub enum F {
    Uid(Vec<u8>),
    Cookie(Vec<u8>),
    /// all-zero placeholder with this value length
    Placeholder(usize),
    Unknown(u16, Vec<u8>),
    DraftId,
    /// v5 padding field with this value
    Padding(Vec<u8>),
    /// v5 reference-id request: offset, value length (>= 2; the value is offset + zeros)
    RefIdReq(u16, usize),
    /// NTS authenticator and encrypted extension fields
    Auth(AuthSpec),
}

#[derive(Clone, Debug)]
pub struct AuthSpec {
    pub alg: u16,
    pub key: Vec<u8>,
    pub nonce: Vec<u8>,
    pub enc: Vec<F>,
    /// extra zero bytes after the ciphertext inside the field (RFC 8915 "additional padding")
    pub extra_pad: usize,
}

fn pad4(n: usize) -> usize {
    (n + 3) & !3
}

/// Encodes a plain (non-Auth) field. `min` = minimum total field size (RFC 7822), applied by
/// zero-extending the value (v4: length covers it; v5: not used).
fn encode_plain(f: &F, v5: bool, min: usize) -> Vec<u8> {
    let (ty, mut val): (u16, Vec<u8>) = match f {
        F::Uid(v) => (EF_UNIQUE_ID, v.clone()),
        F::Cookie(v) => (EF_NTS_COOKIE, v.clone()),
        F::Placeholder(n) => (EF_NTS_PLACEHOLDER, vec![0; *n]),
        F::Unknown(t, v) => (*t, v.clone()),
        F::DraftId => (EF_V5_DRAFT_ID, hpkt::draft_version().as_bytes().to_vec()),
        F::Padding(v) => (EF_V5_PADDING, v.clone()),
        F::RefIdReq(off, n) => {
            let mut v = vec![0u8; (*n).max(2)];
            v[..2].copy_from_slice(&off.to_be_bytes());
            (EF_V5_REFID_REQ, v)
        }
        F::Auth(_) => unreachable!(),
    };
    if !v5 && 4 + val.len() < min {
        val.resize(min - 4, 0);
    }
    refntp::encode_field(ty, &val, v5, None)
}

/// Builder output: the datagram and where each top-level field sits.
#[derive(Clone, Debug, Default)]
pub struct Built {
    pub bytes: Vec<u8>,
    /// (offset, total length on the wire) of each top-level field
    pub spans: Vec<(usize, usize)>,
    /// plaintext of the encrypted part, as built
    pub enc_plain: Option<Vec<u8>>,
}

/// header + fields (+ legacy MAC). `rfc_min`: enforce RFC 7822 minimum sizes for v4 (16, last 28
/// without MAC) as the valid grammar does.
pub fn build(header: &RefHeader, fields: &[F], mac: &[u8], rfc_min: bool) -> Result<Built, String> {
    let v5 = header.version == 5;
    let mut out = Built { bytes: header.encode(), ..Default::default() };
    for (i, f) in fields.iter().enumerate() {
        let last = i + 1 == fields.len();
        let off = out.bytes.len();
        match f {
            F::Auth(a) => {
                let mut plain = Vec::new();
                for e in &a.enc {
                    if matches!(e, F::Auth(_)) {
                        return Err("nested auth".into());
                    }
                    plain.extend_from_slice(&encode_plain(e, v5, 0));
                }
                let ct = hsrv::siv_encrypt(a.alg, &a.key, &a.nonce, &out.bytes, &plain).ok_or("siv_encrypt failed")?;
                let mut val = Vec::new();
                val.extend_from_slice(&(a.nonce.len() as u16).to_be_bytes());
                val.extend_from_slice(&(ct.len() as u16).to_be_bytes());
                val.extend_from_slice(&a.nonce);
                val.resize(pad4(val.len()), 0);
                val.extend_from_slice(&ct);
                val.resize(pad4(val.len()) + a.extra_pad, 0);
                out.bytes.extend_from_slice(&refntp::encode_field(EF_NTS_AUTH, &val, v5, None));
                out.enc_plain = Some(plain);
            }
            _ => {
                let min = if rfc_min && !v5 { if last && mac.is_empty() { 28 } else { 16 } } else { 0 };
                out.bytes.extend_from_slice(&encode_plain(f, v5, min));
            }
        }
        out.spans.push((off, out.bytes.len() - off));
    }
    out.bytes.extend_from_slice(mac);
    Ok(out)
}

#[derive(Clone, Debug)]
pub struct NtsTruth {
    pub session: Session,
    /// rotations between issuing the cookie and now
    pub cookie_age: usize,
    /// the key the cookie was issued under is still in the server's set (age <= history)
    pub cookie_current: bool,
    /// Some(true): built to authenticate; Some(false): built NOT to authenticate (wrong key,
    /// expired cookie, tampered); None: unknown after a byte-level mutation
    pub auth_ok: Option<bool>,
}

#[derive(Clone, Debug)]
pub struct Truth {
    /// generator class, e.g. "v4/plain", "v5/nts", "mut/bitflip", "raw"
    pub class: String,
    /// unmodified product of the valid-request grammar
    pub valid: bool,
    pub version: u8,
    pub mode: u8,
    pub nts: Option<NtsTruth>,
    pub upgrade: bool,
    /// plaintext of the encrypted part as built by the harness
    pub enc_plain: Option<Vec<u8>>,
    /// layout fingerprint for shape signatures
    pub shape: u64,
}

#[derive(Clone, Debug)]
pub struct Req {
    pub bytes: Vec<u8>,
    pub truth: Truth,
}

impl Req {
    pub fn json(&self) -> Value {
        json!({"hex": hex(&self.bytes), "len": self.bytes.len(), "class": self.truth.class, "valid": self.truth.valid,
               "nts": self.truth.nts.as_ref().map(|n| json!({"alg": n.session.alg, "cookie_age": n.cookie_age, "cookie_current": n.cookie_current, "auth_ok": n.auth_ok,
                    "c2s": hex(&n.session.c2s), "s2c": hex(&n.session.s2c)}))})
    }
}

fn uid_value(rng: &mut Rng, nts: bool) -> Vec<u8> {
    let n = if nts {
        *rng.pick(&[32usize, 32, 32, 36, 48, 64])
    } else {
        *rng.pick(&[12usize, 16, 24, 32, 32, 40, 64, 100])
    };
    fresh(rng, n)
}

/// high-entropy filler: every byte region built with it is distinguishable from every other
pub fn fresh(rng: &mut Rng, n: usize) -> Vec<u8> {
    rng.bytes(n)
}

fn unknown_type(rng: &mut Rng) -> u16 {
    loop {
        let t = match rng.below(4) {
            0 => *rng.pick(&[0x0002u16, 0x0003, 0x0005, 0x0007, 0x2005, 0x4004, 0x0302, 0xF502, 0xF505, 0xF507]),
            _ => rng.u16(),
        };
        if ![EF_UNIQUE_ID, EF_NTS_COOKIE, EF_NTS_PLACEHOLDER, EF_NTS_AUTH, EF_V5_DRAFT_ID, EF_V5_PADDING, EF_V5_REFID_REQ, EF_V5_REFID_RESP].contains(&t) {
            return t;
        }
    }
}

fn legacy_mac(rng: &mut Rng) -> Vec<u8> {
    // key id + MD5 (16) or SHA-1 (20) digest
    let n = if rng.bool() { 20 } else { 24 };
    fresh(rng, n)
}

fn plain_header(rng: &mut Rng, version: u8) -> RefHeader {
    let mut h = RefHeader::request(version, *rng.pick(&[0u8, 4, 6, 10, 17, 0xff, 0x80]), rng.u64());
    // everything a client may legally put in the other header fields; all of it is non-echoable
    h.leap = if version == 5 { 3 } else { rng.below(4) as u8 };
    h.stratum = if rng.bool() { 0 } else { rng.u8() };
    h.precision = rng.u8();
    h.root_delay = rng.u32();
    h.root_dispersion = rng.u32();
    h.receive_ts = rng.u64();
    if version == 5 {
        h.timescale = rng.below(4) as u8;
        h.era = rng.u8();
        h.flags = rng.below(8) as u16;
        h.server_cookie = rng.u64();
        h.transmit_ts = rng.u64();
    } else {
        h.reference_id = rng.bytes(4).try_into().unwrap();
        h.reference_ts = rng.u64();
        h.origin = rng.u64();
    }
    h
}

#[derive(Clone, Copy, Debug, PartialEq, Eq, Hash)]
pub enum Flavor {
    V3,
    V4Plain,
    V4Upgrade,
    V4Nts,
    V5Plain,
    V5Nts,
}

pub const FLAVORS: [Flavor; 6] = [Flavor::V3, Flavor::V4Plain, Flavor::V4Upgrade, Flavor::V4Nts, Flavor::V5Plain, Flavor::V5Nts];

impl Flavor {
    pub fn version(self) -> u8 {
        match self {
            Flavor::V3 => 3,
            Flavor::V4Plain | Flavor::V4Upgrade | Flavor::V4Nts => 4,
            _ => 5,
        }
    }
    pub fn is_nts(self) -> bool {
        matches!(self, Flavor::V4Nts | Flavor::V5Nts)
    }
    pub fn name(self) -> &'static str {
        match self {
            Flavor::V3 => "v3/plain",
            Flavor::V4Plain => "v4/plain",
            Flavor::V4Upgrade => "v4/upgrade",
            Flavor::V4Nts => "v4/nts",
            Flavor::V5Plain => "v5/plain",
            Flavor::V5Nts => "v5/nts",
        }
    }
}

/// How an NTS request is meant to fare.
#[derive(Clone, Copy, Debug, PartialEq, Eq, Hash)]
pub enum NtsPlan {
    /// cookie under a key the server still has, authenticator under the cookie's c2s
    Good,
    /// cookie issued so long ago that its key has been rotated out
    ExpiredCookie,
    /// authenticator made with another key
    WrongKey,
    /// cookie bytes that never were a cookie
    GarbageCookie,
    /// a cookie of a *different* session (replayed from someone else) with our own keys
    ForeignCookie,
}

pub struct Layout {
    pub header: RefHeader,
    pub fields: Vec<F>,
    pub mac: Vec<u8>,
}

fn shape_of(version: u8, fields: &[F], mac: usize) -> u64 {
    fn tag(f: &F, acc: &mut Vec<u32>) {
        match f {
            F::Uid(v) => acc.push(0x100 + v.len() as u32 / 4),
            F::Cookie(v) => acc.push(0x200 + v.len() as u32 / 4),
            F::Placeholder(n) => acc.push(0x300 + *n as u32 / 4),
            F::Unknown(_, v) => acc.push(0x400 + v.len() as u32 / 8),
            F::DraftId => acc.push(0x500),
            F::Padding(v) => acc.push(0x600 + v.len() as u32 / 8),
            F::RefIdReq(_, n) => acc.push(0x700 + *n as u32 / 8),
            F::Auth(a) => {
                acc.push(0x800 + a.nonce.len() as u32);
                for e in &a.enc {
                    tag(e, acc);
                }
                acc.push(0x8ff);
            }
        }
    }
    let mut acc = vec![version as u32, mac as u32];
    for f in fields {
        tag(f, &mut acc);
    }
    crate::core::hash_of(&acc)
}

/// The grammar of VALID requests. Sizes respect RFC 7822 (v4 fields >= 16 octets, last one >= 28
/// when no MAC follows), RFC 8915 (unique id >= 32 octets, one cookie, placeholders as long as
/// the cookie, 16-octet nonce) and the NTPv5 draft (draft identification present).
pub fn gen_valid(rng: &mut Rng, flavor: Flavor, keys: &KeyWorld, plan: NtsPlan) -> Result<Req, String> {
    let version = flavor.version();
    let v5 = version == 5;
    let mut header = plain_header(rng, version);
    let mut fields: Vec<F> = Vec::new();
    let mut mac = Vec::new();
    let mut nts = None;
    match flavor {
        Flavor::V3 => {
            if rng.chance(1, 3) {
                mac = legacy_mac(rng);
            }
        }
        Flavor::V4Plain | Flavor::V4Upgrade => {
            if flavor == Flavor::V4Upgrade {
                header.reference_ts = UPGRADE_MARKER;
            }
            for _ in 0..*rng.pick(&[0usize, 0, 1, 1, 2, 3, 5]) {
                fields.push(match rng.below(5) {
                    0 | 1 => F::Uid(uid_value(rng, false)),
                    2 => F::Placeholder(rng.usize(3, 40) * 4),
                    _ => {
                        let n = rng.usize(3, 60) * 4;
                        F::Unknown(unknown_type(rng), fresh(rng, n))
                    }
                });
            }
            if rng.chance(1, 3) {
                mac = legacy_mac(rng);
            }
        }
        Flavor::V5Plain => {
            let n = *rng.pick(&[0usize, 0, 1, 2, 3, 4]);
            let draft_at = rng.usize(0, n);
            for i in 0..=n {
                if i == draft_at {
                    fields.push(F::DraftId);
                    continue;
                }
                fields.push(match rng.below(6) {
                    0 | 1 => F::Uid(uid_value(rng, false)),
                    2 => {
                        let len = rng.usize(1, 64) * 4;
                        let off = if rng.chance(1, 5) { rng.u16() } else { (rng.below(128) * 4) as u16 };
                        F::RefIdReq(off, len)
                    }
                    3 => {
                        let n = rng.usize(0, 50) * 4;
                        F::Padding(if rng.bool() { vec![0; n] } else { fresh(rng, n) })
                    }
                    _ => {
                        let n = rng.usize(1, 120);
                        F::Unknown(unknown_type(rng), fresh(rng, n))
                    }
                });
            }
        }
        Flavor::V4Nts | Flavor::V5Nts => {
            let session = gen_session(rng);
            let rot = keys.rotations();
            // pick the snapshot the cookie was issued under
            let (snap, cookie_current) = match plan {
                NtsPlan::ExpiredCookie => {
                    if rot <= keys.history {
                        return Err("no expired key available".into());
                    }
                    (rng.usize(0, rot - keys.history - 1), false)
                }
                _ => (rot - rng.usize(0, keys.history.min(rot)), true),
            };
            let cookie = match plan {
                NtsPlan::GarbageCookie => fresh(rng, if session.alg == 15 { 104 } else { 168 }),
                NtsPlan::ForeignCookie => make_cookie(keys, snap, &gen_session(rng))?,
                _ => make_cookie(keys, snap, &session)?,
            };
            let clen = cookie.len();
            let mut auth_fields = vec![F::Uid(uid_value(rng, true)), F::Cookie(cookie)];
            let mut enc_fields: Vec<F> = vec![];
            let n_ph = *rng.pick(&[0usize, 0, 1, 2, 3, 7, 7, 9, 11]);
            for _ in 0..n_ph {
                // RFC 8915: placeholders have the cookie's length; longer ones are harmless
                // (shorter ones simply cannot be filled; the answer must then do without that cookie)
                let n = if rng.chance(1, 6) {
                    clen + rng.usize(1, 16) * 4
                } else if rng.chance(1, 6) {
                    rng.usize(3, (clen / 4).max(4)) * 4
                } else {
                    clen
                };
                if rng.chance(1, 8) {
                    enc_fields.push(F::Placeholder(n));
                } else {
                    auth_fields.push(F::Placeholder(n));
                }
            }
            for _ in 0..*rng.pick(&[0usize, 0, 0, 1, 2]) {
                let n = rng.usize(3, 30) * 4;
                let f = F::Unknown(unknown_type(rng), fresh(rng, n));
                let at = rng.usize(1, auth_fields.len());
                auth_fields.insert(at, f);
            }
            if rng.chance(1, 4) {
                let n = rng.usize(1, 20) * 4;
                enc_fields.push(F::Unknown(unknown_type(rng), fresh(rng, n)));
            }
            if rng.chance(1, 8) {
                enc_fields.push(F::Uid(uid_value(rng, true)));
            }
            if rng.chance(1, 6) {
                // extra cookie fields inside the encrypted part (RFC 8915 lets encrypted fields be short)
                for _ in 0..rng.usize(1, 3) {
                    let n = rng.usize(3, 26) * 4;
                    enc_fields.push(F::Cookie(fresh(rng, n)));
                }
            }
            if v5 {
                let at = rng.usize(0, auth_fields.len());
                auth_fields.insert(at, F::DraftId);
                if rng.chance(1, 4) {
                    let at = rng.usize(0, auth_fields.len());
                    auth_fields.insert(at, F::RefIdReq((rng.below(120) * 4) as u16, rng.usize(1, 16) * 4));
                }
            }
            let key = match plan {
                NtsPlan::WrongKey => fresh(rng, session.c2s.len()),
                _ => session.c2s.clone(),
            };
            fields = auth_fields;
            fields.push(F::Auth(AuthSpec {
                alg: session.alg,
                key,
                nonce: rng.bytes(16),
                enc: enc_fields,
                extra_pad: if rng.chance(1, 6) { rng.usize(1, 8) * 4 } else { 0 },
            }));
            // unauthenticated fields after the authenticator
            if rng.chance(1, 5) {
                let n = rng.usize(6, 30) * 4;
                fields.push(if rng.bool() { F::Unknown(unknown_type(rng), fresh(rng, n)) } else { F::Uid(fresh(rng, n)) });
            }
            nts = Some(NtsTruth {
                session,
                cookie_age: rot - snap,
                cookie_current,
                auth_ok: Some(matches!(plan, NtsPlan::Good)),
            });
        }
    }
    let built = build(&header, &fields, &mac, true)?;
    Ok(Req {
        truth: Truth {
            class: flavor.name().to_string(),
            valid: true,
            version,
            mode: 3,
            nts,
            upgrade: flavor == Flavor::V4Upgrade,
            enc_plain: built.enc_plain.clone(),
            shape: shape_of(version, &fields, mac.len()),
        },
        bytes: built.bytes,
    })
}

/// Requests the server's parser accepts although they bend the RFC size rules: short fields
/// (down to 4 octets), odd nonce lengths, short/odd unique ids, v5 odd lengths, placeholders
/// shorter than a cookie, several unique ids, crypto-NAK sized MACs. Still mode 3 and
/// structurally sound; `valid` is false (the policy oracle does not demand an answer).
pub fn gen_lenient(rng: &mut Rng, flavor: Flavor, keys: &KeyWorld) -> Result<Req, String> {
    let version = flavor.version();
    let v5 = version == 5;
    let mut header = plain_header(rng, version);
    let mut fields: Vec<F> = Vec::new();
    let mut mac = Vec::new();
    let mut nts = None;
    let val = |rng: &mut Rng| -> usize {
        if v5 { rng.usize(0, 48) } else { rng.usize(0, 12) * 4 }
    };
    match flavor {
        Flavor::V3 => {
            let n = rng.usize(1, 24);
            mac = fresh(rng, n);
        }
        Flavor::V4Plain | Flavor::V4Upgrade | Flavor::V5Plain => {
            if flavor == Flavor::V4Upgrade {
                header.reference_ts = UPGRADE_MARKER;
            }
            let n = rng.usize(0, 10);
            for _ in 0..n {
                let l = val(rng);
                fields.push(match rng.below(8) {
                    0 | 1 | 2 => F::Uid(fresh(rng, l)),
                    3 => F::Placeholder(l),
                    4 => F::Cookie(fresh(rng, l)),
                    5 if v5 => F::RefIdReq(rng.u16(), l.max(2)),
                    6 if v5 => F::Padding(fresh(rng, l)),
                    _ => F::Unknown(unknown_type(rng), fresh(rng, l)),
                });
            }
            if v5 {
                let at = rng.usize(0, fields.len());
                fields.insert(at, F::DraftId);
            } else if rng.bool() {
                let n = *rng.pick(&[4usize, 8, 12, 16, 20, 24]);
                mac = fresh(rng, n);
            }
        }
        Flavor::V4Nts | Flavor::V5Nts => {
            let session = gen_session(rng);
            let rot = keys.rotations();
            let snap = rot - rng.usize(0, keys.history.min(rot));
            let cookie = make_cookie(keys, snap, &session)?;
            let mut auth_fields = vec![];
            for _ in 0..rng.usize(0, 3) {
                let l = val(rng);
                auth_fields.push(F::Uid(fresh(rng, l)));
            }
            auth_fields.push(F::Cookie(cookie));
            let mut enc_fields = vec![];
            for _ in 0..rng.usize(0, 12) {
                let l = match rng.below(4) {
                    0 => val(rng),
                    1 => 100,
                    2 => 104,
                    _ => 168 + rng.usize(0, 3) * 4,
                };
                let f = match rng.below(6) {
                    0 => F::Unknown(unknown_type(rng), fresh(rng, l)),
                    1 => F::Uid(fresh(rng, l)),
                    _ => F::Placeholder(l),
                };
                if rng.chance(1, 3) { enc_fields.push(f) } else { auth_fields.push(f) }
            }
            rng.shuffle(&mut auth_fields);
            if v5 {
                let at = rng.usize(0, auth_fields.len());
                auth_fields.insert(at, F::DraftId);
            }
            fields = auth_fields;
            let nonce_len = *rng.pick(&[16usize, 16, 0, 1, 8, 12, 15, 17, 24, 32, 64]);
            fields.push(F::Auth(AuthSpec {
                alg: session.alg,
                key: session.c2s.clone(),
                nonce: rng.bytes(nonce_len),
                enc: enc_fields,
                extra_pad: if rng.chance(1, 4) { rng.usize(0, 16) * 4 } else { 0 },
            }));
            for _ in 0..rng.usize(0, 2) {
                let l = val(rng);
                fields.push(if rng.bool() { F::Uid(fresh(rng, l)) } else { F::Unknown(unknown_type(rng), fresh(rng, l)) });
            }
            if !v5 && rng.chance(1, 4) {
                let n = *rng.pick(&[4usize, 20, 24]);
                mac = fresh(rng, n);
            }
            nts = Some(NtsTruth { session, cookie_age: rot - snap, cookie_current: true, auth_ok: None });
        }
    }
    let built = build(&header, &fields, &mac, false)?;
    Ok(Req {
        truth: Truth {
            class: format!("lenient/{}", flavor.name()),
            valid: false,
            version,
            mode: 3,
            nts,
            upgrade: flavor == Flavor::V4Upgrade,
            enc_plain: built.enc_plain.clone(),
            shape: shape_of(version, &fields, mac.len()) ^ 0x1e,
        },
        bytes: built.bytes,
    })
}

/// Field header offsets of a datagram according to the reference parser.
fn field_offsets(d: &[u8]) -> Vec<usize> {
    refntp::parse(d).map(|p| p.fields.iter().map(|f| f.offset).collect()).unwrap_or_default()
}

/// Hostile byte-level mutation of a request. The result's truth keeps the session keys (so
/// replies can still be opened) but claims nothing about validity or authenticity.
pub fn mutate(rng: &mut Rng, base: &Req) -> Req {
    let mut b = base.bytes.clone();
    let offs = field_offsets(&b);
    let kind = rng.below(16);
    let name = match kind {
        0 => {
            for _ in 0..rng.usize(1, 8) {
                if !b.is_empty() {
                    let i = rng.usize(0, b.len() - 1);
                    b[i] ^= 1 << rng.below(8);
                }
            }
            "bitflip"
        }
        1 => {
            // flip inside the extension area only
            if b.len() > 48 {
                for _ in 0..rng.usize(1, 4) {
                    let i = rng.usize(48, b.len() - 1);
                    b[i] ^= 1 << rng.below(8);
                }
            }
            "bitflip-ext"
        }
        2 => {
            let n = rng.usize(0, b.len());
            b.truncate(n);
            "truncate"
        }
        3 => {
            // truncate at / around a field boundary
            if let Some(&o) = offs.get(rng.usize(0, offs.len().max(1) - 1)) {
                let n = (o as i64 + rng.range(-4, 8)).clamp(0, b.len() as i64) as usize;
                b.truncate(n);
            }
            "truncate-field"
        }
        4 => {
            // length-field lie
            if !offs.is_empty() {
                let o = *rng.pick(&offs);
                let cur = u16::from_be_bytes([b[o + 2], b[o + 3]]);
                let lie: u16 = match rng.below(8) {
                    0 => 0,
                    1 => 3,
                    2 => 4,
                    3 => cur.wrapping_add(4),
                    4 => cur.wrapping_sub(4),
                    5 => cur.wrapping_add(rng.range(-3, 3) as u16),
                    6 => 0xffff,
                    _ => (b.len() - o) as u16,
                };
                b[o + 2..o + 4].copy_from_slice(&lie.to_be_bytes());
            }
            "length-lie"
        }
        5 => {
            // lie inside the NTS authenticator (nonce / ciphertext lengths)
            if let Some(p) = refntp::parse(&b) {
                if let Some(f) = p.fields.iter().find(|f| f.type_id == EF_NTS_AUTH) {
                    let o = f.offset + 4 + 2 * rng.usize(0, 1);
                    if o + 2 <= b.len() {
                        let cur = u16::from_be_bytes([b[o], b[o + 1]]);
                        let lie = match rng.below(5) {
                            0 => 0,
                            1 => cur.wrapping_add(1),
                            2 => cur.wrapping_sub(1),
                            3 => 0xffff,
                            _ => cur.wrapping_add(4),
                        };
                        b[o..o + 2].copy_from_slice(&lie.to_be_bytes());
                    }
                }
            }
            "auth-length-lie"
        }
        6 => {
            // reorder two top-level fields (raw bytes; an authenticator no longer covers the same data)
            if let Some(p) = refntp::parse(&b) {
                if p.fields.len() >= 2 {
                    let i = rng.usize(0, p.fields.len() - 2);
                    let (a, c) = (&p.fields[i], &p.fields[i + 1]);
                    let end = if i + 2 < p.fields.len() { p.fields[i + 2].offset } else { b.len() - p.trailer.len() };
                    let fa = b[a.offset..c.offset].to_vec();
                    let fc = b[c.offset..end].to_vec();
                    let mut nb = b[..a.offset].to_vec();
                    nb.extend_from_slice(&fc);
                    nb.extend_from_slice(&fa);
                    nb.extend_from_slice(&b[end..]);
                    b = nb;
                }
            }
            "reorder"
        }
        7 => {
            // duplicate a field
            if let Some(p) = refntp::parse(&b) {
                if !p.fields.is_empty() {
                    let i = rng.usize(0, p.fields.len() - 1);
                    let end = if i + 1 < p.fields.len() { p.fields[i + 1].offset } else { b.len() - p.trailer.len() };
                    let f = b[p.fields[i].offset..end].to_vec();
                    let at = p.fields[rng.usize(0, p.fields.len() - 1)].offset;
                    let mut nb = b[..at].to_vec();
                    nb.extend_from_slice(&f);
                    nb.extend_from_slice(&b[at..]);
                    b = nb;
                }
            }
            "duplicate-field"
        }
        8 => {
            let n = rng.usize(1, 64);
            b.extend_from_slice(&rng.bytes(n));
            "append"
        }
        9 => {
            if !b.is_empty() {
                b[0] = (b[0] & !0x38) | ((rng.below(8) as u8) << 3);
            }
            "version"
        }
        10 => {
            if !b.is_empty() {
                b[0] = (b[0] & !0x07) | (rng.below(8) as u8);
            }
            "mode"
        }
        11 => {
            // change a field type
            if !offs.is_empty() {
                let o = *rng.pick(&offs);
                let t = *rng.pick(&[EF_UNIQUE_ID, EF_NTS_COOKIE, EF_NTS_PLACEHOLDER, EF_NTS_AUTH, EF_V5_DRAFT_ID, EF_V5_PADDING, EF_V5_REFID_REQ, EF_V5_REFID_RESP, 0x0000, 0xffff]);
                b[o..o + 2].copy_from_slice(&t.to_be_bytes());
            }
            "retype"
        }
        12 => {
            // overwrite a random window with random bytes
            if !b.is_empty() {
                let i = rng.usize(0, b.len() - 1);
                let n = rng.usize(1, 16).min(b.len() - i);
                let r = rng.bytes(n);
                b[i..i + n].copy_from_slice(&r);
            }
            "overwrite"
        }
        13 | 14 => {
            // resize the body of one field in place (prefix kept, length field and everything after it consistent):
            // cookies / unique ids / authenticators of every shorter length, with the rest of the packet intact
            if let Some(p) = refntp::parse(&b) {
                if !p.fields.is_empty() {
                    // prefer the NTS cookie (key id prefix stays valid), otherwise any field
                    let pick = if kind == 13 { p.fields.iter().position(|f| f.type_id == EF_NTS_COOKIE) } else { None }
                        .unwrap_or_else(|| rng.usize(0, p.fields.len() - 1));
                    let f = &p.fields[pick];
                    let end = if pick + 1 < p.fields.len() { p.fields[pick + 1].offset } else { b.len() - p.trailer.len() };
                    let v5 = (b[0] >> 3) & 7 == 5;
                    let new_len = match rng.below(4) {
                        0 => rng.usize(0, 40),
                        1 => rng.usize(0, f.value.len()),
                        2 => *rng.pick(&[0usize, 1, 2, 3, 4, 5, 6, 8, 16, 18, 19, 20, 21, 22, 23, 24, 28, 32]),
                        _ => f.value.len() + rng.usize(1, 12),
                    };
                    let new_len = if v5 { new_len } else { new_len & !3 };
                    let mut body: Vec<u8> = f.value.iter().copied().take(new_len).collect();
                    while body.len() < new_len {
                        body.push(0);
                    }
                    let enc = refntp::encode_field(f.type_id, &body, v5, None);
                    let mut nb = b[..f.offset].to_vec();
                    nb.extend_from_slice(&enc);
                    nb.extend_from_slice(&b[end..]);
                    b = nb;
                }
            }
            if kind == 13 { "resize-cookie" } else { "resize-field" }
        }
        _ => {
            // pad to a length near the receive limit
            let target = rng.usize(1000, 1024);
            while b.len() < target {
                b.push(if rng.bool() { 0 } else { rng.u8() });
            }
            "grow"
        }
    };
    let mut t = base.truth.clone();
    t.class = format!("mut/{name}/{}", base.truth.class);
    t.valid = false;
    t.version = b.first().map(|x| (x >> 3) & 7).unwrap_or(0);
    t.mode = b.first().map(|x| x & 7).unwrap_or(0);
    t.upgrade = false;
    if let Some(n) = t.nts.as_mut() {
        n.auth_ok = None;
    }
    t.shape = crate::core::hash_of(&(base.truth.shape, kind));
    Req { bytes: b, truth: t }
}

pub fn gen_raw(rng: &mut Rng) -> Req {
    let n = match rng.below(8) {
        0 => rng.usize(0, 47),
        1 => 48,
        2 => rng.usize(49, 120),
        3 => 1024,
        _ => rng.usize(0, 1024),
    };
    let mut b = rng.bytes(n);
    if !b.is_empty() && rng.chance(3, 4) {
        // plausible first byte so that the parsers get past the version/mode gate
        b[0] = (rng.below(4) as u8) << 6 | (*rng.pick(&[3u8, 4, 5])) << 3 | 3;
    }
    if n >= 16 && b[0] >> 3 & 7 == 5 && rng.chance(3, 4) {
        b[12] = rng.below(4) as u8;
        b[14] = 0;
        b[15] &= 7;
    }
    if rng.chance(1, 3) {
        // sprinkle TLV-looking headers
        let mut o = 48;
        while o + 4 <= b.len() {
            let t = *rng.pick(&[EF_UNIQUE_ID, EF_NTS_COOKIE, EF_NTS_PLACEHOLDER, EF_NTS_AUTH, EF_V5_DRAFT_ID, EF_V5_PADDING, EF_V5_REFID_REQ, 0x1234]);
            let l = (rng.usize(1, 40) * 4).min(b.len() - o);
            b[o..o + 2].copy_from_slice(&t.to_be_bytes());
            b[o + 2..o + 4].copy_from_slice(&(l as u16).to_be_bytes());
            o += l.max(4);
        }
    }
    let version = b.first().map(|x| (x >> 3) & 7).unwrap_or(0);
    let mode = b.first().map(|x| x & 7).unwrap_or(0);
    Req {
        truth: Truth { class: "raw".into(), valid: false, version, mode, nts: None, upgrade: false, enc_plain: None, shape: crate::core::hash_of(&(n / 16, version, mode)) },
        bytes: b,
    }
}

/// The mixed stream used by the size/crash/statistics monitors.
pub fn gen_any(rng: &mut Rng, keys: &KeyWorld) -> Result<Req, String> {
    let flavor = *rng.pick(&FLAVORS);
    Ok(match rng.below(10) {
        0 | 1 | 2 => gen_valid(rng, flavor, keys, NtsPlan::Good)?,
        3 => {
            let plan = *rng.pick(&[NtsPlan::ExpiredCookie, NtsPlan::WrongKey, NtsPlan::GarbageCookie, NtsPlan::ForeignCookie]);
            match gen_valid(rng, flavor, keys, plan) {
                Ok(r) => r,
                Err(_) => gen_valid(rng, flavor, keys, NtsPlan::WrongKey)?,
            }
        }
        4 | 5 => gen_lenient(rng, flavor, keys)?,
        6 | 7 | 8 => {
            let base = if rng.bool() { gen_valid(rng, flavor, keys, NtsPlan::Good)? } else { gen_lenient(rng, flavor, keys)? };
            let mut m = mutate(rng, &base);
            if rng.chance(1, 5) {
                m = mutate(rng, &m);
            }
            m
        }
        _ => gen_raw(rng),
    })
}

// ------------------------------------------------------------------------------------------
// reference-side reading of replies
// ------------------------------------------------------------------------------------------

#[derive(Clone, Copy, Debug, PartialEq, Eq, Hash)]
pub enum ReplyKind {
    Time,
    Deny,
    Rate,
    Nak,
    /// stratum 0 with a code the server is not supposed to produce
    OtherKiss,
}

pub fn classify(h: &RefHeader) -> ReplyKind {
    if h.stratum != 0 {
        return ReplyKind::Time;
    }
    if h.version == 5 {
        if h.flags & 4 != 0 {
            ReplyKind::Nak
        } else if h.poll == 0x7f {
            ReplyKind::Deny
        } else {
            ReplyKind::Rate
        }
    } else {
        match &h.reference_id {
            b"DENY" => ReplyKind::Deny,
            b"RATE" => ReplyKind::Rate,
            b"NTSN" => ReplyKind::Nak,
            _ => ReplyKind::OtherKiss,
        }
    }
}

/// TLV walk over a bare byte string (decrypted NTS payload): no MAC cutoff.
pub fn walk_fields(d: &[u8], v5: bool) -> (Vec<RefField>, usize) {
    let mut out = Vec::new();
    let mut off = 0;
    while d.len() - off >= 4 {
        let ty = u16::from_be_bytes([d[off], d[off + 1]]);
        let len = u16::from_be_bytes([d[off + 2], d[off + 3]]) as usize;
        if len < 4 || pad4(len) > d.len() - off {
            break;
        }
        out.push(RefField { type_id: ty, length: len as u16, offset: off, value: d[off + 4..off + len].to_vec() });
        off += pad4(len);
    }
    (out, off)
}

#[derive(Clone, Debug)]
pub struct Opened {
    pub plaintext: Vec<u8>,
    pub fields: Vec<RefField>,
    /// bytes of the plaintext that are not complete fields
    pub leftover: usize,
    pub nonce_len: usize,
}

#[derive(Clone, Debug)]
pub enum OpenResult {
    /// the datagram has no NTS authenticator field
    NoAuthField,
    Opened(Opened),
    /// there is an authenticator field but it does not open under the given key
    Failed(String),
}

/// Locates the NTS authenticator of a datagram (reference parse) and opens it with `key`:
/// associated data = everything before the field.
pub fn open_nts(d: &[u8], pkt: &RefPacket, alg: u16, key: &[u8]) -> OpenResult {
    let Some(f) = pkt.fields.iter().find(|f| f.type_id == EF_NTS_AUTH) else {
        return OpenResult::NoAuthField;
    };
    let v = &f.value;
    if v.len() < 4 {
        return OpenResult::Failed("authenticator shorter than its length words".into());
    }
    let nl = u16::from_be_bytes([v[0], v[1]]) as usize;
    let cl = u16::from_be_bytes([v[2], v[3]]) as usize;
    let cs = 4 + pad4(nl);
    if 4 + nl > v.len() || cs + cl > v.len() {
        return OpenResult::Failed("nonce/ciphertext lengths exceed the field".into());
    }
    match hsrv::siv_decrypt(alg, key, &v[4..4 + nl], &d[..f.offset], &v[cs..cs + cl]) {
        Some(p) => {
            let (fields, used) = walk_fields(&p, pkt.header.version == 5);
            OpenResult::Opened(Opened { leftover: p.len() - used, plaintext: p, fields, nonce_len: nl })
        }
        None => OpenResult::Failed("AES-SIV authentication failed".into()),
    }
}

/// What the monitor itself can say about the NTS status of an arbitrary datagram: it finds the
/// cookie and the authenticator with the reference parser, asks the server's key set what the
/// cookie holds and verifies the authenticator with AES-SIV from the dependency.
#[derive(Clone, Debug)]
pub enum NtsStatus {
    /// no authenticator field at top level (or not even a header): a plain request
    Plain,
    /// one authenticator, exactly one cookie before it, cookie valid, authenticator verifies
    Authentic { session: Session, plaintext: Vec<u8> },
    /// one authenticator that cannot be verified (no/garbage/expired cookie, several cookies, bad tag)
    Failing,
    /// layouts the monitor does not want to reason about (several authenticators)
    Unclear,
}

pub fn nts_status(d: &[u8], keyset: &KeySet) -> NtsStatus {
    let Some(p) = refntp::parse(d) else { return NtsStatus::Plain };
    if p.header.version == 3 {
        return NtsStatus::Plain;
    }
    let auths: Vec<usize> = p.fields.iter().enumerate().filter(|(_, f)| f.type_id == EF_NTS_AUTH).map(|(i, _)| i).collect();
    match auths.len() {
        0 => NtsStatus::Plain,
        1 => {
            let cookies: Vec<&RefField> = p.fields[..auths[0]].iter().filter(|f| f.type_id == EF_NTS_COOKIE).collect();
            if cookies.len() != 1 {
                return NtsStatus::Failing;
            }
            let Some((alg, s2c, c2s)) = hsrv::decode_cookie(keyset, &cookies[0].value) else {
                return NtsStatus::Failing;
            };
            match open_nts(d, &p, alg, &c2s) {
                OpenResult::Opened(o) => NtsStatus::Authentic { session: Session { alg, c2s, s2c }, plaintext: o.plaintext },
                _ => NtsStatus::Failing,
            }
        }
        _ => NtsStatus::Unclear,
    }
}

// ------------------------------------------------------------------------------------------
// reflection (taint) scanner
// ------------------------------------------------------------------------------------------

/// Byte ranges of a request that a server may echo: transmit timestamp / client cookie, unique
/// identifier values, the draft identification, the v4->v5 upgrade marker (documented
/// exception), and the first 4 header bytes + field headers (framing, not content).
/// Everything else is non-echoable content.
pub fn nonechoable_ranges(d: &[u8]) -> Vec<(usize, usize, &'static str)> {
    let mut out = Vec::new();
    let Some(p) = refntp::parse(d) else {
        if d.len() >= 8 {
            out.push((0, d.len(), "short datagram"));
        }
        return out;
    };
    if p.header.version == 5 {
        out.push((4, 12, "root delay/dispersion"));
        out.push((16, 24, "server cookie"));
        out.push((32, 48, "receive/transmit timestamps"));
    } else {
        out.push((4, 16, "root delay/dispersion/reference id"));
        if p.header.reference_ts != UPGRADE_MARKER {
            out.push((12, 24, "reference id/timestamp"));
        }
        out.push((24, 40, "origin/receive timestamps"));
    }
    if p.header.version == 3 {
        if d.len() > 48 {
            out.push((48, d.len(), "v3 trailer"));
        }
        return out;
    }
    for f in &p.fields {
        let (s, e) = (f.offset + 4, f.offset + 4 + f.value.len());
        match f.type_id {
            EF_UNIQUE_ID | EF_V5_DRAFT_ID => {}
            // key id + ciphertext length lead every cookie of the same key set: not content
            EF_NTS_COOKIE => out.push(((s + 6).min(e), e, "cookie")),
            EF_NTS_AUTH => out.push((s, e, "authenticator")),
            EF_NTS_PLACEHOLDER => out.push((s, e, "placeholder")),
            EF_V5_PADDING => out.push((s, e, "padding")),
            EF_V5_REFID_REQ => out.push((s, e, "reference-id request")),
            _ => out.push((s, e, "unknown field")),
        }
    }
    if !p.trailer.is_empty() {
        out.push((d.len() - p.trailer.len(), d.len(), "trailer/MAC"));
    }
    out
}

fn informative(w: &[u8]) -> bool {
    // at least 6 distinct byte values among 8: excludes zero padding, counters, ASCII runs
    let mut seen = [false; 256];
    let mut n = 0;
    for b in w {
        if !seen[*b as usize] {
            seen[*b as usize] = true;
            n += 1;
        }
    }
    n >= 6
}

/// Does any informative 8-byte window of `source[range]` occur in one of the `haystacks`?
/// Returns (offset in source, region label, which haystack).
pub fn find_reflection(source: &[u8], ranges: &[(usize, usize, &'static str)], haystacks: &[&[u8]]) -> Option<(usize, &'static str, usize)> {
    find_reflection_excluding(source, ranges, haystacks, &[])
}

/// Byte strings of a request that may legitimately come back: whole unique-identifier fields
/// (header and value), the echoed timestamp / client cookie, the draft identification string.
/// A window of a non-echoable region that *also* occurs in one of these (duplicated fields,
/// retyped draft ids) proves nothing and is skipped by the scanner.
pub fn echoable_material(d: &[u8]) -> Vec<Vec<u8>> {
    // the draft identification as a whole field (header, string, zero padding) in both framings
    let draft = hpkt::draft_version().as_bytes();
    let mut out = vec![refntp::encode_field(EF_V5_DRAFT_ID, draft, true, None), refntp::encode_field(EF_V5_DRAFT_ID, draft, false, None)];
    for o in out.iter_mut() {
        o.extend_from_slice(&[0; 8]);
    }
    if let Some(p) = refntp::parse(d) {
        if p.header.version == 5 {
            out.push(d[24..32].to_vec());
        } else {
            out.push(d[40..48].to_vec());
        }
        if p.header.version != 3 {
            for f in p.fields.iter().filter(|f| f.type_id == EF_UNIQUE_ID) {
                out.push(d[f.offset..f.offset + 4 + f.value.len()].to_vec());
            }
        }
    }
    out
}

/// Marks the parts of a reply (or of its decrypted payload, `header = false`) whose content is
/// accounted for by the field-by-field oracle: the echoed origin / client cookie, whole
/// unique-identifier fields (header, value, padding), the draft identification and padding
/// fields. A window lying entirely inside such parts cannot reveal non-echoable content.
pub fn explained_mask(d: &[u8], fields: &[RefField], header: bool) -> Vec<bool> {
    let mut m = vec![false; d.len()];
    if header && d.len() >= 32 {
        for b in &mut m[24..32] {
            *b = true;
        }
    }
    for (i, f) in fields.iter().enumerate() {
        if matches!(f.type_id, EF_UNIQUE_ID | EF_V5_DRAFT_ID | EF_V5_PADDING) {
            let end = fields.get(i + 1).map(|n| n.offset).unwrap_or_else(|| (f.offset + pad4(4 + f.value.len())).min(d.len()));
            for b in &mut m[f.offset.min(d.len())..end.min(d.len())] {
                *b = true;
            }
        } else {
            // the 4-byte field header is framing
            for b in &mut m[f.offset.min(d.len())..(f.offset + 4).min(d.len())] {
                *b = true;
            }
        }
    }
    m
}

pub fn find_reflection_excluding(source: &[u8], ranges: &[(usize, usize, &'static str)], haystacks: &[&[u8]], exclude: &[Vec<u8>]) -> Option<(usize, &'static str, usize)> {
    find_reflection_masked(source, ranges, haystacks, &[], exclude)
}

pub fn find_reflection_masked(source: &[u8], ranges: &[(usize, usize, &'static str)], haystacks: &[&[u8]], masks: &[Vec<bool>], exclude: &[Vec<u8>]) -> Option<(usize, &'static str, usize)> {
    let mut skip = std::collections::HashSet::new();
    for x in exclude {
        if x.len() >= 8 {
            for i in 0..=x.len() - 8 {
                skip.insert(u64::from_be_bytes(x[i..i + 8].try_into().unwrap()));
            }
        }
    }
    let mut set = std::collections::HashMap::new();
    for (k, h) in haystacks.iter().enumerate() {
        if h.len() >= 8 {
            for i in 0..=h.len() - 8 {
                if let Some(m) = masks.get(k) {
                    if m.len() == h.len() && m[i..i + 8].iter().all(|b| *b) {
                        continue;
                    }
                }
                set.entry(u64::from_be_bytes(h[i..i + 8].try_into().unwrap())).or_insert(k);
            }
        }
    }
    if set.is_empty() {
        return None;
    }
    for (s, e, label) in ranges {
        let e = (*e).min(source.len());
        if e < s + 8 {
            continue;
        }
        for i in *s..=e - 8 {
            let w = &source[i..i + 8];
            let key = u64::from_be_bytes(w.try_into().unwrap());
            if let Some(k) = set.get(&key) {
                if informative(w) && !skip.contains(&key) {
                    return Some((i, label, *k));
                }
            }
        }
    }
    None
}

// ------------------------------------------------------------------------------------------
// end to end: the real daemon `ServerTask` on a loopback UDP socket
// ------------------------------------------------------------------------------------------

pub struct E2e {
    rt: tokio::runtime::Runtime,
    pub addr: std::net::SocketAddr,
    pub stats: ntpd::verif::m::server::ServerStats,
    sock: std::net::UdpSocket,
    task: tokio::task::JoinHandle<()>,
    _keys_tx: tokio::sync::watch::Sender<Arc<KeySet>>,
    sentinel_ctr: u64,
    /// datagrams sent so far (test datagrams + sentinels), for the counter oracle
    pub sent: u64,
}

const SENTINEL_TAG: u64 = 0x5e4e_7100_0000_0000;

impl E2e {
    /// Starts the real `ServerTask` for this configuration on 127.0.0.1. The configuration must
    /// answer a plain 48-byte NTPv4 request from 127.0.0.1 with *something* (time or DENY): that
    /// request is used as an ordering sentinel so that no verdict ever depends on a timeout.
    pub fn start(cfg: &CfgSpec, info: NtpServerInfo, keyset: Arc<KeySet>, now: u64, port_seed: u64) -> Result<E2e, String> {
        use ntpd::verif::m::{config::ServerConfig as DaemonCfg, server::{ServerStats, ServerTask}};
        let rt = tokio::runtime::Builder::new_multi_thread().worker_threads(1).enable_all().build().map_err(|e| e.to_string())?;
        let real = cfg.to_config()?;
        for attempt in 0..30u64 {
            let port = 20000 + ((port_seed.wrapping_add(attempt.wrapping_mul(7919))) % 12000) as u16; // below the ephemeral range
            let listen = std::net::SocketAddr::new(IpAddr::V4(Ipv4Addr::LOCALHOST), port);
            match std::net::UdpSocket::bind(listen) {
                Ok(s) => drop(s),
                Err(_) => continue,
            }
            let dcfg = DaemonCfg {
                listen,
                denylist: real.denylist.clone(),
                allowlist: real.allowlist.clone(),
                rate_limiting_cache_size: real.rate_limiting_cache_size,
                rate_limiting_cutoff: real.rate_limiting_cutoff,
                require_nts: real.require_nts,
                accept_ntp_versions: real.accepted_versions.clone(),
            };
            let clock = SimClock(Arc::new(AtomicU64::new(now)));
            let (server, _) = build_server(cfg, info, keyset.clone(), clock)?;
            let stats = ServerStats::default();
            let (tx, rx) = tokio::sync::watch::channel(keyset.clone());
            let task = {
                let _g = rt.enter();
                ServerTask::spawn(server, dcfg, stats.clone(), rx, Duration::from_millis(20))
            };
            let sock = std::net::UdpSocket::bind("127.0.0.1:0").map_err(|e| e.to_string())?;
            sock.set_read_timeout(Some(Duration::from_millis(40))).map_err(|e| e.to_string())?;
            let mut e = E2e { rt, addr: listen, stats, sock, task, _keys_tx: tx, sentinel_ctr: 0, sent: 0 };
            // wait for the socket to be open: sentinels until one is answered
            let mut up = false;
            for _ in 0..200 {
                let tag = match e.send_sentinel() {
                    Ok(t) => t,
                    Err(_) => {
                        std::thread::sleep(Duration::from_millis(10));
                        continue;
                    }
                };
                let mut buf = [0u8; 2048];
                match e.sock.recv_from(&mut buf) {
                    Ok((n, _)) if n >= 32 && buf[24..32] == tag.to_be_bytes() => {
                        up = true;
                        break;
                    }
                    Ok(_) => {}
                    // ICMP port unreachable while the task has not opened its socket yet
                    Err(_) => std::thread::sleep(Duration::from_millis(10)),
                }
            }
            if up {
                // drain late answers to earlier sentinels
                e.sock.set_read_timeout(Some(Duration::from_millis(30))).ok();
                let mut buf = [0u8; 2048];
                while e.sock.recv_from(&mut buf).is_ok() {}
                e.sock.set_read_timeout(Some(Duration::from_secs(3))).ok();
                return Ok(e);
            }
            // could not get it up on this port (taken in the meantime?): try the next one
            e.task.abort();
            return Err("server task did not answer the sentinel (configuration must answer a plain v4 request from 127.0.0.1)".into());
        }
        Err("no free UDP port found".into())
    }

    fn send_sentinel(&mut self) -> Result<u64, String> {
        self.sentinel_ctr += 1;
        let tag = SENTINEL_TAG | self.sentinel_ctr;
        let d = RefHeader::request(4, 6, tag).encode();
        self.sock.send_to(&d, self.addr).map_err(|e| e.to_string())?;
        self.sent += 1;
        Ok(tag)
    }

    /// Sends one datagram followed by a sentinel and returns every datagram that came back
    /// before the sentinel's answer (the server task handles its socket in order).
    /// Returns (answers to the datagram, the sentinel's answer).
    pub fn exchange(&mut self, d: &[u8]) -> Result<(Vec<Vec<u8>>, Vec<u8>), String> {
        self.sock.send_to(d, self.addr).map_err(|e| format!("send: {e}"))?;
        self.sent += 1;
        let tag = self.send_sentinel()?;
        let mut got = Vec::new();
        let mut buf = [0u8; 4096];
        loop {
            match self.sock.recv_from(&mut buf) {
                Ok((n, from)) => {
                    if from != self.addr {
                        continue;
                    }
                    if n >= 32 && buf[24..32] == tag.to_be_bytes() && !(d.len() >= 48 && d[40..48] == tag.to_be_bytes()) {
                        return Ok((got, buf[..n].to_vec()));
                    }
                    got.push(buf[..n].to_vec());
                }
                Err(e) => return Err(format!("no sentinel answer within 3 s: {e}")),
            }
        }
    }

    pub fn counters(&self) -> [u64; 11] {
        ntpd::verif::srvx::stats_vector(&self.stats)
    }
}

impl Drop for E2e {
    fn drop(&mut self) {
        self.task.abort();
    }
}

/// A client address that (by the monitor's own matcher) passes both lists, if one is found.
pub fn gen_client_passing(rng: &mut Rng, cfg: &CfgSpec) -> Option<IpAddr> {
    for _ in 0..24 {
        let ip = gen_client(rng, cfg);
        if list_verdict(&cfg.deny, ip) == ListVerdict::Out && list_verdict(&cfg.allow, ip) == ListVerdict::In {
            return Some(ip);
        }
    }
    None
}

/// Variants of a valid request that are *certainly* not to be answered: wrong mode, a version
/// that does not exist, or cut below the 48-byte header.
pub fn spoil(rng: &mut Rng, base: &Req) -> Req {
    let mut r = base.clone();
    r.truth.valid = false;
    if let Some(n) = r.truth.nts.as_mut() {
        n.auth_ok = None;
    }
    match rng.below(3) {
        0 => {
            let m = *rng.pick(&[0u8, 1, 2, 4, 5, 6, 7]);
            r.bytes[0] = (r.bytes[0] & !7) | m;
            r.truth.mode = m;
            r.truth.class = format!("spoil/mode/{}", base.truth.class);
        }
        1 => {
            let v = *rng.pick(&[0u8, 1, 2, 6, 7]);
            r.bytes[0] = (r.bytes[0] & !0x38) | (v << 3);
            r.truth.version = v;
            r.truth.class = format!("spoil/version/{}", base.truth.class);
        }
        _ => {
            let n = rng.usize(0, 47);
            r.bytes.truncate(n);
            r.truth.class = format!("spoil/short/{}", base.truth.class);
        }
    }
    r.truth.shape ^= 0x5b01;
    r
}
