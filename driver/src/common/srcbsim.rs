//! E-SRC (group a4): session simulator around the REAL `NtpSource` (NTS or plain),
//! a REAL `Server` + `KeySet` answering the source's actual requests, a spy source
//! controller, and an attacker's toolbox that builds datagrams byte by byte on top of
//! the independent reference codec (`refntp`) and the session keys known to the harness.
//!
//! Nothing in here decides a property; the monitors in `props/c07.rs` … subscribe to
//! what this engine records. Time is the paused tokio clock of a per-world runtime.

use std::collections::{HashSet, VecDeque};
use std::net::{IpAddr, Ipv4Addr, Ipv6Addr, SocketAddr};
use std::sync::{Arc, Mutex, RwLock};
use std::time::Duration;

use ntp_proto::verif::m::packet::Cipher;
use ntp_proto::verif::misc::{dur_to_i64, ts_from_u64, ts_to_u64};
use ntp_proto::verif::source::a4 as probe;
use ntp_proto::verif::src2 as hk;
use ntp_proto::{
    ClockId, FilterAction, FilterList, IpSubnet, KeySet, KeySetProvider, Measurement, NtpClock, NtpDuration,
    NtpLeapIndicator, NtpManager, NtpServerInfo, NtpSnapshot, NtpSource, NtpSourceAction, NtpSourceSnapshot,
    NtpTimestamp, NtpVersion, ObservableSourceTimedata, PollInterval, PollIntervalLimits, ProtocolVersion, Server,
    ServerAction, ServerConfig, ServerReason, ServerResponse, ServerStatHandler, SourceConfig, SourceController,
    SourceType, SynchronizationConfig, TimeSnapshot,
};

use crate::common::refntp::{self, RefField, RefHeader};
use crate::core::{Rng, guard, hex};

pub use probe::Digest;

// ---------------------------------------------------------------------------------------
// spy controller
// ---------------------------------------------------------------------------------------

#[derive(Clone, Debug, PartialEq, Eq)]
pub enum SpyEv {
    Meas {
        /// true: local -> remote half (sender is the system clock)
        outgoing: bool,
        sender_ts: u64,
        receiver_ts: u64,
        root_delay: i64,
        root_dispersion: i64,
        precision: i8,
    },
    Usable(bool),
}

#[derive(Default)]
pub struct SpyState {
    pub events: Vec<SpyEv>,
    pub desired: i8,
}

#[derive(Clone)]
pub struct Spy(pub Arc<Mutex<SpyState>>);

impl SourceController for Spy {
    fn handle_measurement(&mut self, m: Measurement) {
        self.0.lock().unwrap().events.push(SpyEv::Meas {
            outgoing: m.sender_id == ClockId::SYSTEM,
            sender_ts: ts_to_u64(m.sender_ts),
            receiver_ts: ts_to_u64(m.receiver_ts),
            root_delay: dur_to_i64(m.root_delay),
            root_dispersion: dur_to_i64(m.root_dispersion),
            precision: m.precision,
        });
    }
    fn set_usable(&mut self, usable: bool) {
        self.0.lock().unwrap().events.push(SpyEv::Usable(usable));
    }
    fn desired_poll_interval(&self) -> PollInterval {
        PollInterval::from_byte(self.0.lock().unwrap().desired as u8)
    }
    fn observe(&self) -> ObservableSourceTimedata {
        ObservableSourceTimedata::default()
    }
}

// ---------------------------------------------------------------------------------------
// server-side clock and stats
// ---------------------------------------------------------------------------------------

#[derive(Clone, Default)]
pub struct SimClock(pub Arc<Mutex<u64>>);

#[derive(Debug)]
pub struct ClockErr;
impl std::fmt::Display for ClockErr {
    fn fmt(&self, f: &mut std::fmt::Formatter<'_>) -> std::fmt::Result {
        write!(f, "simclock: not supported")
    }
}
impl std::error::Error for ClockErr {}

impl NtpClock for SimClock {
    type Error = ClockErr;
    fn now(&self) -> Result<NtpTimestamp, ClockErr> {
        let mut g = self.0.lock().unwrap();
        *g = g.wrapping_add(1 << 20); // ~0.25 ms per reading
        Ok(ts_from_u64(*g))
    }
    fn set_frequency(&self, _f: f64) -> Result<NtpTimestamp, ClockErr> {
        Err(ClockErr)
    }
    fn get_frequency(&self) -> Result<f64, ClockErr> {
        Ok(0.0)
    }
    fn step_clock(&self, _o: NtpDuration) -> Result<NtpTimestamp, ClockErr> {
        Err(ClockErr)
    }
    fn disable_ntp_algorithm(&self) -> Result<(), ClockErr> {
        Ok(())
    }
    fn error_estimate_update(&self, _e: NtpDuration, _m: NtpDuration) -> Result<(), ClockErr> {
        Ok(())
    }
    fn status_update(&self, _l: NtpLeapIndicator) -> Result<(), ClockErr> {
        Ok(())
    }
}

#[derive(Default)]
pub struct Stats(pub Vec<(u8, bool, ServerReason, ServerResponse)>);
impl ServerStatHandler for Stats {
    fn register(&mut self, version: u8, nts: bool, reason: ServerReason, response: ServerResponse) {
        self.0.push((version, nts, reason, response));
    }
}

// ---------------------------------------------------------------------------------------
// keys and AEAD helpers (the AEAD primitive itself is trusted; the NTS field layout is ours)
// ---------------------------------------------------------------------------------------

#[derive(Clone, Debug)]
pub struct Keys {
    /// 15 = AEAD_AES_SIV_CMAC_256, 17 = AEAD_AES_SIV_CMAC_512
    pub alg: u16,
    pub c2s: Vec<u8>,
    pub s2c: Vec<u8>,
}

impl Keys {
    pub fn random(rng: &mut Rng, alg: u16) -> Keys {
        let n = if alg == 15 { 32 } else { 64 };
        Keys {
            alg,
            c2s: rng.bytes(n),
            s2c: rng.bytes(n),
        }
    }
    pub fn c2s(&self) -> Box<dyn Cipher> {
        hk::cipher_from_key(self.alg, &self.c2s).expect("harness: key size")
    }
    pub fn s2c(&self) -> Box<dyn Cipher> {
        hk::cipher_from_key(self.alg, &self.s2c).expect("harness: key size")
    }
    /// a genuine cookie of `keyset` for this session
    pub fn real_cookie(&self, keyset: &KeySet) -> Vec<u8> {
        let d = hk::decoded_cookie(self.alg, self.s2c(), self.c2s());
        hk::keyset_encode_cookie(keyset, &d)
    }
}

/// One extension field to emit: type, value, minimum total length (RFC 7822 rule chosen by the caller).
#[derive(Clone, Debug)]
pub struct Fld {
    pub t: u16,
    pub v: Vec<u8>,
    pub min: usize,
}

impl Fld {
    pub fn new(t: u16, v: Vec<u8>) -> Fld {
        Fld { t, v, min: 0 }
    }
    pub fn min(t: u16, v: Vec<u8>, min: usize) -> Fld {
        Fld { t, v, min }
    }
    pub fn encode(&self, v5: bool) -> Vec<u8> {
        let real = 4 + self.v.len();
        let mut total = real.max(self.min);
        total = (total + 3) & !3;
        let len_field = if v5 { real.max(self.min) } else { total };
        let mut out = Vec::with_capacity(total);
        out.extend_from_slice(&self.t.to_be_bytes());
        out.extend_from_slice(&(len_field as u16).to_be_bytes());
        out.extend_from_slice(&self.v);
        out.resize(total, 0);
        out
    }
}

pub fn encode_fields(fs: &[Fld], v5: bool) -> Vec<u8> {
    let mut v = Vec::new();
    for f in fs {
        v.extend_from_slice(&f.encode(v5));
    }
    v
}

/// RFC 8915 section 5.6 authenticator-and-encrypted field for `plaintext` with `aad` = all preceding bytes.
pub fn seal(cipher: &dyn Cipher, aad: &[u8], plaintext: &[u8]) -> Vec<u8> {
    let mut buf = vec![0u8; plaintext.len() + 64];
    buf[..plaintext.len()].copy_from_slice(plaintext);
    let r = cipher.encrypt(&mut buf, plaintext.len(), aad).expect("harness: encrypt");
    let nonce = buf[..r.nonce_length].to_vec();
    let ct = buf[r.nonce_length..r.nonce_length + r.ciphertext_length].to_vec();
    auth_field_raw(&nonce, &ct)
}

/// the same field layout from caller-chosen nonce / ciphertext bytes (no key needed)
pub fn auth_field_raw(nonce: &[u8], ct: &[u8]) -> Vec<u8> {
    let np = (nonce.len() + 3) & !3;
    let cp = (ct.len() + 3) & !3;
    let total = 8 + np + cp;
    let mut out = Vec::with_capacity(total);
    out.extend_from_slice(&refntp::EF_NTS_AUTH.to_be_bytes());
    out.extend_from_slice(&(total as u16).to_be_bytes());
    out.extend_from_slice(&(nonce.len() as u16).to_be_bytes());
    out.extend_from_slice(&(ct.len() as u16).to_be_bytes());
    out.extend_from_slice(nonce);
    out.resize(8 + np, 0);
    out.extend_from_slice(ct);
    out.resize(total, 0);
    out
}

/// Decrypt the authenticator field `f` of `dgram` (AAD = everything before the field).
pub fn open(cipher: &dyn Cipher, dgram: &[u8], f: &RefField) -> Option<Vec<u8>> {
    let v = &f.value;
    if v.len() < 4 {
        return None;
    }
    let nl = u16::from_be_bytes([v[0], v[1]]) as usize;
    let cl = u16::from_be_bytes([v[2], v[3]]) as usize;
    let np = (nl + 3) & !3;
    if v.len() < 4 + np + cl {
        return None;
    }
    let nonce = &v[4..4 + nl];
    let ct = &v[4 + np..4 + np + cl];
    cipher.decrypt(nonce, ct, &dgram[..f.offset]).ok()
}

/// Walk a bare field sequence (the plaintext of an authenticator).
pub fn walk_fields(b: &[u8], v5: bool) -> Vec<RefField> {
    let mut out = Vec::new();
    let mut off = 0;
    while b.len() - off >= 4 {
        let t = u16::from_be_bytes([b[off], b[off + 1]]);
        let l = u16::from_be_bytes([b[off + 2], b[off + 3]]) as usize;
        if l < 4 {
            break;
        }
        let padded = (l + 3) & !3;
        if off + padded > b.len() {
            break;
        }
        out.push(RefField {
            type_id: t,
            length: l as u16,
            offset: off,
            value: b[off + 4..off + l].to_vec(),
        });
        off += padded;
    }
    let _ = v5;
    out
}

// ---------------------------------------------------------------------------------------
// reference view of the source's requests
// ---------------------------------------------------------------------------------------

#[derive(Clone, Debug)]
pub struct ReqView {
    pub raw: Vec<u8>,
    pub version: u8,
    pub mode: u8,
    pub poll: i8,
    /// v3/v4: transmit timestamp; v5: client cookie — what the answer must echo
    pub ident: u64,
    pub upgrade_marker: bool,
    pub uid: Option<Vec<u8>>,
    /// value bytes of the cookie field as on the wire (may carry zero padding)
    pub cookie: Option<Vec<u8>>,
    pub cookie_fields: usize,
    /// value lengths of the placeholder fields
    pub placeholders: Vec<usize>,
    pub auth: Option<RefField>,
    pub draft_id: Option<Vec<u8>>,
    /// (offset, payload length) of a v5 reference-id request
    pub refid_req: Option<(u16, usize)>,
    pub fields: Vec<RefField>,
    pub trailer_len: usize,
}

pub fn view_request(raw: &[u8]) -> Option<ReqView> {
    let p = refntp::parse(raw)?;
    let h = &p.header;
    let mut r = ReqView {
        raw: raw.to_vec(),
        version: h.version,
        mode: h.mode,
        poll: h.poll as i8,
        ident: if h.version == 5 { h.origin } else { h.transmit_ts },
        upgrade_marker: h.version == 4 && h.reference_ts == refntp::UPGRADE_MARKER,
        uid: None,
        cookie: None,
        cookie_fields: 0,
        placeholders: vec![],
        auth: None,
        draft_id: None,
        refid_req: None,
        fields: p.fields.clone(),
        trailer_len: p.trailer.len(),
    };
    for f in &p.fields {
        match f.type_id {
            refntp::EF_UNIQUE_ID => r.uid = Some(f.value.clone()),
            refntp::EF_NTS_COOKIE => {
                r.cookie_fields += 1;
                if r.cookie.is_none() {
                    r.cookie = Some(f.value.clone());
                }
            }
            refntp::EF_NTS_PLACEHOLDER => r.placeholders.push(f.value.len()),
            refntp::EF_NTS_AUTH => r.auth = Some(f.clone()),
            refntp::EF_V5_DRAFT_ID => r.draft_id = Some(f.value.clone()),
            refntp::EF_V5_REFID_REQ if f.value.len() >= 2 => {
                r.refid_req = Some((u16::from_be_bytes([f.value[0], f.value[1]]), f.value.len()))
            }
            _ => {}
        }
    }
    Some(r)
}

pub const DRAFT_ID: &[u8] = b"draft-ietf-ntp-ntpv5-09";

/// Header of an answer to `req`: same version, mode 4, echoing identifier and poll.
pub fn answer_header(req: &ReqView, stratum: u8, refid: [u8; 4], recv: u64, xmit: u64, rng: &mut Rng) -> RefHeader {
    let v5 = req.version == 5;
    RefHeader {
        leap: 0,
        version: req.version,
        mode: 4,
        stratum,
        poll: req.poll as u8,
        precision: (-20i8) as u8,
        root_delay: 0x0000_0100,
        root_dispersion: 0x0000_0100,
        reference_id: refid,
        reference_ts: if v5 { 0 } else { recv & 0xFFFF_FFFF_0000_0000 },
        origin: req.ident,
        receive_ts: recv,
        transmit_ts: xmit,
        timescale: 0,
        era: 0,
        flags: if v5 && stratum != 0 && stratum < 16 { 1 } else { 0 },
        server_cookie: if v5 { rng.u64() } else { 0 },
    }
}

/// A datagram under construction: header, fields before the authenticator, optional
/// authenticator (plaintext fields), fields after it.
#[derive(Clone, Debug)]
pub struct Forge {
    pub hdr: RefHeader,
    pub pre: Vec<Fld>,
    pub enc: Option<Vec<Fld>>,
    pub post: Vec<Fld>,
}

impl Forge {
    pub fn v5(&self) -> bool {
        self.hdr.version == 5
    }
    /// `key` seals the authenticator when `enc` is `Some`; with `key == None` a random
    /// nonce/ciphertext of the right shape is emitted instead.
    pub fn emit(&self, key: Option<&dyn Cipher>, rng: &mut Rng) -> Vec<u8> {
        let v5 = self.v5();
        let mut out = self.hdr.encode();
        out.extend_from_slice(&encode_fields(&self.pre, v5));
        if let Some(enc) = &self.enc {
            let pt = encode_fields(enc, v5);
            let f = match key {
                Some(k) => seal(k, &out, &pt),
                None => auth_field_raw(&rng.bytes(16), &rng.bytes(pt.len() + 16)),
            };
            out.extend_from_slice(&f);
        }
        out.extend_from_slice(&encode_fields(&self.post, v5));
        out
    }
}

/// the minimal well-formed answer skeleton for `req` (uid echoed before the authenticator
/// for NTS requests, draft id for v5)
pub fn skeleton(req: &ReqView, hdr: RefHeader, nts: bool) -> Forge {
    let v5 = hdr.version == 5;
    let mut pre = vec![];
    if let Some(uid) = &req.uid {
        pre.push(Fld::min(refntp::EF_UNIQUE_ID, uid.clone(), 16));
    }
    let mut post = vec![];
    if v5 {
        if nts {
            pre.push(Fld::min(refntp::EF_V5_DRAFT_ID, DRAFT_ID.to_vec(), 16));
        } else {
            post.push(Fld::new(refntp::EF_V5_DRAFT_ID, DRAFT_ID.to_vec()));
        }
    }
    if nts {
        Forge { hdr, pre, enc: Some(vec![]), post }
    } else {
        // unauthenticated: everything in the clear; v4 wants the last field >= 28 bytes
        let mut all = pre;
        all.extend(post);
        if !v5 {
            if let Some(l) = all.last_mut() {
                l.min = 28;
            }
        }
        Forge { hdr, pre: all, enc: None, post: vec![] }
    }
}

// ---------------------------------------------------------------------------------------
// reference cookie FIFO (C13 model, reused by C07)
// ---------------------------------------------------------------------------------------

#[derive(Default, Clone, Debug)]
pub struct CookieModel {
    pub held: VecDeque<Vec<u8>>,
    pub used: HashSet<Vec<u8>>,
    /// every cookie ever delivered inside an authenticated encrypted field (or by key exchange)
    pub delivered: HashSet<Vec<u8>>,
}

/// expected value bytes of the cookie field for a cookie of length `l`
pub fn cookie_value_len(l: usize, v5: bool) -> usize {
    if v5 { (l + 4).max(16) - 4 } else { (((l + 4).max(16) + 3) & !3) - 4 }
}

impl CookieModel {
    pub fn deliver(&mut self, c: Vec<u8>) {
        self.delivered.insert(c.clone());
        self.held.push_back(c);
        while self.held.len() > 8 {
            self.held.pop_front();
        }
    }
    /// Judge one request. Returns `(signature suffix, message)` of the first broken clause.
    pub fn on_request(&mut self, req: &ReqView) -> Result<Vec<u8>, (&'static str, String)> {
        let v5 = req.version == 5;
        let Some(wire) = &req.cookie else {
            return Err(("no-cookie", "NTS request without a cookie field".into()));
        };
        if req.cookie_fields != 1 {
            return Err(("cookie-count", format!("{} cookie fields in one request", req.cookie_fields)));
        }
        let Some(oldest) = self.held.pop_front() else {
            return Err((
                "cookie-from-nowhere",
                format!("request carries cookie {} but the model holds none", hex(wire)),
            ));
        };
        let l = oldest.len();
        let matches = |c: &Vec<u8>| wire.len() >= c.len() && wire[..c.len()] == c[..] && wire[c.len()..].iter().all(|b| *b == 0);
        if !(matches(&oldest) && wire.len() == cookie_value_len(l, v5)) {
            let what = if self.held.iter().any(|c| matches(c)) {
                ("not-oldest", "cookie sent is held but not the oldest")
            } else if self.used.iter().any(|c| matches(c)) {
                ("reused", "cookie was already sent in an earlier request")
            } else if self.delivered.iter().any(|c| matches(c)) {
                ("dropped-cookie", "cookie was delivered but should have been displaced")
            } else {
                ("foreign", "cookie was never delivered in an authenticated encrypted field")
            };
            return Err((what.0, format!("{}: wire {} expected oldest {}", what.1, hex(wire), hex(&oldest))));
        }
        if l >= 8 && !self.used.insert(oldest.clone()) {
            return Err(("reused", format!("cookie {} sent twice", hex(&oldest))));
        }
        let missing = 8 - self.held.len();
        let requested = req.placeholders.len() + 1;
        if requested > missing {
            return Err((
                "asks-too-many",
                format!("asks for {requested} cookies, only {missing} missing"),
            ));
        }
        if missing * l <= 512 && requested != missing {
            return Err((
                "asks-too-few",
                format!("asks for {requested} cookies, {missing} missing, cookie length {l} clearly fits"),
            ));
        }
        Ok(oldest)
    }
}

// ---------------------------------------------------------------------------------------
// MD5 (RFC 1321) for the reference-id of IPv6 addresses (RFC 5905 section 7.3)
// ---------------------------------------------------------------------------------------

pub fn md5(input: &[u8]) -> [u8; 16] {
    let s: [u32; 64] = [
        7, 12, 17, 22, 7, 12, 17, 22, 7, 12, 17, 22, 7, 12, 17, 22, 5, 9, 14, 20, 5, 9, 14, 20, 5, 9, 14, 20, 5, 9, 14, 20, 4,
        11, 16, 23, 4, 11, 16, 23, 4, 11, 16, 23, 4, 11, 16, 23, 6, 10, 15, 21, 6, 10, 15, 21, 6, 10, 15, 21, 6, 10, 15, 21,
    ];
    let k: Vec<u32> = (0..64).map(|i| ((i as f64 + 1.0).sin().abs() * 4294967296.0) as u32).collect();
    let (mut a0, mut b0, mut c0, mut d0) = (0x67452301u32, 0xefcdab89u32, 0x98badcfeu32, 0x10325476u32);
    let mut msg = input.to_vec();
    msg.push(0x80);
    while msg.len() % 64 != 56 {
        msg.push(0);
    }
    msg.extend_from_slice(&((input.len() as u64) * 8).to_le_bytes());
    for chunk in msg.chunks(64) {
        let m: Vec<u32> = (0..16).map(|i| u32::from_le_bytes([chunk[4 * i], chunk[4 * i + 1], chunk[4 * i + 2], chunk[4 * i + 3]])).collect();
        let (mut a, mut b, mut c, mut d) = (a0, b0, c0, d0);
        for i in 0..64 {
            let (mut f, g) = match i / 16 {
                0 => ((b & c) | (!b & d), i),
                1 => ((d & b) | (!d & c), (5 * i + 1) % 16),
                2 => (b ^ c ^ d, (3 * i + 5) % 16),
                _ => (c ^ (b | !d), (7 * i) % 16),
            };
            f = f.wrapping_add(a).wrapping_add(k[i]).wrapping_add(m[g]);
            a = d;
            d = c;
            c = b;
            b = b.wrapping_add(f.rotate_left(s[i]));
        }
        a0 = a0.wrapping_add(a);
        b0 = b0.wrapping_add(b);
        c0 = c0.wrapping_add(c);
        d0 = d0.wrapping_add(d);
    }
    let mut out = [0u8; 16];
    out[..4].copy_from_slice(&a0.to_le_bytes());
    out[4..8].copy_from_slice(&b0.to_le_bytes());
    out[8..12].copy_from_slice(&c0.to_le_bytes());
    out[12..].copy_from_slice(&d0.to_le_bytes());
    out
}

/// RFC 5905 reference id of a host address: the IPv4 address, or the first four octets of
/// the MD5 hash of the IPv6 address.
pub fn ref_id_of_ip(ip: IpAddr) -> [u8; 4] {
    match ip {
        IpAddr::V4(a) => a.octets(),
        IpAddr::V6(a) => {
            let d = md5(&a.octets());
            [d[0], d[1], d[2], d[3]]
        }
    }
}

// ---------------------------------------------------------------------------------------
// the world: one daemon (NtpManager), its sources, one real server per source
// ---------------------------------------------------------------------------------------

#[derive(Clone, Copy, Debug, PartialEq, Eq, Hash)]
pub enum Ver {
    V4,
    Upgrading,
    Upgraded,
    V5,
}

impl Ver {
    pub fn proto(self) -> ProtocolVersion {
        match self {
            Ver::V4 => ProtocolVersion::V4,
            Ver::Upgrading => ProtocolVersion::v4_upgrading_to_v5_with_default_tries(),
            Ver::Upgraded => ProtocolVersion::UpgradedToV5,
            Ver::V5 => ProtocolVersion::V5,
        }
    }
    pub const ALL: [Ver; 4] = [Ver::V4, Ver::Upgrading, Ver::Upgraded, Ver::V5];
}

#[derive(Clone, Debug)]
pub struct UnitCfg {
    pub addr: SocketAddr,
    pub ver: Ver,
    pub poll_min: i8,
    pub poll_max: i8,
    pub desired: i8,
    /// `Some` = NTS source with these keys and this initial stash (oldest first)
    pub nts: Option<(Keys, Vec<Vec<u8>>)>,
}

#[derive(Clone, Debug, PartialEq, Eq)]
pub enum Act {
    Send(Vec<u8>),
    SetTimer(Duration),
    Reset,
    Demobilize,
}

pub fn acts_of(it: impl Iterator<Item = NtpSourceAction>) -> Vec<Act> {
    it.map(|a| match a {
        NtpSourceAction::Send(b) => Act::Send(b),
        NtpSourceAction::SetTimer(d) => Act::SetTimer(d),
        NtpSourceAction::Reset => Act::Reset,
        NtpSourceAction::Demobilize => Act::Demobilize,
    })
    .collect()
}

pub fn acts_json(a: &[Act]) -> serde_json::Value {
    serde_json::Value::Array(
        a.iter()
            .map(|x| match x {
                Act::Send(b) => serde_json::json!({"send": hex(b)}),
                Act::SetTimer(d) => serde_json::json!({"timer_s": d.as_secs_f64()}),
                Act::Reset => serde_json::json!("reset"),
                Act::Demobilize => serde_json::json!("demobilize"),
            })
            .collect(),
    )
}

pub struct Unit {
    pub cfg: UnitCfg,
    pub id: ClockId,
    pub src: NtpSource<Spy>,
    pub spy: Arc<Mutex<SpyState>>,
    pub initial: Vec<Act>,
    pub server: Server<SimClock>,
    /// same key set, deny list = everybody (produces genuine DENY answers)
    pub deny_server: Server<SimClock>,
    pub server_info: Arc<RwLock<NtpServerInfo>>,
    pub clock: SimClock,
}

pub struct World {
    pub rt: tokio::runtime::Runtime,
    pub mgr: NtpManager,
    pub keyset: Arc<KeySet>,
    pub units: Vec<Unit>,
    /// Bloom-filter bits of this daemon's own server id (published filter with no sources)
    pub own_bits: Vec<u8>,
    pub local_stratum: u8,
    /// local time (raw NTP timestamp) at virtual time zero
    pub t0: u64,
    pub elapsed: Duration,
}

pub const CLIENT_IP: IpAddr = IpAddr::V4(Ipv4Addr::new(198, 51, 100, 77));

fn server_config(deny_all: bool) -> ServerConfig {
    let everyone = vec![
        IpSubnet { addr: IpAddr::V4(Ipv4Addr::UNSPECIFIED), mask: 0 },
        IpSubnet { addr: IpAddr::V6(Ipv6Addr::UNSPECIFIED), mask: 0 },
    ];
    ServerConfig {
        denylist: FilterList {
            filter: if deny_all { everyone.clone() } else { vec![] },
            action: FilterAction::Deny,
        },
        allowlist: FilterList { filter: everyone, action: FilterAction::Ignore },
        rate_limiting_cache_size: 0,
        rate_limiting_cutoff: Duration::from_secs(0),
        require_nts: None,
        accepted_versions: vec![NtpVersion::V3, NtpVersion::V4, NtpVersion::V5],
    }
}

impl World {
    pub fn new(local_stratum: u8, local_ips: Vec<IpAddr>, t0: u64) -> World {
        let rt = tokio::runtime::Builder::new_current_thread()
            .enable_time()
            .start_paused(true)
            .build()
            .expect("harness: runtime");
        let mut sc = SynchronizationConfig::default();
        sc.local_stratum = local_stratum;
        let mgr = NtpManager::new(sc, local_ips.into());
        let own_bits = mgr
            .update_used_sources(std::iter::empty())
            .bloom_filter
            .as_bytes()
            .to_vec();
        World {
            rt,
            mgr,
            keyset: KeySetProvider::new(1).get(),
            units: vec![],
            own_bits,
            local_stratum,
            t0,
            elapsed: Duration::ZERO,
        }
    }

    pub fn set_local_ips(&mut self, ips: Vec<IpAddr>) {
        self.mgr.update_ip_list(ips.into());
    }

    pub fn add(&mut self, cfg: UnitCfg) -> usize {
        let spy = Arc::new(Mutex::new(SpyState { events: vec![], desired: cfg.desired }));
        let sc = SourceConfig {
            poll_interval_limits: PollIntervalLimits {
                min: PollInterval::from_byte(cfg.poll_min as u8),
                max: PollInterval::from_byte(cfg.poll_max as u8),
            },
            initial_poll_interval: PollInterval::from_byte(cfg.poll_min as u8),
        };
        let nts = cfg
            .nts
            .as_ref()
            .map(|(k, cookies)| hk::make_nts_data(cookies.clone(), k.c2s(), k.s2c()));
        let id = ClockId::new();
        let (src, initial) = self
            .mgr
            .new_source(cfg.addr, sc, cfg.ver.proto(), Spy(spy.clone()), nts, id);
        let clock = SimClock(Arc::new(Mutex::new(self.t0 ^ 0x0000_0003_1234_0000)));
        let mut info = NtpServerInfo::default();
        info.ntp_snapshot = NtpSnapshot::default();
        info.ntp_snapshot.stratum = 2;
        info.ntp_snapshot.reference_id = hk::refid_from_bytes([192, 0, 2, 1]);
        info.time_snapshot = TimeSnapshot::default();
        info.time_snapshot.leap_indicator = NtpLeapIndicator::NoWarning;
        let server_info = Arc::new(RwLock::new(info));
        let server = Server::new_internal(server_config(false), clock.clone(), server_info.clone(), self.keyset.clone());
        let deny_server = Server::new_internal(server_config(true), clock.clone(), server_info.clone(), self.keyset.clone());
        self.units.push(Unit {
            cfg,
            id,
            src,
            spy,
            initial: acts_of(initial),
            server,
            deny_server,
            server_info,
            clock,
        });
        self.units.len() - 1
    }

    pub fn now_local(&self) -> u64 {
        self.t0
            .wrapping_add((self.elapsed.as_secs() << 32) | (((self.elapsed.subsec_nanos() as u64) << 32) / 1_000_000_000))
    }

    pub fn advance(&mut self, d: Duration) {
        self.elapsed += d;
        self.rt.block_on(async { tokio::time::advance(d).await });
    }

    /// fire the poll timer of unit `u`
    pub fn timer(&mut self, u: usize) -> Result<Vec<Act>, crate::core::PanicInfo> {
        let unit = &mut self.units[u];
        let rt = &self.rt;
        guard(|| rt.block_on(async { acts_of(unit.src.handle_timer()) }))
    }

    pub fn incoming(&mut self, u: usize, dgram: &[u8], send_ts: u64, recv_ts: u64) -> Result<Vec<Act>, crate::core::PanicInfo> {
        let unit = &mut self.units[u];
        let rt = &self.rt;
        guard(|| {
            rt.block_on(async {
                acts_of(unit.src.handle_incoming(dgram, ts_from_u64(send_ts), ts_from_u64(recv_ts)))
            })
        })
    }

    /// the real server's reply to `req` (None = it chose not to answer)
    pub fn serve(&mut self, u: usize, req: &[u8], deny: bool) -> Option<Vec<u8>> {
        let unit = &mut self.units[u];
        let mut buf = vec![0u8; 2048];
        let mut stats = Stats::default();
        let recv = unit.clock.now().unwrap();
        let srv = if deny { &mut unit.deny_server } else { &mut unit.server };
        match srv.handle(CLIENT_IP, recv, req, &mut buf, &mut stats) {
            ServerAction::Respond { message } => Some(message.to_vec()),
            ServerAction::Ignore => None,
        }
    }

    pub fn take_spy(&mut self, u: usize) -> Vec<SpyEv> {
        std::mem::take(&mut self.units[u].spy.lock().unwrap().events)
    }
    pub fn set_desired(&mut self, u: usize, d: i8) {
        self.units[u].spy.lock().unwrap().desired = d;
    }
    pub fn digest(&self, u: usize) -> Digest {
        probe::digest(&self.units[u].src)
    }
    /// public-API observables of unit `u`
    pub fn observables(&self, u: usize) -> Observables {
        let s = &self.units[u].src;
        let o = s.observe("x".into(), self.units[u].id);
        let snap = NtpSourceSnapshot::from_source(s);
        Observables {
            unanswered_polls: o.unanswered_polls,
            poll_interval: o.poll_interval.as_log(),
            nts_cookies: o.nts_cookies,
            current_poll: s.current_poll_interval().as_log(),
            reachable: snap.reach.is_reachable(),
            stratum: snap.stratum,
            reference_id: hk::refid_bytes(snap.reference_id),
            source_id: hk::refid_bytes(snap.source_id),
            version: format!("{:?}", snap.protocol_version),
            bloom: snap.bloom_filter.map(|b| b.as_bytes().to_vec()),
        }
    }
    pub fn set_server_info(&mut self, u: usize, f: impl FnOnce(&mut NtpServerInfo)) {
        f(&mut self.units[u].server_info.write().unwrap());
    }
}

#[derive(Clone, Debug, PartialEq, Eq)]
pub struct Observables {
    pub unanswered_polls: u32,
    pub poll_interval: i8,
    pub nts_cookies: Option<usize>,
    pub current_poll: i8,
    pub reachable: bool,
    pub stratum: u8,
    pub reference_id: [u8; 4],
    pub source_id: [u8; 4],
    pub version: String,
    pub bloom: Option<Vec<u8>>,
}

/// Cookies the monitor itself finds inside the authenticated encrypted part of `dgram`
/// (None = no authenticator that opens under `s2c`).
pub fn authentic_cookies(keys: &Keys, dgram: &[u8]) -> Option<Vec<Vec<u8>>> {
    let p = refntp::parse(dgram)?;
    let v5 = p.header.version == 5;
    let f = p.fields.iter().find(|f| f.type_id == refntp::EF_NTS_AUTH)?;
    let pt = open(keys.s2c().as_ref(), dgram, f)?;
    Some(
        walk_fields(&pt, v5)
            .into_iter()
            .filter(|f| f.type_id == refntp::EF_NTS_COOKIE)
            .map(|f| f.value)
            .collect(),
    )
}

/// unique random cookie of length `l` (last byte non-zero so padding is unambiguous)
pub fn random_cookie(rng: &mut Rng, l: usize) -> Vec<u8> {
    let mut c = rng.bytes(l);
    if let Some(b) = c.last_mut() {
        *b |= 1;
    }
    c
}

pub fn first_send(a: &[Act]) -> Option<&Vec<u8>> {
    a.iter().find_map(|x| if let Act::Send(b) = x { Some(b) } else { None })
}
pub fn first_timer(a: &[Act]) -> Option<Duration> {
    a.iter().find_map(|x| if let Act::SetTimer(d) = x { Some(*d) } else { None })
}
