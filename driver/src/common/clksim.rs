//! E-CLK — clock-controller simulator shared by C01, C02 and C06 (group a1).
//!
//! * `SimClock: NtpClock` records every call with its raw argument and simulates a
//!   local clock: `now()` follows the harness's virtual true time at rate
//!   `(1+kernel_freq)(1+hw_drift)` and jumps on every step, so steering is fed back.
//! * simulated remote sources (offset, drift, noise, delay, leap, steps, outages)
//!   produce `InternalMeasurement`s for the REAL Kalman source controllers;
//! * `Sim` mirrors `TimeSyncControllerWrapper::run`: measurement -> source message ->
//!   `source_message` -> controller message to every source, `next_update` timer ->
//!   `time_update`, usability changes -> `source_update`, drop -> `remove_source`;
//! * `Direct` drives `steer_offset`/`steer_frequency` directly (hook a1);
//! * `run_jobs_in_children` runs batches of jobs in forked children (the steering code calls
//!   `std::process::exit(70)`); the results so far and the clock log of the job in flight are
//!   written to the parent from an `atexit` handler through the `progress` channel of
//!   `core::fork::in_child`, so the parent knows what happened before the exit.
//!
//! All time is virtual: true time is an i128 count of 2^-32 s units; the tokio clock is
//! paused and advanced in lock-step (the filter's meddling detector reads it).

use crate::core::fork::{self, Ended};
use crate::core::{PanicInfo, Rng, guard};
use ntp_proto::verif::clk::probe;
use ntp_proto::verif::clk::{
    InternalMeasurement, InternalSourceController, InternalStateUpdate, InternalTimeSyncController, KalmanClockController,
    KalmanControllerMessage, OneWayCtl, TwoWayCtl,
};
use ntp_proto::verif::misc::{dur_from_i64, dur_to_i64, ts_from_u64, ts_to_u64};
use ntp_proto::{
    AlgorithmConfig, ClockId, NtpClock, NtpDuration, NtpLeapIndicator, NtpTimestamp, SourceConfig, StepThreshold,
    SynchronizationConfig, TimeSnapshot,
};
use serde_json::{Value, json};
use std::collections::VecDeque;
use std::sync::{Arc, Mutex};

pub use ntp_proto::verif::clk::probe::SnapView;

pub const UNIT: f64 = 4294967296.0;
/// smallest spacing between two measurements anywhere in a history (true time, seconds)
pub const MIN_GAP_S: f64 = 0.0012;

pub fn secs_to_units(s: f64) -> i128 {
    (s * UNIT).round() as i128
}
pub fn units_to_secs(u: i128) -> f64 {
    u as f64 / UNIT
}
pub fn clamp_i64(x: i128) -> i64 {
    x.clamp(i64::MIN as i128, i64::MAX as i128) as i64
}
/// independent conversion seconds -> raw fixed point (round to nearest, saturating)
pub fn ref_raw(seconds: f64) -> i64 {
    clamp_i64(secs_to_units(seconds))
}

// ------------------------------------------------------------------ SimClock

#[derive(Clone, Debug)]
pub enum What {
    SetFrequency(f64),
    GetFrequency,
    Step(i64),
    DisableNtp,
    ErrorEstimate(i64, i64),
    Status(u8),
}

#[derive(Clone, Debug)]
pub struct Call {
    /// number of the controller call (update) during which the clock call was made
    pub call_no: u64,
    pub what: What,
}

pub struct ClockState {
    pub t_true: i128,
    true_base: i128,
    local_base: i128,
    /// frequency currently applied to the simulated clock (sanitised copy of the last set_frequency)
    pub kernel_freq: f64,
    pub hw_drift: f64,
    pub reported_freq: f64,
    pub log: Vec<Call>,
    pub n_now: u64,
    /// number of the controller call in flight (0 = none yet)
    pub call_no: u64,
    /// first controller call whose result reported used sources
    pub first_used_call: Option<u64>,
    pub calls_returned: u64,
}

impl ClockState {
    fn rate_excess(&self) -> f64 {
        (1.0 + self.kernel_freq) * (1.0 + self.hw_drift) - 1.0
    }
    pub fn local_at(&self, t: i128) -> i128 {
        let dt = t - self.true_base;
        self.local_base + dt + ((dt as f64) * self.rate_excess()).round() as i128
    }
    pub fn local_now(&self) -> i128 {
        self.local_at(self.t_true)
    }
    pub fn now_ts(&self) -> NtpTimestamp {
        ts_from_u64(self.local_now() as u64)
    }
    fn rebase(&mut self) {
        self.local_base = self.local_now();
        self.true_base = self.t_true;
    }
    /// jump of the local clock not made through the controller ("another process set the clock")
    pub fn meddle(&mut self, raw: i64) {
        self.local_base += raw as i128;
    }
    pub fn steps(&self) -> Vec<(u64, i64)> {
        self.log
            .iter()
            .filter_map(|c| if let What::Step(r) = c.what { Some((c.call_no, r)) } else { None })
            .collect()
    }
    /// what C01 needs to know about an execution (small; streamed to the parent)
    pub fn c01_summary(&self, at_exit: bool) -> Value {
        json!({
            "steps": self.steps().iter().map(|(c, r)| json!([c, r])).collect::<Vec<_>>(),
            "first_used": self.first_used_call,
            "inflight": self.call_no,
            "returned": self.calls_returned,
            "at_exit": at_exit,
        })
    }
}

#[derive(Clone)]
pub struct SimClock(pub Arc<Mutex<ClockState>>);

impl SimClock {
    pub fn new(local_start: u64, reported_freq: f64, hw_drift: f64) -> SimClock {
        SimClock(Arc::new(Mutex::new(ClockState {
            t_true: 0,
            true_base: 0,
            local_base: local_start as i128,
            kernel_freq: sanitize_freq(reported_freq),
            hw_drift,
            reported_freq,
            log: Vec::new(),
            n_now: 0,
            call_no: 0,
            first_used_call: None,
            calls_returned: 0,
        })))
    }
    pub fn st(&self) -> std::sync::MutexGuard<'_, ClockState> {
        self.0.lock().unwrap_or_else(|e| e.into_inner())
    }
    pub fn log_len(&self) -> usize {
        self.st().log.len()
    }
    pub fn log_from(&self, from: usize) -> Vec<Call> {
        self.st().log[from..].to_vec()
    }
    fn push(&self, what: What) -> NtpTimestamp {
        let mut s = self.st();
        let call_no = s.call_no;
        s.log.push(Call { call_no, what });
        s.now_ts()
    }
}

fn sanitize_freq(f: f64) -> f64 {
    if f.is_finite() { f.clamp(-0.5, 0.5) } else { 0.0 }
}

pub fn leap_code(l: NtpLeapIndicator) -> u8 {
    match l {
        NtpLeapIndicator::NoWarning => 0,
        NtpLeapIndicator::Leap61 => 1,
        NtpLeapIndicator::Leap59 => 2,
        NtpLeapIndicator::Unknown => 3,
        NtpLeapIndicator::Unsynchronized => 4,
    }
}
pub fn leap_from(c: u8) -> NtpLeapIndicator {
    match c {
        0 => NtpLeapIndicator::NoWarning,
        1 => NtpLeapIndicator::Leap61,
        2 => NtpLeapIndicator::Leap59,
        _ => NtpLeapIndicator::Unknown,
    }
}

impl NtpClock for SimClock {
    type Error = std::io::Error;

    fn now(&self) -> Result<NtpTimestamp, Self::Error> {
        let mut s = self.st();
        s.n_now += 1;
        Ok(s.now_ts())
    }
    fn set_frequency(&self, freq: f64) -> Result<NtpTimestamp, Self::Error> {
        {
            let mut s = self.st();
            s.rebase();
            s.kernel_freq = sanitize_freq(freq);
        }
        Ok(self.push(What::SetFrequency(freq)))
    }
    fn get_frequency(&self) -> Result<f64, Self::Error> {
        self.push(What::GetFrequency);
        Ok(self.st().reported_freq)
    }
    fn step_clock(&self, offset: NtpDuration) -> Result<NtpTimestamp, Self::Error> {
        let raw = dur_to_i64(offset);
        self.st().local_base += raw as i128;
        Ok(self.push(What::Step(raw)))
    }
    fn disable_ntp_algorithm(&self) -> Result<(), Self::Error> {
        self.push(What::DisableNtp);
        Ok(())
    }
    fn error_estimate_update(&self, est_error: NtpDuration, max_error: NtpDuration) -> Result<(), Self::Error> {
        self.push(What::ErrorEstimate(dur_to_i64(est_error), dur_to_i64(max_error)));
        Ok(())
    }
    fn status_update(&self, leap_status: NtpLeapIndicator) -> Result<(), Self::Error> {
        self.push(What::Status(leap_code(leap_status)));
        Ok(())
    }
}

// ------------------------------------------------------------------ fork + streaming
//
// fork() costs tens of milliseconds in the sandbox, so a case runs a *batch* of jobs in one child;
// only a job in which the code under test calls exit() costs another fork (the parent resumes the
// batch after it). Results of finished jobs and the clock log of the job in flight are written to
// the parent by an atexit handler (std::process::exit runs libc atexit handlers).

struct ProgressPtr(*mut (dyn FnMut(Value) + 'static));
// SAFETY: only ever used by the single thread of a forked child
unsafe impl Send for ProgressPtr {}

struct ExitState {
    done: Vec<Value>,
    cur: usize,
    clock: Option<SimClock>,
}

static PROGRESS: Mutex<Option<ProgressPtr>> = Mutex::new(None);
static EXIT_STATE: Mutex<ExitState> = Mutex::new(ExitState { done: Vec::new(), cur: 0, clock: None });

fn stream_progress(v: Value) {
    if let Ok(g) = PROGRESS.try_lock() {
        if let Some(p) = g.as_ref() {
            // SAFETY: the pointer is installed by `in_child_streaming` and valid until the closure returns;
            // the child is single-threaded.
            unsafe { (*p.0)(v) }
        }
    }
}

extern "C" fn on_exit() {
    // runs when the code under test calls std::process::exit(): tell the parent what was observed so far
    let Ok(mut st) = EXIT_STATE.try_lock() else { return };
    let summary = match st.clock.as_ref().map(|c| c.0.try_lock()) {
        Some(Ok(s)) => s.c01_summary(true),
        _ => Value::Null,
    };
    let v = json!({"at_exit": true, "done": std::mem::take(&mut st.done), "cur": st.cur, "summary": summary});
    drop(st);
    stream_progress(v);
}

/// Run `f` in a forked child with the progress channel reachable from the exit handler.
fn in_child_streaming(f: impl FnOnce() -> Value) -> Ended {
    fork::in_child(|progress| {
        // SAFETY: lifetime erasure only; the pointer is cleared before this closure returns and is
        // otherwise used only from the atexit handler of this same (single-threaded) child process.
        let p: *mut (dyn FnMut(Value) + 'static) = unsafe { std::mem::transmute(progress as *mut dyn FnMut(Value)) };
        *PROGRESS.lock().unwrap() = Some(ProgressPtr(p));
        {
            let mut st = EXIT_STATE.lock().unwrap();
            st.done.clear();
            st.clock = None;
        }
        // SAFETY: registering a plain extern "C" function
        unsafe {
            libc::atexit(on_exit);
        }
        let v = f();
        EXIT_STATE.lock().unwrap().clock = None;
        *PROGRESS.lock().unwrap() = None;
        v
    })
}

/// (child only) the clock whose log describes the job in flight
pub fn register_exit_clock(c: &SimClock) {
    EXIT_STATE.lock().unwrap().clock = Some(c.clone());
}

pub enum JobEnd {
    /// the job ran to completion; its result
    Returned(Value),
    /// the code under test stopped the process with status 70 during the job; `c01_summary` at that moment
    Stopped(Value),
    /// the child was lost in another way (harness problem, never a verdict)
    Lost(String),
}

/// Run jobs `0..n` in forked children, in order; `job(k)` is executed in a child and must call
/// `register_exit_clock` for the clock it uses. A job that ends in exit(70) is reported as `Stopped`
/// and the remaining jobs continue in a fresh child.
pub fn run_jobs_in_children(n: usize, job: &dyn Fn(usize) -> Value) -> Vec<JobEnd> {
    let mut out: Vec<JobEnd> = Vec::new();
    while out.len() < n {
        let start = out.len();
        let ended = in_child_streaming(|| {
            for k in start..n {
                {
                    let mut st = EXIT_STATE.lock().unwrap();
                    st.cur = k;
                    st.clock = None;
                }
                let v = job(k);
                EXIT_STATE.lock().unwrap().done.push(v);
            }
            let done = std::mem::take(&mut EXIT_STATE.lock().unwrap().done);
            json!({"done": done})
        });
        let take_done = |v: &Value, out: &mut Vec<JobEnd>| {
            if let Some(a) = v.get("done").and_then(|d| d.as_array()) {
                for d in a {
                    out.push(JobEnd::Returned(d.clone()));
                }
            }
        };
        match ended {
            Ended::Returned(v) => {
                take_done(&v, &mut out);
                while out.len() < n {
                    out.push(JobEnd::Lost("child returned fewer results than jobs".into()));
                }
            }
            Ended::Exited(70, Some(v)) if v.get("at_exit").and_then(|x| x.as_bool()) == Some(true) => {
                take_done(&v, &mut out);
                let cur = v.get("cur").and_then(|x| x.as_u64()).unwrap_or(u64::MAX) as usize;
                if cur != out.len() || v.get("summary").is_none_or(|s| s.is_null()) {
                    out.push(JobEnd::Lost(format!("inconsistent exit report: cur={cur} results={}", out.len())));
                } else {
                    out.push(JobEnd::Stopped(v["summary"].clone()));
                }
            }
            other => {
                out.push(JobEnd::Lost(format!("child ended unexpectedly: {other:?}")));
                while out.len() < n {
                    out.push(JobEnd::Lost("not run: an earlier job lost the child".into()));
                }
            }
        }
    }
    out.truncate(n);
    out
}

// ------------------------------------------------------------------ specification of a history

#[derive(Clone, Debug, PartialEq)]
pub enum SrcKind {
    TwoWay,
    OneWay { noise: f64, accuracy: f64, period: Option<f64> },
}

#[derive(Clone, Debug)]
pub enum Poll {
    /// constant spacing (s)
    Fixed(f64),
    /// whatever the real source controller asks for (2^desired_poll s)
    Desired,
    /// log-uniform in [lo, hi] each time
    LogUniform(f64, f64),
    /// `n` polls at `tiny` then one gap of `huge`
    Burst { n: u32, tiny: f64, huge: f64 },
}

#[derive(Clone, Debug)]
pub struct SrcSpec {
    pub kind: SrcKind,
    /// remote - true time at t = 0 (s)
    pub offset: f64,
    /// remote frequency error (s/s)
    pub drift: f64,
    /// offset noise magnitude (s)
    pub noise: f64,
    /// 0 gaussian, 1 alternating +-noise, 2 mostly small with rare 100x spikes, 3 none (exactly constant)
    pub noise_kind: u8,
    /// round-trip delay (s) and its jitter
    pub delay: f64,
    pub delay_jitter: f64,
    /// probability (per mille) of a delay outlier and its size (s)
    pub outlier_pm: u32,
    pub outlier: f64,
    pub poll: Poll,
    pub root_delay: f64,
    pub root_disp: f64,
    pub precision: i8,
    /// (time, leap code) changes; starts as code `leap0`
    pub leap0: u8,
    pub leaps: Vec<(f64, u8)>,
    /// remote clock jumps (time, amount s)
    pub steps: Vec<(f64, f64)>,
    /// no measurements in these windows
    pub outages: Vec<(f64, f64)>,
    pub start: f64,
    pub stop: Option<f64>,
    /// usability changes (time, usable); the source starts not usable (as in the daemon)
    pub usable: Vec<(f64, bool)>,
    pub seed: u64,
}

impl SrcSpec {
    pub fn plain(seed: u64) -> SrcSpec {
        SrcSpec {
            kind: SrcKind::TwoWay,
            offset: 0.0,
            drift: 0.0,
            noise: 1e-4,
            noise_kind: 0,
            delay: 0.005,
            delay_jitter: 1e-4,
            outlier_pm: 0,
            outlier: 0.0,
            poll: Poll::Fixed(16.0),
            root_delay: 0.001,
            root_disp: 0.001,
            precision: -20,
            leap0: 0,
            leaps: vec![],
            steps: vec![],
            outages: vec![],
            start: 0.0,
            stop: None,
            usable: vec![(0.0, true)],
            seed,
        }
    }
    fn to_json(&self) -> Value {
        json!({
            "kind": match &self.kind { SrcKind::TwoWay => json!("two-way"), SrcKind::OneWay{noise, accuracy, period} => json!({"one-way": {"noise": noise, "accuracy": accuracy, "period": period}}) },
            "offset": self.offset, "drift": self.drift, "noise": self.noise, "noise_kind": self.noise_kind,
            "delay": self.delay, "delay_jitter": self.delay_jitter, "outlier_pm": self.outlier_pm, "outlier": self.outlier,
            "poll": format!("{:?}", self.poll), "root_delay": self.root_delay, "root_disp": self.root_disp, "precision": self.precision,
            "leap0": self.leap0, "leaps": self.leaps, "steps": self.steps, "outages": self.outages,
            "start": self.start, "stop": self.stop, "usable": self.usable, "seed": self.seed,
        })
    }
}

/// raw thresholds: (forward, backward) in 2^-32 s, None = infinite
#[derive(Clone, Copy, Debug, PartialEq, Eq, Hash)]
pub struct Thr {
    pub fwd: Option<i64>,
    pub bwd: Option<i64>,
}
impl Thr {
    pub const INF: Thr = Thr { fwd: None, bwd: None };
    pub fn sym(raw: i64) -> Thr {
        Thr { fwd: Some(raw), bwd: Some(raw) }
    }
    pub fn to_cfg(self) -> StepThreshold {
        StepThreshold { forward: self.fwd.map(dur_from_i64), backward: self.bwd.map(dur_from_i64) }
    }
    /// strictly outside (the statement's "outside"); equality is not decided
    pub fn strictly_outside(self, d: i64) -> bool {
        self.fwd.is_some_and(|f| d as i128 > f as i128) || self.bwd.is_some_and(|b| (d as i128) < -(b as i128))
    }
    pub fn json(self) -> Value {
        json!({"forward_raw": self.fwd, "backward_raw": self.bwd,
               "forward_s": self.fwd.map(|v| v as f64 / UNIT), "backward_s": self.bwd.map(|v| v as f64 / UNIT)})
    }
}

#[derive(Clone, Debug)]
pub enum Op {
    /// the local clock is set by someone else (raw jump)
    Meddle(i64),
}

#[derive(Clone, Debug)]
pub struct Spec {
    pub min_agree: usize,
    pub startup: Thr,
    pub single: Thr,
    pub accumulated: Option<i64>,
    pub algo: AlgorithmConfig,
    /// what the kernel reports as its frequency at start-up (and what the simulated clock runs at until steered)
    pub kernel_freq: f64,
    pub hw_drift: f64,
    pub local_start: u64,
    /// local - true at t = 0 (s)
    pub local_offset: f64,
    pub sources: Vec<SrcSpec>,
    pub ops: Vec<(f64, Op)>,
    pub duration: f64,
    pub max_meas: u64,
}

pub fn algo_json(a: &AlgorithmConfig) -> Value {
    json!({
        "precision_low_probability": a.precision_low_probability, "precision_high_probability": a.precision_high_probability,
        "precision_hysteresis": a.precision_hysteresis, "precision_minimum_weight": a.precision_minimum_weight,
        "poll_interval_low_weight": a.poll_interval_low_weight, "poll_interval_high_weight": a.poll_interval_high_weight,
        "poll_interval_hysteresis": a.poll_interval_hysteresis, "poll_interval_step_threshold": a.poll_interval_step_threshold,
        "delay_outlier_threshold": a.delay_outlier_threshold, "initial_wander": a.initial_wander,
        "initial_frequency_uncertainty": a.initial_frequency_uncertainty, "maximum_source_uncertainty": a.maximum_source_uncertainty,
        "range_statistical_weight": a.range_statistical_weight, "range_delay_weight": a.range_delay_weight,
        "steer_offset_threshold": a.steer_offset_threshold, "steer_offset_leftover": a.steer_offset_leftover,
        "steer_frequency_threshold": a.steer_frequency_threshold, "steer_frequency_leftover": a.steer_frequency_leftover,
        "step_threshold": a.step_threshold, "slew_maximum_frequency_offset": a.slew_maximum_frequency_offset,
        "slew_minimum_duration": a.slew_minimum_duration, "maximum_frequency_steer": a.maximum_frequency_steer,
        "ignore_server_dispersion": a.ignore_server_dispersion, "meddling_threshold_raw": dur_to_i64(a.meddling_threshold),
    })
}

impl Spec {
    pub fn basic(n_sources: usize, rng: &mut Rng) -> Spec {
        Spec {
            min_agree: 1,
            startup: Thr::INF,
            single: Thr::INF,
            accumulated: None,
            algo: AlgorithmConfig::default(),
            kernel_freq: 0.0,
            hw_drift: 0.0,
            local_start: 0xE000_0000_0000_0000 | (rng.u64() >> 4),
            local_offset: 0.0,
            sources: (0..n_sources).map(|_| SrcSpec::plain(rng.u64())).collect(),
            ops: vec![],
            duration: 1e9,
            max_meas: 200,
        }
    }
    pub fn sync_config(&self) -> SynchronizationConfig {
        SynchronizationConfig {
            minimum_agreeing_sources: self.min_agree,
            single_step_panic_threshold: self.single.to_cfg(),
            startup_step_panic_threshold: self.startup.to_cfg(),
            accumulated_step_panic_threshold: self.accumulated.map(dur_from_i64),
            ..SynchronizationConfig::default()
        }
    }
    pub fn to_json(&self) -> Value {
        json!({
            "min_agree": self.min_agree, "startup": self.startup.json(), "single": self.single.json(),
            "accumulated_raw": self.accumulated, "algo": algo_json(&self.algo),
            "kernel_freq": self.kernel_freq, "hw_drift": self.hw_drift, "local_start": format!("{:#x}", self.local_start),
            "local_offset": self.local_offset,
            "sources": self.sources.iter().map(|s| s.to_json()).collect::<Vec<_>>(),
            "ops": self.ops.iter().map(|(t, o)| json!([t, format!("{o:?}")])).collect::<Vec<_>>(),
            "duration": self.duration, "max_meas": self.max_meas,
        })
    }
    pub fn can_exit(&self) -> bool {
        self.startup != Thr::INF || self.single != Thr::INF || self.accumulated.is_some()
    }
}

// ------------------------------------------------------------------ the simulation

pub type Ctl = KalmanClockController<SimClock>;

enum SrcCtl {
    Two(TwoWayCtl<SimClock>),
    One(OneWayCtl<SimClock>),
}

struct SrcRt {
    id: ClockId,
    ctrl: Option<SrcCtl>,
    next: i128,
    rng: Rng,
    n: u64,
    removed: bool,
    usable_idx: usize,
    alt: f64,
    burst_left: u32,
}

#[derive(Clone, Debug)]
pub struct MeasRec {
    pub src: usize,
    pub t: f64,
    pub offset_raw: i64,
    pub delay_raw: i64,
    pub localtime: u64,
    pub leap: u8,
}
impl MeasRec {
    pub fn json(&self) -> Value {
        json!({"src": self.src, "t": self.t, "offset_raw": self.offset_raw, "delay_raw": self.delay_raw,
               "localtime": format!("{:#018x}", self.localtime), "leap": self.leap})
    }
}

#[derive(Clone, Debug)]
pub struct Obs {
    pub offset: i64,
    pub uncertainty: i64,
    pub delay: i64,
    pub remote_delay: i64,
    pub remote_uncertainty: i64,
}

#[derive(Clone, Debug)]
pub struct Upd {
    pub used: Option<Vec<ClockId>>,
    pub snapshot: Option<TimeSnapshot>,
    pub next_update: Option<std::time::Duration>,
    /// (is_step, steer)
    pub message: Option<(bool, f64)>,
}

#[derive(Clone, Debug, PartialEq)]
pub enum Ev {
    Add(usize),
    Remove(usize),
    Usable(usize, bool),
    Meas(usize),
    Skipped(usize),
    Timer,
    Meddle(i64),
}

pub struct StepInfo {
    pub ev: Ev,
    pub t: f64,
    /// number of the controller call made in this step (if any)
    pub call_no: Option<u64>,
    pub meas: Option<MeasRec>,
    /// f64 view of the message the source controller forwarded
    pub msg: Option<SnapView>,
    pub observe: Option<Obs>,
    pub update: Option<Upd>,
    /// clock calls made during this step are `clock.log[log_from..]`
    pub log_from: usize,
    /// a panic inside the code under test (the simulation stops after it): (where, info)
    pub panic: Option<(&'static str, PanicInfo)>,
    pub in_startup: bool,
    pub freq_offset: f64,
    pub desired_freq: f64,
    pub local_now: NtpTimestamp,
}

pub struct Core {
    pub spec: Spec,
    pub clock: SimClock,
    pub ctl: Ctl,
    srcs: Vec<SrcRt>,
    pub t: i128,
    timer: Option<i128>,
    last_meas_t: i128,
    op_idx: usize,
    pub call_no: u64,
    pub n_meas: u64,
    pub recent: VecDeque<MeasRec>,
    pub dead: bool,
    mono_ns: u128,
    pub last_snapshot: Option<TimeSnapshot>,
}

pub struct Sim {
    rt: tokio::runtime::Runtime,
    pub core: Core,
}

pub fn new_runtime() -> tokio::runtime::Runtime {
    tokio::runtime::Builder::new_current_thread()
        .enable_time()
        .start_paused(true)
        .build()
        .expect("tokio runtime")
}

impl Sim {
    pub fn new(spec: Spec) -> Sim {
        let rt = new_runtime();
        let clock = SimClock::new(spec.local_start, spec.kernel_freq, spec.hw_drift);
        clock.st().meddle(clamp_i64(secs_to_units(spec.local_offset)));
        let ctl = Ctl::new(clock.clone(), spec.sync_config(), spec.algo).expect("SimClock never fails");
        let srcs = spec
            .sources
            .iter()
            .map(|s| SrcRt {
                id: ClockId::new(),
                ctrl: None,
                next: secs_to_units(s.start),
                rng: Rng::new(s.seed),
                n: 0,
                removed: false,
                usable_idx: 0,
                alt: 1.0,
                burst_left: 0,
            })
            .collect();
        let mut core = Core {
            spec,
            clock,
            ctl,
            srcs,
            t: 0,
            timer: None,
            last_meas_t: i128::MIN / 2,
            op_idx: 0,
            call_no: 0,
            n_meas: 0,
            recent: VecDeque::new(),
            dead: false,
            mono_ns: 0,
            last_snapshot: None,
        };
        core.spec.ops.sort_by(|a, b| a.0.total_cmp(&b.0));
        // the daemon takes control of the clock before running (system.rs)
        let _ = guard(|| core.ctl.take_control());
        Sim { rt, core }
    }
    /// Process the next event of the history; None when the history is over (or the code under test panicked earlier).
    pub fn step(&mut self) -> Option<StepInfo> {
        let _g = self.rt.enter();
        self.core.step(&self.rt)
    }
    pub fn describe(&self) -> Value {
        json!({
            "spec": self.core.spec.to_json(),
            "t": units_to_secs(self.core.t),
            "measurements_so_far": self.core.n_meas,
            "last_measurements": self.core.recent.iter().map(|m| m.json()).collect::<Vec<_>>(),
        })
    }
}

impl Core {
    fn advance_to(&mut self, rt: &tokio::runtime::Runtime, t: i128) {
        if t <= self.t {
            return;
        }
        self.t = t;
        self.clock.st().t_true = t;
        let target_ns = ((t as u128) * 1_000_000_000u128) >> 32;
        let d = (target_ns - self.mono_ns) as u64;
        self.mono_ns = target_ns;
        if d > 0 {
            rt.block_on(tokio::time::advance(std::time::Duration::from_nanos(d)));
        }
    }

    fn next_event(&self) -> Option<(i128, Ev)> {
        let mut best: Option<(i128, u8, Ev)> = None;
        let mut consider = |t: i128, prio: u8, ev: Ev| {
            if best.as_ref().is_none_or(|(bt, bp, _)| (t, prio) < (*bt, *bp)) {
                best = Some((t, prio, ev));
            }
        };
        if let Some(t) = self.timer {
            consider(t, 0, Ev::Timer);
        }
        if let Some((t, Op::Meddle(raw))) = self.spec.ops.get(self.op_idx) {
            consider(secs_to_units(*t), 1, Ev::Meddle(*raw));
        }
        for (i, s) in self.srcs.iter().enumerate() {
            if s.removed {
                continue;
            }
            let sp = &self.spec.sources[i];
            if s.ctrl.is_none() {
                consider(secs_to_units(sp.start), 2, Ev::Add(i));
                continue;
            }
            if let Some(stop) = sp.stop {
                consider(secs_to_units(stop), 3, Ev::Remove(i));
            }
            if let Some((t, u)) = sp.usable.get(s.usable_idx) {
                consider(secs_to_units(*t), 4, Ev::Usable(i, *u));
            }
            consider(s.next, 5, Ev::Meas(i));
        }
        best.map(|(t, _, e)| (t, e))
    }

    fn spacing(&mut self, i: usize) -> i128 {
        let sp = self.spec.sources[i].poll.clone();
        let s = &mut self.srcs[i];
        let secs = match sp {
            Poll::Fixed(x) => x,
            Poll::Desired => match s.ctrl.as_ref() {
                Some(SrcCtl::Two(c)) => c.desired_poll_interval().as_duration().to_seconds(),
                Some(SrcCtl::One(c)) => c.desired_poll_interval().as_duration().to_seconds(),
                None => 16.0,
            },
            Poll::LogUniform(lo, hi) => s.rng.log_uniform(lo, hi),
            Poll::Burst { n, tiny, huge } => {
                if s.burst_left == 0 {
                    s.burst_left = n;
                    huge
                } else {
                    s.burst_left -= 1;
                    tiny
                }
            }
        };
        secs_to_units(secs.clamp(MIN_GAP_S, 131072.0))
    }

    fn measurement(&mut self, i: usize) -> MeasRec {
        let t = self.t;
        let ts = units_to_secs(t);
        let sp = &self.spec.sources[i];
        let s = &mut self.srcs[i];
        let mut remote = self.spec.local_start as i128 + t + secs_to_units(sp.offset) + ((t as f64) * sp.drift).round() as i128;
        for (at, amount) in &sp.steps {
            if ts >= *at {
                remote += secs_to_units(*amount);
            }
        }
        let noise = match sp.noise_kind {
            0 => sp.noise * s.rng.normal(),
            1 => {
                s.alt = -s.alt;
                sp.noise * s.alt
            }
            2 => {
                if s.rng.chance(1, 20) {
                    100.0 * sp.noise * s.rng.normal()
                } else {
                    0.01 * sp.noise * s.rng.normal()
                }
            }
            _ => 0.0,
        };
        let local = self.clock.st().local_now();
        let mut off = remote - local + secs_to_units(noise);
        if let SrcKind::OneWay { period: Some(p), .. } = &sp.kind {
            // a periodic (PPS-like) source reports the offset modulo its period
            let pu = secs_to_units(*p).max(1);
            off = (off + pu / 2).rem_euclid(pu) - pu / 2;
        }
        let mut delay = sp.delay + sp.delay_jitter * s.rng.normal().abs();
        if sp.outlier_pm > 0 && s.rng.chance(sp.outlier_pm as u64, 1000) {
            delay += sp.outlier;
        }
        let mut leap = sp.leap0;
        for (at, l) in &sp.leaps {
            if ts >= *at {
                leap = *l;
            }
        }
        MeasRec {
            src: i,
            t: ts,
            offset_raw: clamp_i64(off),
            delay_raw: clamp_i64(secs_to_units(delay)),
            localtime: local as u64,
            leap,
        }
    }

    fn hooks(&self, info: &mut StepInfo) {
        info.in_startup = probe::in_startup(&self.ctl);
        info.freq_offset = probe::freq_offset(&self.ctl);
        info.desired_freq = probe::desired_freq(&self.ctl);
        info.local_now = self.clock.st().now_ts();
    }

    /// what `TimeSyncControllerWrapper::run` does with the result of a controller call
    fn apply_update(&mut self, upd: InternalStateUpdate<KalmanControllerMessage>, info: &mut StepInfo) {
        let mut u = Upd {
            used: upd.used_sources.clone(),
            snapshot: upd.time_snapshot,
            next_update: upd.next_update,
            message: None,
        };
        {
            let mut c = self.clock.st();
            c.calls_returned += 1;
            if upd.used_sources.is_some() && c.first_used_call.is_none() {
                c.first_used_call = Some(c.call_no);
            }
        }
        if let Some(cm) = upd.source_message {
            let (is_step, steer, _) = probe::ctrl_msg_view(&cm);
            u.message = Some((is_step, steer));
            for one_way_first in [true, false] {
                for s in self.srcs.iter_mut() {
                    let r = match (s.ctrl.as_mut(), one_way_first) {
                        (Some(SrcCtl::One(c)), true) => guard(|| c.handle_message(cm.clone())),
                        (Some(SrcCtl::Two(c)), false) => guard(|| c.handle_message(cm.clone())),
                        _ => Ok(()),
                    };
                    if let Err(p) = r {
                        if info.panic.is_none() {
                            info.panic = Some(("handle_message", p));
                        }
                        self.dead = true;
                    }
                }
            }
        }
        if let Some(s) = upd.time_snapshot {
            self.last_snapshot = Some(s);
        }
        if let Some(d) = upd.next_update {
            self.timer = Some(self.t + secs_to_units(d.as_secs_f64()));
        }
        info.update = Some(u);
    }

    fn begin_call(&mut self) -> u64 {
        self.call_no += 1;
        self.clock.st().call_no = self.call_no;
        self.call_no
    }

    fn step(&mut self, rt: &tokio::runtime::Runtime) -> Option<StepInfo> {
        if self.dead || self.n_meas >= self.spec.max_meas {
            return None;
        }
        let (mut t, ev) = self.next_event()?;
        if let Ev::Meas(_) = ev {
            // keep every two measurements of the history at least MIN_GAP apart
            t = t.max(self.last_meas_t + secs_to_units(MIN_GAP_S));
        }
        if units_to_secs(t) > self.spec.duration {
            return None;
        }
        self.advance_to(rt, t);
        let mut info = StepInfo {
            ev: ev.clone(),
            t: units_to_secs(self.t),
            call_no: None,
            meas: None,
            msg: None,
            observe: None,
            update: None,
            log_from: self.clock.log_len(),
            panic: None,
            in_startup: true,
            freq_offset: 0.0,
            desired_freq: 0.0,
            local_now: NtpTimestamp::default(),
        };
        match ev {
            Ev::Timer => {
                self.timer = None;
                info.call_no = Some(self.begin_call());
                match guard(|| self.ctl.time_update()) {
                    Ok(upd) => self.apply_update(upd, &mut info),
                    Err(p) => {
                        info.panic = Some(("time_update", p));
                        self.dead = true;
                    }
                }
            }
            Ev::Meddle(raw) => {
                self.op_idx += 1;
                self.clock.st().meddle(raw);
            }
            Ev::Add(i) => {
                let sp = self.spec.sources[i].clone();
                let id = self.srcs[i].id;
                let ctrl = match sp.kind {
                    SrcKind::TwoWay => SrcCtl::Two(self.ctl.add_source(id, SourceConfig::default())),
                    SrcKind::OneWay { noise, accuracy, period } => {
                        SrcCtl::One(self.ctl.add_one_way_source(id, SourceConfig::default(), noise, accuracy, period))
                    }
                };
                self.srcs[i].ctrl = Some(ctrl);
            }
            Ev::Remove(i) => {
                let id = self.srcs[i].id;
                self.srcs[i].ctrl = None;
                self.srcs[i].removed = true;
                self.ctl.remove_source(id);
            }
            Ev::Usable(i, u) => {
                self.srcs[i].usable_idx += 1;
                let id = self.srcs[i].id;
                self.ctl.source_update(id, u);
            }
            Ev::Skipped(_) => {}
            Ev::Meas(i) => {
                let gap = self.spacing(i);
                self.srcs[i].next = self.t + gap;
                let ts = units_to_secs(self.t);
                if self.spec.sources[i].outages.iter().any(|(a, b)| ts >= *a && ts < *b) {
                    info.ev = Ev::Skipped(i);
                    self.hooks(&mut info);
                    return Some(info);
                }
                self.last_meas_t = self.t;
                self.n_meas += 1;
                self.srcs[i].n += 1;
                let rec = self.measurement(i);
                if self.recent.len() >= 16 {
                    self.recent.pop_front();
                }
                self.recent.push_back(rec.clone());
                info.meas = Some(rec.clone());
                let sp = &self.spec.sources[i];
                let offset = dur_from_i64(rec.offset_raw);
                let localtime = ts_from_u64(rec.localtime);
                let root_delay = dur_from_i64(ref_raw(sp.root_delay));
                let root_dispersion = dur_from_i64(ref_raw(sp.root_disp));
                let leap = leap_from(rec.leap);
                let precision = sp.precision;
                let id = self.srcs[i].id;
                let ctrl = self.srcs[i].ctrl.as_mut().expect("measuring a live source");
                let r = guard(|| match ctrl {
                    SrcCtl::Two(c) => c.handle_measurement(InternalMeasurement {
                        delay: dur_from_i64(rec.delay_raw),
                        offset,
                        localtime,
                        root_delay,
                        root_dispersion,
                        leap,
                        precision,
                    }),
                    SrcCtl::One(c) => c.handle_measurement(InternalMeasurement {
                        delay: (),
                        offset,
                        localtime,
                        root_delay,
                        root_dispersion,
                        leap,
                        precision,
                    }),
                });
                match r {
                    Err(p) => {
                        info.panic = Some(("handle_measurement", p));
                        self.dead = true;
                    }
                    Ok(None) => {}
                    Ok(Some(msg)) => {
                        info.msg = Some(probe::snap_view(&msg));
                        info.call_no = Some(self.begin_call());
                        match guard(|| self.ctl.source_message(id, msg)) {
                            Ok(upd) => self.apply_update(upd, &mut info),
                            Err(p) => {
                                info.panic = Some(("source_message", p));
                                self.dead = true;
                            }
                        }
                    }
                }
                if !self.dead {
                    let ctrl = self.srcs[i].ctrl.as_ref().expect("live");
                    match guard(|| match ctrl {
                        SrcCtl::Two(c) => c.observe(),
                        SrcCtl::One(c) => c.observe(),
                    }) {
                        Ok(o) => {
                            info.observe = Some(Obs {
                                offset: dur_to_i64(o.offset),
                                uncertainty: dur_to_i64(o.uncertainty),
                                delay: dur_to_i64(o.delay),
                                remote_delay: dur_to_i64(o.remote_delay),
                                remote_uncertainty: dur_to_i64(o.remote_uncertainty),
                            })
                        }
                        Err(p) => {
                            info.panic = Some(("observe", p));
                            self.dead = true;
                        }
                    }
                }
            }
        }
        self.hooks(&mut info);
        Some(info)
    }
}

// ------------------------------------------------------------------ direct drive (mode c)

pub struct Direct {
    rt: tokio::runtime::Runtime,
    pub clock: SimClock,
    pub ctl: Ctl,
    pub call_no: u64,
    helper: Option<(ClockId, TwoWayCtl<SimClock>)>,
}

impl Direct {
    pub fn new(sync: SynchronizationConfig, algo: AlgorithmConfig, kernel_freq: f64, local_start: u64) -> Direct {
        let rt = new_runtime();
        let clock = SimClock::new(local_start, kernel_freq, 0.0);
        let ctl = Ctl::new(clock.clone(), sync, algo).expect("SimClock never fails");
        Direct { rt, clock, ctl, call_no: 0, helper: None }
    }
    fn begin_call(&mut self) {
        self.call_no += 1;
        self.clock.st().call_no = self.call_no;
    }
    fn end_call(&mut self, used: bool) {
        let mut c = self.clock.st();
        c.calls_returned += 1;
        if used && c.first_used_call.is_none() {
            c.first_used_call = Some(c.call_no);
        }
    }
    /// Leave the startup phase the way the daemon does: one real source delivers one benign
    /// measurement (zero offset) and the controller performs its first successful update.
    /// Returns whether that update reported used sources. Requires minimum_agreeing_sources <= 1.
    pub fn leave_startup(&mut self) -> bool {
        let h = self.rt.handle().clone();
        let _g = h.enter();
        let id = ClockId::new();
        let mut src = self.ctl.add_source(id, SourceConfig::default());
        self.ctl.source_update(id, true);
        let now = self.clock.st().now_ts();
        let msg = src.handle_measurement(InternalMeasurement {
            delay: dur_from_i64(ref_raw(0.001)),
            offset: NtpDuration::ZERO,
            localtime: now,
            root_delay: NtpDuration::ZERO,
            root_dispersion: NtpDuration::ZERO,
            leap: NtpLeapIndicator::NoWarning,
            precision: -20,
        });
        let Some(msg) = msg else { return false };
        self.begin_call();
        let upd = self.ctl.source_message(id, msg);
        let used = upd.used_sources.is_some();
        self.end_call(used);
        self.helper = Some((id, src));
        used
    }
    /// advance virtual time (s)
    pub fn advance(&mut self, secs: f64) {
        let mut c = self.clock.st();
        c.t_true += secs_to_units(secs);
    }
    pub fn steer_offset(&mut self, change: f64, freq_delta: f64) -> InternalStateUpdate<KalmanControllerMessage> {
        let h = self.rt.handle().clone();
        let _g = h.enter();
        self.begin_call();
        let r = probe::steer_offset(&mut self.ctl, change, freq_delta);
        self.end_call(false);
        r
    }
    pub fn steer_frequency(&mut self, change: f64) -> InternalStateUpdate<KalmanControllerMessage> {
        let h = self.rt.handle().clone();
        let _g = h.enter();
        self.begin_call();
        let r = probe::steer_frequency(&mut self.ctl, change);
        self.end_call(false);
        r
    }
    pub fn time_update(&mut self) -> InternalStateUpdate<KalmanControllerMessage> {
        let h = self.rt.handle().clone();
        let _g = h.enter();
        self.begin_call();
        let r = self.ctl.time_update();
        self.end_call(false);
        r
    }
}

// ------------------------------------------------------------------ generators shared by the three properties

/// a threshold magnitude in seconds, log-uniform over the range operators use
pub fn gen_threshold_secs(rng: &mut Rng) -> f64 {
    match rng.below(6) {
        0 => 1000.0,
        1 => 86400.0,
        2 => *rng.pick(&[0.5, 1.0, 10.0, 100.0, 3600.0]),
        _ => rng.log_uniform(0.02, 2.0e5),
    }
}

pub fn gen_thr(rng: &mut Rng) -> Thr {
    match rng.below(8) {
        0 => Thr::INF,
        1 => Thr { fwd: None, bwd: Some(ref_raw(gen_threshold_secs(rng))) },
        2 => Thr { fwd: Some(ref_raw(gen_threshold_secs(rng))), bwd: None },
        3 | 4 => Thr { fwd: Some(ref_raw(gen_threshold_secs(rng))), bwd: Some(ref_raw(gen_threshold_secs(rng))) },
        _ => Thr::sym(ref_raw(gen_threshold_secs(rng))),
    }
}

/// Sources that agree with each other around a common remote offset.
pub fn gen_agreeing_sources(rng: &mut Rng, n: usize, common_offset: f64, spread: f64) -> Vec<SrcSpec> {
    (0..n)
        .map(|_| {
            let mut s = SrcSpec::plain(rng.u64());
            s.offset = common_offset + spread * rng.f64_range(-1.0, 1.0);
            s.noise = rng.log_uniform(1e-6, 2e-3);
            s.delay = rng.log_uniform(2e-4, 1.2e-2);
            s.delay_jitter = s.delay * rng.f64_range(0.0, 0.3);
            s.drift = rng.f64_range(-1e-6, 1e-6);
            s.poll = Poll::Fixed(*rng.pick(&[1.0, 2.0, 4.0, 16.0, 64.0]));
            s.root_delay = rng.log_uniform(1e-5, 1e-2);
            s.root_disp = rng.log_uniform(1e-5, 1e-2);
            s.start = rng.f64_range(0.0, 3.0);
            s.usable = vec![(s.start, true)];
            s
        })
        .collect()
}

// ---- frequency-stress workloads (limits of all magnitudes)

pub fn gen_limits(rng: &mut Rng, a: &mut AlgorithmConfig) {
    a.maximum_frequency_steer = match rng.below(4) {
        0 => 495e-6,
        1 => *rng.pick(&[1e-6, 1e-4, 0.01, 0.1, 0.3]),
        _ => rng.log_uniform(1e-9, 0.3),
    };
    a.slew_maximum_frequency_offset = match rng.below(4) {
        0 => 200e-6,
        1 => *rng.pick(&[1e-6, 1e-3, 0.05]),
        _ => rng.log_uniform(1e-9, 0.3),
    };
    a.slew_minimum_duration = match rng.below(3) {
        0 => 8.0,
        _ => rng.log_uniform(1e-3, 1e4),
    };
}

pub fn gen_kernel_freq(rng: &mut Rng, max: f64) -> f64 {
    let s = if rng.bool() { 1.0 } else { -1.0 };
    let f: f64 = match rng.below(8) {
        0 | 1 => 0.0,
        2 => max,
        3 => 10.0 * max,
        4 => 0.1,
        5 => 1e-12,
        6 => max * rng.f64_range(0.0, 1.0),
        _ => max * (1.0 + 1e-12),
    };
    // a kernel cannot report more than a 10 % frequency error (tick adjustment limit)
    s * f.min(0.1)
}


/// Histories that stress the frequency steering (C02; also fed to C06): limits, initial kernel frequency and
/// hardware drift of all magnitudes, ramps, alternating offsets at short spacing, saw-tooth remote steps.
pub fn gen_freq_stress_spec(rng: &mut Rng, max_meas: u64) -> Spec {
    let n = rng.usize(1, 5);
    let mut spec = Spec::basic(0, rng);
    spec.min_agree = rng.usize(1, n.min(3));
    spec.startup = Thr::INF;
    spec.single = Thr::INF;
    spec.accumulated = None;
    gen_limits(rng, &mut spec.algo);
    let max = spec.algo.maximum_frequency_steer;
    spec.kernel_freq = gen_kernel_freq(rng, max);
    spec.hw_drift = match rng.below(5) {
        0 => 0.0,
        1 => rng.f64_range(-1.0, 1.0) * 1e-5,
        2 => (rng.f64_range(-2.0, 2.0) * max).clamp(-0.02, 0.02),
        3 => *rng.pick(&[1e-3, -1e-3, 1e-2, -1e-2]),
        _ => rng.f64_range(-1.0, 1.0) * max * 0.9,
    };
    spec.algo.step_threshold = *rng.pick(&[0.01, 0.01, 1.0, 1e6]);
    spec.algo.steer_offset_threshold = *rng.pick(&[2.0, 2.0, 0.5, 0.0]);
    spec.algo.steer_offset_leftover = *rng.pick(&[1.0, 1.0, 0.0]);
    spec.algo.steer_frequency_threshold = *rng.pick(&[0.0, 0.0, 1.0]);
    let x0 = match rng.below(3) {
        0 => 0.0,
        1 => rng.f64_range(-0.009, 0.009),
        _ => rng.f64_range(-1.0, 1.0) * rng.log_uniform(1e-3, 100.0),
    };
    spec.sources = gen_agreeing_sources(rng, n, x0, 2e-4);
    let scenario = rng.below(5);
    let common_drift = match rng.below(4) {
        0 => 0.0,
        1 => rng.f64_range(-1.0, 1.0) * 1e-4,
        2 => (rng.f64_range(-3.0, 3.0) * max).clamp(-0.02, 0.02),
        _ => *rng.pick(&[1e-2, -1e-2, 1e-3, -1e-3]),
    };
    let poll = *rng.pick(&[0.0015, 0.01, 0.25, 1.0, 2.0, 16.0]);
    for s in spec.sources.iter_mut() {
        s.drift += common_drift;
        s.poll = Poll::Fixed(poll * rng.f64_range(0.9, 1.1));
        match scenario {
            0 => {}
            1 => {
                // alternating offsets at short spacing: extreme apparent frequencies
                s.noise_kind = 1;
                s.noise = rng.log_uniform(1e-5, 5e-2);
            }
            2 => {
                // saw-tooth: remote steps back and forth
                let amp = rng.log_uniform(1e-3, 0.2);
                let mut t = 20.0;
                let mut sgn = 1.0;
                for _ in 0..6 {
                    s.steps.push((t, sgn * amp));
                    sgn = -sgn;
                    t += rng.f64_range(5.0, 60.0);
                }
            }
            3 => {
                s.poll = Poll::Desired;
            }
            _ => {
                s.noise_kind = 2;
            }
        }
    }
    spec.max_meas = max_meas;
    spec.duration = 1e7;
    spec
}

