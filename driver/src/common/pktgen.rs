//! E-FUZZ — byte-level generators shared by the parser properties (C23, C24, C25, C26, C27).
//!
//! Everything here builds *bytes* with its own encoder (fixed offsets, `refntp::encode_field`)
//! and its own use of the AES-SIV primitive (through the hook `siv_encrypt`, which calls the
//! `aes-siv` crate directly with a caller-chosen nonce): nothing goes through the encoder of
//! the code under test, so the generators can produce layouts the real encoder never emits
//! (lying length fields, valid AEAD layers around hostile plaintext, odd nonce sizes, padding
//! inside the authenticator, trailing fields and legacy MAC tails).
//!
//! Key contexts: `Ctx::None` (NoCipher), `Ctx::Client` (the session's s2c cipher),
//! `Ctx::Server` (a `KeySet` whose key material is known to the generator because it was
//! loaded from bytes written here).

use std::sync::Arc;

use crate::common::refntp::{
    self, EF_NTS_AUTH, EF_NTS_COOKIE, EF_NTS_PLACEHOLDER, EF_UNIQUE_ID, EF_V5_DRAFT_ID, EF_V5_PADDING,
    EF_V5_REFID_REQ, EF_V5_REFID_RESP, encode_field,
};
use crate::core::Rng;
use ntp_proto::verif::packet::a6 as hk;
use ntp_proto::verif::pkt as hp;
use ntp_proto::{Cipher, DecodedServerCookie, KeySet, KeySetProvider, NoCipher, NtpPacket, PacketParsingError};

pub const AEAD_256: u16 = 15;
pub const AEAD_512: u16 = 17;

#[derive(Clone, Debug)]
pub struct SessionKeys {
    pub alg: u16,
    pub s2c: Vec<u8>,
    pub c2s: Vec<u8>,
}

impl SessionKeys {
    pub fn random(rng: &mut Rng, alg: u16) -> SessionKeys {
        let w = if alg == AEAD_512 { 64 } else { 32 };
        SessionKeys {
            alg,
            s2c: rng.bytes(w),
            c2s: rng.bytes(w),
        }
    }
    /// RFC 8915 does not fix the cookie format; this is the layout ntpd-rs documents in
    /// `DecodedServerCookie::plaintext`: AEAD id, s2c key, c2s key.
    pub fn cookie_plaintext(&self) -> Vec<u8> {
        let mut v = self.alg.to_be_bytes().to_vec();
        v.extend_from_slice(&self.s2c);
        v.extend_from_slice(&self.c2s);
        v
    }
}

/// The key-file layout (`KeySetProvider::store`): u64 unix seconds, u32 id_offset, u32 primary,
/// u32 number of keys, then 64 bytes per key.
pub fn keyfile_bytes(time: u64, id_offset: u32, primary: u32, keys: &[Vec<u8>]) -> Vec<u8> {
    let mut v = Vec::with_capacity(20 + 64 * keys.len());
    v.extend_from_slice(&time.to_be_bytes());
    v.extend_from_slice(&id_offset.to_be_bytes());
    v.extend_from_slice(&primary.to_be_bytes());
    v.extend_from_slice(&(keys.len() as u32).to_be_bytes());
    for k in keys {
        v.extend_from_slice(k);
    }
    v
}

#[derive(Clone, Debug, PartialEq, Eq)]
pub struct KeyFile {
    pub time: u64,
    pub id_offset: u32,
    pub primary: u32,
    pub len: u32,
    pub keys: Vec<Vec<u8>>,
}

/// Lenient reader of the key-file layout (whatever complete keys are there).
pub fn parse_keyfile(b: &[u8]) -> Option<KeyFile> {
    if b.len() < 20 {
        return None;
    }
    let u32at = |o: usize| u32::from_be_bytes([b[o], b[o + 1], b[o + 2], b[o + 3]]);
    let mut keys = Vec::new();
    let mut off = 20;
    while off + 64 <= b.len() {
        keys.push(b[off..off + 64].to_vec());
        off += 64;
    }
    Some(KeyFile {
        time: u64::from_be_bytes(b[0..8].try_into().unwrap()),
        id_offset: u32at(8),
        primary: u32at(12),
        len: u32at(16),
        keys,
    })
}

pub fn stored_bytes(p: &KeySetProvider) -> Vec<u8> {
    let mut v = Vec::new();
    p.store(&mut v).expect("store into a Vec cannot fail");
    v
}

/// A server key set whose key material the generator knows.
pub struct ServerKeys {
    pub provider: KeySetProvider,
    pub keyset: Arc<KeySet>,
    pub keys: Vec<Vec<u8>>,
    pub id_offset: u32,
    pub primary: u32,
}

impl ServerKeys {
    pub fn from_parts(keys: Vec<Vec<u8>>, id_offset: u32, primary: u32, history: usize) -> Option<ServerKeys> {
        let bytes = keyfile_bytes(1_700_000_000, id_offset, primary, &keys);
        let (provider, _) = KeySetProvider::load(&mut &bytes[..], history).ok()?;
        let keyset = provider.get();
        Some(ServerKeys {
            provider,
            keyset,
            keys,
            id_offset,
            primary,
        })
    }
    pub fn random(rng: &mut Rng) -> ServerKeys {
        let n = rng.usize(1, 4);
        let keys: Vec<Vec<u8>> = (0..n).map(|_| rng.bytes(64)).collect();
        let id_offset = match rng.below(4) {
            0 => 0,
            1 => u32::MAX - rng.below(3) as u32,
            _ => rng.u32(),
        };
        let primary = (n - 1) as u32;
        ServerKeys::from_parts(keys, id_offset, primary, 3).expect("well-formed key file must load")
    }
    /// Seal arbitrary plaintext as a cookie under key `index` (own encoder, real AES-SIV-CMAC-512).
    pub fn seal_cookie(&self, rng: &mut Rng, index: usize, plaintext: &[u8]) -> Vec<u8> {
        let nonce = rng.bytes(16);
        let ct = hk::siv_encrypt(&self.keys[index], &nonce, &[], plaintext).expect("siv");
        let id = (index as u32).wrapping_add(self.id_offset);
        let mut v = id.to_be_bytes().to_vec();
        v.extend_from_slice(&(ct.len() as u16).to_be_bytes());
        v.extend_from_slice(&nonce);
        v.extend_from_slice(&ct);
        v
    }
}

#[derive(Clone, Copy, Debug, PartialEq, Eq, Hash)]
pub enum Ctx {
    None,
    Client,
    Server,
}

pub const ALL_CTX: [Ctx; 3] = [Ctx::None, Ctx::Client, Ctx::Server];

pub struct World {
    pub server: ServerKeys,
    pub session: SessionKeys,
    /// valid cookie for `session` under the server's primary key (sealed by the generator)
    pub cookie: Vec<u8>,
    pub client_cipher: Box<dyn Cipher>,
    pub draft: &'static str,
}

impl World {
    pub fn new(rng: &mut Rng) -> World {
        let server = ServerKeys::random(rng);
        let alg = if rng.bool() { AEAD_256 } else { AEAD_512 };
        World::with(rng, server, alg)
    }
    pub fn with(rng: &mut Rng, server: ServerKeys, alg: u16) -> World {
        let session = SessionKeys::random(rng, alg);
        let cookie = server.seal_cookie(rng, server.primary as usize, &session.cookie_plaintext());
        let client_cipher = hk::cipher_from_key(&session.s2c).expect("session key size");
        World {
            server,
            session,
            cookie,
            client_cipher,
            draft: hk::draft_version(),
        }
    }

    /// Decode `data` in a key context and hand the result to `f`.
    pub fn decode<R>(
        &self,
        ctx: Ctx,
        data: &[u8],
        f: impl FnOnce(Result<(NtpPacket<'_>, Option<DecodedServerCookie>), PacketParsingError<'_>>) -> R,
    ) -> R {
        match ctx {
            Ctx::None => f(NtpPacket::deserialize(data, &NoCipher)),
            Ctx::Client => f(NtpPacket::deserialize(data, self.client_cipher.as_ref())),
            Ctx::Server => f(NtpPacket::deserialize(data, self.server.keyset.as_ref())),
        }
    }
}

// ---------------------------------------------------------------------------------------------
// headers

pub fn header(rng: &mut Rng, version: u8, sane: bool) -> Vec<u8> {
    let mut h = rng.bytes(48);
    let mode = if sane { *rng.pick(&[3u8, 4]) } else { rng.below(8) as u8 };
    h[0] = ((rng.below(4) as u8) << 6) | ((version & 7) << 3) | mode;
    if rng.chance(1, 4) {
        h[1] = *rng.pick(&[0u8, 1, 2, 15, 16, 255]);
    }
    if rng.chance(1, 4) {
        h[2] = *rng.pick(&[0u8, 4, 10, 17, 127, 128, 255]);
    }
    if rng.chance(1, 3) {
        // boundary values of root delay / dispersion
        let v = *rng.pick(&[0u32, 1, 0xFFFF, 0x10000, 0x7FFF_FFFF, 0x8000_0000, u32::MAX]);
        let o = if rng.bool() { 4 } else { 8 };
        h[o..o + 4].copy_from_slice(&v.to_be_bytes());
    }
    if version == 5 && sane {
        h[12] = rng.below(4) as u8;
        h[14] = 0;
        h[15] = rng.below(8) as u8;
    } else if version == 5 && rng.chance(3, 4) {
        // mostly valid so that the extension fields are reached
        h[0] = (h[0] & !7) | *rng.pick(&[3u8, 4]);
        h[12] = rng.below(5) as u8;
        h[14] = if rng.chance(1, 8) { 1 } else { 0 };
        h[15] = if rng.chance(1, 8) { rng.u8() } else { rng.below(8) as u8 };
    }
    if version == 4 && rng.chance(1, 6) {
        h[16..24].copy_from_slice(b"NTP5DRFT");
    }
    h
}

// ---------------------------------------------------------------------------------------------
// extension fields

pub const N_KINDS: u8 = 12;
pub const KIND_NAMES: [&str; N_KINDS as usize] = [
    "unique-id",
    "cookie",
    "placeholder",
    "unknown",
    "draft-id",
    "padding",
    "refid-req",
    "refid-resp",
    "auth-garbage",
    "empty",
    "big",
    "lying-length",
];

/// One encoded extension field of the given kind. `sane` keeps to what a correct peer could send
/// (right sizes, zero placeholders, multiple-of-4 reference-id requests are NOT enforced: the
/// draft allows any length on the wire and the decoder is the judge of acceptance).
pub fn field(rng: &mut Rng, w: &World, v5: bool, kind: u8, sane: bool) -> Vec<u8> {
    let small_len = |rng: &mut Rng| -> usize {
        match rng.below(6) {
            0 => rng.usize(0, 8),
            1 => *rng.pick(&[12usize, 16, 20, 24, 28, 32]),
            2 => rng.usize(0, 40),
            3 => rng.usize(0, 100),
            _ => 4 * rng.usize(0, 16),
        }
    };
    match kind {
        0 => {
            let n = if sane || rng.chance(3, 4) { 32 } else { small_len(rng) };
            encode_field(EF_UNIQUE_ID, &rng.bytes(n), v5, None)
        }
        1 => {
            let mut c = match rng.below(if sane { 1 } else { 6 }) {
                0 => w.cookie.clone(),
                1 => {
                    // re-sealed under another (possibly non-primary) key
                    let i = rng.below(w.server.keys.len() as u64) as usize;
                    w.server.seal_cookie(rng, i, &w.session.cookie_plaintext())
                }
                2 => {
                    // valid AEAD layer around hostile cookie plaintext
                    let pt = hostile_cookie_plaintext(rng, &w.session);
                    w.server.seal_cookie(rng, w.server.primary as usize, &pt)
                }
                3 => {
                    let mut c = w.cookie.clone();
                    let i = rng.below(c.len() as u64) as usize;
                    c[i] ^= 1 << rng.below(8);
                    c
                }
                4 => {
                    let mut c = w.cookie.clone();
                    c.truncate(rng.below(c.len() as u64 + 1) as usize);
                    c
                }
                _ => {
                    let n = small_len(rng);
                    rng.bytes(n)
                }
            };
            if !sane && rng.chance(1, 8) {
                let n = rng.usize(1, 9);
                c.extend(rng.bytes(n));
            }
            encode_field(EF_NTS_COOKIE, &c, v5, None)
        }
        2 => {
            let n = if sane { w.cookie.len() } else { small_len(rng) };
            let mut z = vec![0u8; n];
            if !sane && n > 0 && rng.chance(1, 5) {
                let i = rng.below(n as u64) as usize;
                z[i] = rng.u8() | 1;
            }
            encode_field(EF_NTS_PLACEHOLDER, &z, v5, None)
        }
        3 => {
            let t = match rng.below(5) {
                0 => rng.u16(),
                1 => *rng.pick(&[0u16, 1, 0x0004, 0x0103, 0x0105, 0x0203, 0x0405, 0xF500, 0xF502, 0xF505, 0xFFFF]),
                2 => 0x2000 + rng.below(16) as u16,
                // v5-only types inside a v4 packet and vice versa end up here as well
                3 => *rng.pick(&[EF_V5_DRAFT_ID, EF_V5_PADDING, EF_V5_REFID_REQ, EF_V5_REFID_RESP]),
                _ => 0x4000 | rng.u16(),
            };
            let t = if t == EF_NTS_AUTH { 0x0405 } else if t == EF_NTS_COOKIE { 0x0205 } else { t };
            // in well-formed packets an "unknown" field really is of a type the decoder does not interpret
            let known = [EF_UNIQUE_ID, EF_NTS_COOKIE, EF_NTS_PLACEHOLDER, EF_NTS_AUTH, EF_V5_DRAFT_ID, EF_V5_PADDING, EF_V5_REFID_REQ, EF_V5_REFID_RESP];
            let t = if sane && known.contains(&t) { 0x7000 | (t & 0xFF) } else { t };
            let n = small_len(rng);
            encode_field(t, &rng.bytes(n), v5, None)
        }
        4 => {
            let s: Vec<u8> = if sane || rng.chance(2, 3) {
                w.draft.as_bytes().to_vec()
            } else {
                match rng.below(5) {
                    0 => b"draft-ietf-ntp-ntpv5-00".to_vec(),
                    1 => {
                        let mut s = w.draft.as_bytes().to_vec();
                        s.push(0);
                        s
                    }
                    2 => {
                        let mut s = w.draft.as_bytes().to_vec();
                        let i = rng.below(s.len() as u64) as usize;
                        s[i] = rng.u8();
                        s
                    }
                    3 => Vec::new(),
                    _ => {
                        let n = small_len(rng);
                        rng.bytes(n)
                    }
                }
            };
            encode_field(EF_V5_DRAFT_ID, &s, v5, None)
        }
        5 => {
            let n = small_len(rng);
            let z = if rng.chance(1, 6) { rng.bytes(n) } else { vec![0u8; n] };
            encode_field(EF_V5_PADDING, &z, v5, None)
        }
        6 => {
            // reference-id request: u16 offset, then filler; every payload length 0..=40 and some big ones
            let n = match rng.below(4) {
                0 => rng.usize(0, 12),
                1 => rng.usize(0, 40),
                2 => 4 * rng.usize(1, 32),
                _ => *rng.pick(&[2usize, 3, 4, 5, 6, 7, 8, 508, 512, 516]),
            };
            // what a correct peer sends: whole words, at least the offset word
            let n = if sane { 4 * rng.usize(1, 16) } else { n };
            let mut v = if rng.bool() { vec![0u8; n] } else { rng.bytes(n) };
            if n >= 2 {
                let off = match rng.below(3) {
                    0 => 0u16,
                    1 => 4 * rng.below(128) as u16,
                    _ => rng.u16(),
                };
                v[0..2].copy_from_slice(&off.to_be_bytes());
            }
            encode_field(EF_V5_REFID_REQ, &v, v5, None)
        }
        7 => {
            let n = match rng.below(4) {
                0 => rng.usize(0, 12),
                1 => rng.usize(0, 64),
                2 => 4 * rng.usize(0, 32),
                _ => *rng.pick(&[0usize, 1, 2, 3, 508, 511, 512, 513, 516]),
            };
            encode_field(EF_V5_REFID_RESP, &rng.bytes(n), v5, None)
        }
        8 => {
            // an authenticator-typed field with arbitrary content (lying nonce/ciphertext lengths)
            let n = small_len(rng);
            let mut v = rng.bytes(n);
            if n >= 4 && rng.chance(3, 4) {
                let nl = *rng.pick(&[0u16, 1, 15, 16, 17, 32, 0xFFFF, n as u16, (n as u16).wrapping_sub(4)]);
                let cl = *rng.pick(&[0u16, 1, 15, 16, 17, 32, 0xFFFF, n as u16, (n as u16).wrapping_sub(4), (n as u16).wrapping_sub(20)]);
                v[0..2].copy_from_slice(&nl.to_be_bytes());
                v[2..4].copy_from_slice(&cl.to_be_bytes());
            }
            encode_field(EF_NTS_AUTH, &v, v5, None)
        }
        9 => {
            // header-only field (length 4), any type
            let t = *rng.pick(&[EF_UNIQUE_ID, EF_NTS_COOKIE, EF_NTS_PLACEHOLDER, EF_V5_DRAFT_ID, EF_V5_PADDING, EF_V5_REFID_REQ, EF_V5_REFID_RESP, 0x7777]);
            encode_field(t, &[], v5, None)
        }
        10 => {
            let n = *rng.pick(&[200usize, 508, 512, 1000, 1020, 2044, 3000]);
            let t = *rng.pick(&[EF_UNIQUE_ID, EF_NTS_COOKIE, EF_NTS_PLACEHOLDER, EF_V5_PADDING, EF_V5_REFID_RESP, 0x7777]);
            let v = if t == EF_NTS_PLACEHOLDER || rng.bool() { vec![0u8; n] } else { rng.bytes(n) };
            encode_field(t, &v, v5, None)
        }
        _ => {
            // length field lies about the value
            let n = small_len(rng);
            let real = 4 + n;
            let lie = match rng.below(8) {
                0 => 0u16,
                1 => rng.below(4) as u16,
                2 => (real as u16).wrapping_sub(1 + rng.below(4) as u16),
                3 => real as u16 + 1 + rng.below(4) as u16,
                4 => *rng.pick(&[4u16, 5, 7, 8, 15, 16, 17, 24, 27, 28, 29]),
                5 => *rng.pick(&[0x7FFF, 0x8000, 0xFFFC, 0xFFFD, 0xFFFE, 0xFFFF]),
                6 => real as u16 + 4 * rng.below(8) as u16,
                _ => rng.u16(),
            };
            let t = *rng.pick(&[EF_UNIQUE_ID, EF_NTS_COOKIE, EF_NTS_PLACEHOLDER, EF_NTS_AUTH, EF_V5_DRAFT_ID, EF_V5_REFID_REQ, EF_V5_REFID_RESP, 0x7777]);
            encode_field(t, &rng.bytes(n), v5, Some(lie))
        }
    }
}

pub fn hostile_cookie_plaintext(rng: &mut Rng, s: &SessionKeys) -> Vec<u8> {
    let good = s.cookie_plaintext();
    match rng.below(8) {
        0 => Vec::new(),
        1 => vec![rng.u8()],
        2 => good[..2].to_vec(),
        3 => {
            // other algorithm id with these key bytes
            let mut v = good.clone();
            let a = *rng.pick(&[0u16, 14, 15, 16, 17, 18, 0xFFFF]);
            v[0..2].copy_from_slice(&a.to_be_bytes());
            v
        }
        4 => {
            let mut v = good.clone();
            v.truncate(rng.below(v.len() as u64) as usize);
            v
        }
        5 => {
            let mut v = good.clone();
            let n = rng.usize(1, 70);
            v.extend(rng.bytes(n));
            v
        }
        6 => {
            // right size for the *other* algorithm
            let a = if s.alg == AEAD_256 { AEAD_512 } else { AEAD_256 };
            let w = if a == AEAD_512 { 128 } else { 64 };
            let mut v = a.to_be_bytes().to_vec();
            v.extend(rng.bytes(w));
            v
        }
        _ => {
            let n = rng.usize(0, 200);
            rng.bytes(n)
        }
    }
}

/// A run of `n` fields of random kinds; returns the encoded fields and the kinds used.
pub fn fields(rng: &mut Rng, w: &World, v5: bool, n: usize, sane: bool, allow: &[u8]) -> (Vec<Vec<u8>>, Vec<u8>) {
    let mut out = Vec::new();
    let mut kinds = Vec::new();
    for _ in 0..n {
        let k = *rng.pick(allow);
        out.push(field(rng, w, v5, k, sane));
        kinds.push(k);
    }
    (out, kinds)
}

pub fn mac_tail(rng: &mut Rng) -> Vec<u8> {
    let n = match rng.below(6) {
        0 => 4usize,
        1 => 20,
        2 => 24,
        3 => rng.usize(4, 24),
        4 => 4 * rng.usize(1, 6),
        _ => rng.usize(1, 30),
    };
    rng.bytes(n)
}

/// Kinds that never make a NoCipher decode fail by themselves in a well-formed packet.
pub const PLAIN_KINDS: [u8; 10] = [0, 1, 2, 3, 4, 5, 6, 7, 9, 10];
pub const ALL_KINDS: [u8; 12] = [0, 1, 2, 3, 4, 5, 6, 7, 8, 9, 10, 11];

/// A structurally well-formed packet without authenticator (what C24 mostly wants):
/// header, 0-6 fields of every type, v5 gets a draft-id field somewhere, v3/v4 may get a MAC tail.
/// Returns the bytes and the kinds of the fields used (shape).
pub fn plain_packet(rng: &mut Rng, w: &World, version: u8) -> (Vec<u8>, Vec<u8>) {
    let mut b = header(rng, version, true);
    let v5 = version == 5;
    let mut kinds = Vec::new();
    if version != 3 || rng.chance(1, 10) {
        let n = match rng.below(4) {
            0 => 0,
            1 => 1,
            _ => rng.usize(1, 6),
        };
        let sane = rng.chance(1, 2);
        let (mut fs, ks) = fields(rng, w, v5, n, sane, &PLAIN_KINDS);
        kinds = ks;
        if v5 && rng.chance(9, 10) {
            let at = rng.below(fs.len() as u64 + 1) as usize;
            fs.insert(at, encode_field(EF_V5_DRAFT_ID, w.draft.as_bytes(), true, None));
            kinds.insert(at, 4);
        }
        for f in fs {
            b.extend(f);
        }
    }
    if !v5 && rng.chance(1, 3) {
        b.extend(mac_tail(rng));
        kinds.push(100);
    }
    (b, kinds)
}

// ---------------------------------------------------------------------------------------------
// NTS packets (own encoder, real AEAD)

#[derive(Clone, Debug)]
pub struct NtsSpec {
    pub version: u8,
    /// request (mode 3, sealed with c2s, carries the cookie) or response (mode 4, sealed with s2c)
    pub request: bool,
    /// extra authenticated fields besides unique id (+cookie for requests, + draft id for v5)
    pub pre_extra: usize,
    /// number of fields inside the ciphertext (ignored when `inner_raw` is set)
    pub inner: usize,
    /// hostile plaintext instead of well-formed fields
    pub inner_raw: Option<Vec<u8>>,
    /// fields after the authenticator
    pub post: usize,
    pub nonce_len: usize,
    /// extra zero bytes at the end of the authenticator field (multiple of 4)
    pub extra_pad: usize,
    /// seal with this key instead of the direction's key
    pub key_override: Option<Vec<u8>>,
    pub mac_tail: bool,
    pub sane: bool,
}

#[derive(Clone, Debug)]
pub struct NtsBuilt {
    pub bytes: Vec<u8>,
    pub spec: NtsSpec,
    pub kinds: Vec<u8>,
}

/// The authenticator of `bytes` as seen by the reference parser: offsets of the byte regions.
#[derive(Clone, Debug, PartialEq, Eq)]
pub struct NtsLayout {
    /// offset of the authenticator field header
    pub auth_off: usize,
    /// nonce bytes [start, end)
    pub nonce: (usize, usize),
    /// ciphertext bytes [start, end)
    pub ct: (usize, usize),
    /// end of the authenticator field (padded)
    pub auth_end: usize,
    /// type ids of the fields before the authenticator
    pub pre_types: Vec<u16>,
}

pub fn nts_layout(bytes: &[u8]) -> Option<NtsLayout> {
    let p = refntp::parse(bytes)?;
    let mut pre_types = Vec::new();
    for f in &p.fields {
        if f.type_id == EF_NTS_AUTH {
            if f.value.len() < 4 {
                return None;
            }
            let nl = u16::from_be_bytes([f.value[0], f.value[1]]) as usize;
            let cl = u16::from_be_bytes([f.value[2], f.value[3]]) as usize;
            let nstart = f.offset + 8;
            let cstart = nstart + ((nl + 3) & !3);
            if cstart + cl > f.offset + f.length as usize {
                return None;
            }
            return Some(NtsLayout {
                auth_off: f.offset,
                nonce: (nstart, nstart + nl),
                ct: (cstart, cstart + cl),
                auth_end: f.offset + ((f.length as usize + 3) & !3),
                pre_types,
            });
        }
        pre_types.push(f.type_id);
    }
    None
}

/// Encode an authenticator field: nonce and ciphertext each zero-padded to 4 (RFC 8915 5.6).
pub fn auth_field(nonce: &[u8], ct: &[u8], extra_pad: usize, v5: bool) -> Vec<u8> {
    let mut v = Vec::new();
    v.extend_from_slice(&(nonce.len() as u16).to_be_bytes());
    v.extend_from_slice(&(ct.len() as u16).to_be_bytes());
    v.extend_from_slice(nonce);
    v.resize((v.len() + 3) & !3, 0);
    v.extend_from_slice(ct);
    v.resize((v.len() + 3) & !3, 0);
    v.resize(v.len() + extra_pad, 0);
    encode_field(EF_NTS_AUTH, &v, v5, None)
}

pub fn random_spec(rng: &mut Rng, sane: bool) -> NtsSpec {
    NtsSpec {
        version: if rng.bool() { 4 } else { 5 },
        request: rng.bool(),
        pre_extra: rng.usize(0, 3),
        inner: rng.usize(0, 3),
        inner_raw: None,
        post: if rng.chance(1, 3) { rng.usize(1, 2) } else { 0 },
        nonce_len: 16,
        extra_pad: if rng.chance(1, 4) { 4 * rng.usize(1, 3) } else { 0 },
        key_override: None,
        mac_tail: false,
        sane,
    }
}

pub fn nts_packet(rng: &mut Rng, w: &World, spec: NtsSpec) -> NtsBuilt {
    let v5 = spec.version == 5;
    let mut b = header(rng, spec.version, true);
    b[0] = (b[0] & !7) | if spec.request { 3 } else { 4 };
    let mut kinds = Vec::new();
    // authenticated part
    let mut pre: Vec<Vec<u8>> = vec![encode_field(EF_UNIQUE_ID, &rng.bytes(32), v5, None)];
    if spec.request {
        pre.push(encode_field(EF_NTS_COOKIE, &w.cookie, v5, None));
    }
    let extra_kinds: &[u8] = if spec.request { &[2, 3, 5, 6] } else { &[3, 5, 7] };
    for _ in 0..spec.pre_extra {
        let k = *rng.pick(extra_kinds);
        // in the authenticated part a second cookie would make the server refuse: keep kinds apart
        pre.push(field(rng, w, v5, k, spec.sane));
        kinds.push(k);
    }
    let draft_in_post = v5 && rng.chance(1, 4);
    if v5 && !draft_in_post {
        let at = rng.below(pre.len() as u64 + 1) as usize;
        pre.insert(at, encode_field(EF_V5_DRAFT_ID, w.draft.as_bytes(), true, None));
    }
    for f in &pre {
        b.extend_from_slice(f);
    }
    // encrypted part
    let plaintext = match &spec.inner_raw {
        Some(r) => r.clone(),
        None => {
            let mut p = Vec::new();
            let inner_kinds: &[u8] = if spec.request { &[2, 3] } else { &[1, 3] };
            for _ in 0..spec.inner {
                let k = *rng.pick(inner_kinds);
                let f = if k == 1 {
                    // a fresh cookie from the server (opaque to the client)
                    let c = w.server.seal_cookie(rng, w.server.primary as usize, &w.session.cookie_plaintext());
                    encode_field(EF_NTS_COOKIE, &c, v5, None)
                } else {
                    field(rng, w, v5, k, spec.sane)
                };
                p.extend(f);
                kinds.push(20 + k);
            }
            p
        }
    };
    let key = spec
        .key_override
        .clone()
        .unwrap_or_else(|| if spec.request { w.session.c2s.clone() } else { w.session.s2c.clone() });
    let nonce = rng.bytes(spec.nonce_len);
    let ct = hk::siv_encrypt(&key, &nonce, &b, &plaintext).expect("siv");
    b.extend(auth_field(&nonce, &ct, spec.extra_pad, v5));
    // untrusted tail
    let mut post_n = spec.post;
    if draft_in_post {
        b.extend(encode_field(EF_V5_DRAFT_ID, w.draft.as_bytes(), true, None));
    }
    while post_n > 0 {
        let k = *rng.pick(&[0u8, 3, 5, 7]);
        let mut f = field(rng, w, v5, k, spec.sane);
        if !v5 && f.len() < 28 {
            // keep the last v4 field from being read as a legacy MAC
            f = encode_field(0x7777, &rng.bytes(24), false, None);
        }
        b.extend(f);
        kinds.push(40 + k);
        post_n -= 1;
    }
    if spec.mac_tail && !v5 {
        b.extend(mac_tail(rng));
    }
    NtsBuilt { bytes: b, spec, kinds }
}

// ---------------------------------------------------------------------------------------------
// hostile transformations

pub fn raw(rng: &mut Rng) -> Vec<u8> {
    let n = match rng.below(10) {
        0 => rng.usize(0, 4),
        1 => rng.usize(44, 52),
        2 => rng.usize(48, 80),
        3 => rng.usize(0, 200),
        4 => *rng.pick(&[0usize, 1, 47, 48, 49, 51, 52, 68, 72, 76, 1024, 4095, 4096]),
        5 => rng.usize(0, 4096),
        _ => rng.usize(48, 400),
    };
    let mut v = rng.bytes(n);
    if n > 0 && rng.chance(7, 8) {
        let ver = *rng.pick(&[3u8, 4, 4, 5, 5, 5]);
        v[0] = (v[0] & !0x38) | (ver << 3);
        if ver == 5 && n >= 16 && rng.chance(7, 8) {
            v[0] = (v[0] & !7) | 3 + (rng.below(2) as u8);
            v[12] = rng.below(4) as u8;
            v[14] = 0;
            v[15] &= 7;
        }
    }
    v
}

/// Random structure-blind mutation (bit flips, byte sets, chunk insert/delete/duplicate, truncate, extend).
pub fn mutate(rng: &mut Rng, v: &mut Vec<u8>) {
    let rounds = rng.usize(1, 4);
    for _ in 0..rounds {
        if v.is_empty() {
            v.extend(rng.bytes(4));
            continue;
        }
        let n = v.len();
        match rng.below(9) {
            0 => {
                let i = rng.below(n as u64) as usize;
                v[i] ^= 1 << rng.below(8);
            }
            1 => {
                let i = rng.below(n as u64) as usize;
                v[i] = *rng.pick(&[0u8, 1, 3, 4, 0x7F, 0x80, 0xFF]);
            }
            2 => {
                v.truncate(rng.below(n as u64 + 1) as usize);
            }
            3 => {
                let k = rng.usize(1, 32);
                v.extend(rng.bytes(k));
            }
            4 => {
                let i = rng.below(n as u64) as usize;
                let k = rng.usize(1, 16).min(n - i);
                v.drain(i..i + k);
            }
            5 => {
                let i = rng.below(n as u64 + 1) as usize;
                let k = rng.usize(1, 16);
                let ins = rng.bytes(k);
                v.splice(i..i, ins);
            }
            6 => {
                // duplicate a 4-aligned chunk after the header
                if n > 52 {
                    let i = 48 + 4 * rng.below(((n - 48) / 4) as u64) as usize;
                    let k = (4 * rng.usize(1, 16)).min(n - i);
                    let chunk = v[i..i + k].to_vec();
                    v.splice(i..i, chunk);
                }
            }
            7 => {
                // overwrite a 16-bit word at a 2-aligned offset after the header with a boundary value
                if n >= 52 {
                    let i = 48 + 2 * rng.below(((n - 48) / 2) as u64) as usize;
                    if i + 2 <= n {
                        let val = boundary_u16(rng, n - i);
                        v[i..i + 2].copy_from_slice(&val.to_be_bytes());
                    }
                }
            }
            _ => {
                // change the version
                v[0] = (v[0] & !0x38) | ((rng.below(8) as u8) << 3);
            }
        }
        if v.len() > 4096 {
            v.truncate(4096);
        }
    }
}

fn boundary_u16(rng: &mut Rng, remaining: usize) -> u16 {
    let r = remaining as i64;
    let c = [0, 1, 3, 4, 5, 7, 8, 12, 15, 16, 17, 20, 24, 27, 28, 29, r - 25, r - 24, r - 23, r - 5, r - 4, r - 3, r - 1, r, r + 1, r + 3, r + 4, 0x7FFF, 0x8000, 0xFFFC, 0xFFFF];
    (*rng.pick(&c)).clamp(0, 0xFFFF) as u16
}

/// Length-field-boundary transformation: walk the TLV area with the reference parser, pick one
/// field and set its length field (or, for an authenticator, its nonce/ciphertext length) to a
/// boundary value relative to the bytes that remain; or cut the datagram at a boundary position.
pub fn boundary(rng: &mut Rng, v: &mut Vec<u8>) {
    let Some(p) = refntp::parse(v) else {
        v.truncate(rng.below(v.len() as u64 + 1) as usize);
        return;
    };
    let n = v.len();
    if p.fields.is_empty() || rng.chance(1, 4) {
        let cuts = [0i64, 1, 47, 48, 49, 50, 51, 52, 56, 64, 72, 76, n as i64 - 25, n as i64 - 24, n as i64 - 23, n as i64 - 5, n as i64 - 4, n as i64 - 3, n as i64 - 1];
        let c = (*rng.pick(&cuts)).clamp(0, n as i64) as usize;
        v.truncate(c);
        return;
    }
    let f = rng.pick(&p.fields).clone();
    let remaining = n - f.offset;
    if f.type_id == EF_NTS_AUTH && f.value.len() >= 4 && rng.bool() {
        let o = f.offset + 4 + 2 * rng.below(2) as usize;
        let val = boundary_u16(rng, f.value.len().saturating_sub(4));
        v[o..o + 2].copy_from_slice(&val.to_be_bytes());
    } else {
        let val = boundary_u16(rng, remaining);
        v[f.offset + 2..f.offset + 4].copy_from_slice(&val.to_be_bytes());
    }
    if rng.chance(1, 4) {
        let cut = (f.offset as i64 + *rng.pick(&[2i64, 4, 5, 8, 12, 16, 28])).clamp(0, n as i64) as usize;
        v.truncate(cut);
    }
}

// ---------------------------------------------------------------------------------------------
// one input of a named class (C23's workload; also usable as a corpus seed)

pub const CLASS_NAMES: [&str; 10] = [
    "raw",
    "grammar-plain",
    "grammar-hostile-fields",
    "nts-valid",
    "nts-hostile-plaintext",
    "nts-odd-layout",
    "hostile-cookie",
    "boundary",
    "mutated",
    "nts-wrong-key",
];

pub fn hostile_plaintext(rng: &mut Rng, w: &World, v5: bool) -> Vec<u8> {
    match rng.below(7) {
        0 => {
            let n = rng.usize(0, 64);
            rng.bytes(n)
        }
        1 => {
            // fields with lying lengths / every kind, also a nested authenticator
            let n = rng.usize(1, 4);
            let (fs, _) = fields(rng, w, v5, n, false, &ALL_KINDS);
            fs.concat()
        }
        2 => {
            // truncated field sequence
            let n = rng.usize(1, 3);
            let (fs, _) = fields(rng, w, v5, n, false, &PLAIN_KINDS);
            let mut p = fs.concat();
            p.truncate(rng.below(p.len() as u64 + 1) as usize);
            p
        }
        3 => {
            let n = rng.usize(0, 40);
            vec![0u8; n]
        }
        4 => {
            // one field header with a boundary length and little data
            let t = *rng.pick(&[EF_UNIQUE_ID, EF_NTS_COOKIE, EF_NTS_PLACEHOLDER, EF_NTS_AUTH, EF_V5_DRAFT_ID, EF_V5_REFID_REQ, EF_V5_REFID_RESP, 0x7777]);
            let l = *rng.pick(&[0u16, 1, 3, 4, 5, 6, 7, 8, 9, 16, 0xFFFF]);
            let mut p = t.to_be_bytes().to_vec();
            p.extend_from_slice(&l.to_be_bytes());
            let n = rng.usize(0, 12);
            p.extend(rng.bytes(n));
            p
        }
        5 => {
            let n = rng.usize(1, 3);
            let (fs, _) = fields(rng, w, v5, n, true, &PLAIN_KINDS);
            let mut p = fs.concat();
            mutate(rng, &mut p);
            p
        }
        _ => {
            let n = *rng.pick(&[1usize, 2, 3, 5, 1000, 2000, 3000]);
            rng.bytes(n)
        }
    }
}

pub fn input_of_class(rng: &mut Rng, w: &World, class: usize) -> Vec<u8> {
    let mut v = match class {
        0 => raw(rng),
        1 => {
            let ver = *rng.pick(&[3u8, 4, 4, 5, 5]);
            plain_packet(rng, w, ver).0
        }
        2 => {
            let ver = *rng.pick(&[3u8, 4, 4, 5, 5]);
            let sane_h = rng.chance(3, 4);
            let mut b = header(rng, ver, sane_h);
            let n = rng.usize(0, 6);
            let (fs, _) = fields(rng, w, ver == 5, n, false, &ALL_KINDS);
            for f in fs {
                b.extend(f);
            }
            if rng.chance(1, 3) {
                b.extend(mac_tail(rng));
            }
            b
        }
        3 => {
            let mut s = random_spec(rng, true);
            s.mac_tail = rng.chance(1, 6);
            nts_packet(rng, w, s).bytes
        }
        4 => {
            let mut s = random_spec(rng, false);
            s.inner_raw = Some(hostile_plaintext(rng, w, s.version == 5));
            // so that each of the two keyed contexts sees plaintext it can open
            nts_packet(rng, w, s).bytes
        }
        5 => {
            let mut s = random_spec(rng, false);
            s.nonce_len = *rng.pick(&[0usize, 1, 4, 8, 12, 15, 17, 20, 32, 33]);
            s.extra_pad = 4 * rng.usize(0, 4);
            if rng.bool() {
                s.inner_raw = Some(hostile_plaintext(rng, w, s.version == 5));
            }
            nts_packet(rng, w, s).bytes
        }
        6 => {
            // request whose cookie is a valid AEAD layer around hostile plaintext, or otherwise odd
            let ver = if rng.bool() { 4 } else { 5 };
            let v5 = ver == 5;
            let mut b = header(rng, ver, true);
            b[0] = (b[0] & !7) | 3;
            b.extend(encode_field(EF_UNIQUE_ID, &rng.bytes(32), v5, None));
            let pt = hostile_cookie_plaintext(rng, &w.session);
            let idx = rng.below(w.server.keys.len() as u64) as usize;
            let c = if rng.chance(1, 3) {
                // a genuine cookie cut to an arbitrary length: the key id prefix stays valid
                let l = match rng.below(3) {
                    0 => rng.usize(0, 32),
                    1 => *rng.pick(&[0usize, 4, 6, 8, 16, 20, 21, 22, 23, 24, 28]),
                    _ => rng.usize(0, w.cookie.len()),
                };
                let l = if v5 { l } else { l & !3 };
                w.cookie[..l.min(w.cookie.len())].to_vec()
            } else {
                w.server.seal_cookie(rng, idx, &pt)
            };
            b.extend(encode_field(EF_NTS_COOKIE, &c, v5, None));
            if rng.chance(1, 4) {
                b.extend(encode_field(EF_NTS_COOKIE, &w.cookie, v5, None));
            }
            if v5 {
                b.extend(encode_field(EF_V5_DRAFT_ID, w.draft.as_bytes(), true, None));
            }
            // seal with whatever key the hostile cookie names, if it names one of a usable size
            let key = if pt.len() >= 2 + 64 && rng.bool() { pt[pt.len() - 32..].to_vec() } else { w.session.c2s.clone() };
            let key = if key.len() == 32 || key.len() == 64 { key } else { w.session.c2s.clone() };
            let nonce = rng.bytes(16);
            let inner = if rng.bool() { Vec::new() } else { hostile_plaintext(rng, w, v5) };
            let ct = hk::siv_encrypt(&key, &nonce, &b, &inner).expect("siv");
            b.extend(auth_field(&nonce, &ct, 0, v5));
            b
        }
        7 => {
            let mut b = match rng.below(3) {
                0 => {
                    let ver = *rng.pick(&[3u8, 4, 5]);
                    plain_packet(rng, w, ver).0
                }
                1 => {
                    let s = random_spec(rng, true);
                    nts_packet(rng, w, s).bytes
                }
                _ => {
                    let ver = *rng.pick(&[4u8, 5]);
                    let mut b = header(rng, ver, true);
                    let n = rng.usize(1, 5);
                    let (fs, _) = fields(rng, w, ver == 5, n, false, &ALL_KINDS);
                    for f in fs {
                        b.extend(f);
                    }
                    b
                }
            };
            boundary(rng, &mut b);
            b
        }
        8 => {
            let mut b = match rng.below(3) {
                0 => {
                    let ver = *rng.pick(&[3u8, 4, 5]);
                    plain_packet(rng, w, ver).0
                }
                1 => {
                    let s = random_spec(rng, true);
                    nts_packet(rng, w, s).bytes
                }
                _ => {
                    let mut s = random_spec(rng, false);
                    s.inner_raw = Some(hostile_plaintext(rng, w, s.version == 5));
                    nts_packet(rng, w, s).bytes
                }
            };
            mutate(rng, &mut b);
            b
        }
        _ => {
            let mut s = random_spec(rng, true);
            s.key_override = Some(match rng.below(3) {
                0 => w.session.s2c.clone(),
                1 => w.session.c2s.clone(),
                _ => {
                    let n = if rng.bool() { 32 } else { 64 };
                    rng.bytes(n)
                }
            });
            nts_packet(rng, w, s).bytes
        }
    };
    if v.len() > 4096 {
        v.truncate(4096);
    }
    v
}
