//! E-SRC (group a3): plain-NTP source session simulator.
//!
//! Drives the REAL `ntp_proto::NtpSource` (plain NTP; protocol modes v4 / v5 / auto-upgrade)
//! with a controller chosen by the monitor (usually the recording `Spy`) through a scripted
//! network in *virtual* time (paused tokio clock, one runtime per worker thread):
//!
//!  * `Sim::step()` pops the next scheduled event (the poll timer or a datagram delivery),
//!    advances the virtual clock to it and calls `handle_timer` / `handle_incoming` exactly as
//!    the daemon's source task does (T1 = local clock when the request was sent, T4 = local
//!    clock at delivery, timer re-armed from `SetTimer`).
//!  * every request the source sends is decoded with the independent reference codec
//!    (`common::refntp`), never with ntp-proto;
//!  * answers are built byte by byte (`Answer`, `genuine`) from the decoded request, or by the
//!    real `Server` (`RealServer`), and mangled by the monitors (wrong origin, version, mode,
//!    stratum, KISS codes, late/duplicate/replayed/reordered delivery);
//!  * `Sim::truth()` classifies a datagram against the harness's own ground truth (which request
//!    it answers, its age in virtual time, its version/mode/stratum as *bytes on the wire*).
//!
//! Nothing here decides a verdict; the monitors in props/c05,c08,c10,c11,c12 do.

use std::collections::BTreeMap;
use std::net::{IpAddr, Ipv4Addr, SocketAddr};
use std::sync::atomic::{AtomicI8, AtomicU64, Ordering};
use std::sync::{Arc, Mutex, RwLock};
use std::time::Duration;

use ntp_proto::verif::misc::{dur_to_i64, ts_from_u64, ts_to_u64};
use ntp_proto::verif::source::a3::{SrcProbe, probe};
use ntp_proto::{
    ClockId, Measurement, NtpClock, NtpDuration, NtpLeapIndicator, NtpSource, NtpSourceAction,
    NtpTimestamp, ObservableSourceTimedata, PollInterval, ProtocolVersion, SourceController,
};

use crate::common::refntp::{self, EF_V5_DRAFT_ID, RefHeader, RefPacket, UPGRADE_MARKER};

pub const WINDOW: Duration = Duration::from_secs(5);

// ---------------------------------------------------------------------------------------------
// virtual time

thread_local! {
    static RT: tokio::runtime::Runtime = tokio::runtime::Builder::new_current_thread()
        .enable_time()
        .start_paused(true)
        .build()
        .expect("paused runtime");
}

/// Run `f` inside the worker's paused runtime context (so `tokio::time::Instant::now()` is virtual).
pub fn in_rt<T>(f: impl FnOnce() -> T) -> T {
    RT.with(|rt| {
        let _g = rt.enter();
        f()
    })
}

/// Advance the virtual clock by exactly `d`.
pub fn advance(d: Duration) {
    if d.is_zero() {
        return;
    }
    RT.with(|rt| rt.block_on(tokio::time::advance(d)));
}

pub fn virtual_now() -> tokio::time::Instant {
    in_rt(tokio::time::Instant::now)
}

/// nanoseconds -> NTP 2^-32 s fixed point (floor)
pub fn ns_to_ntp(ns: u128) -> u64 {
    ((ns << 32) / 1_000_000_000) as u64
}

// ---------------------------------------------------------------------------------------------
// spy controller

#[derive(Clone, Debug, PartialEq, Eq)]
pub enum SpyEvent {
    Measurement {
        /// sender_id == ClockId::SYSTEM ("outgoing" half: T1 -> T2)
        outgoing: bool,
        sender_ts: u64,
        receiver_ts: u64,
        root_delay: i64,
        root_dispersion: i64,
        leap: u8,
        precision: i8,
    },
    Usable(bool),
}

pub fn leap_code(l: NtpLeapIndicator) -> u8 {
    match l {
        NtpLeapIndicator::NoWarning => 0,
        NtpLeapIndicator::Leap61 => 1,
        NtpLeapIndicator::Leap59 => 2,
        NtpLeapIndicator::Unknown => 3,
        NtpLeapIndicator::Unsynchronized => 4,
    }
}

#[derive(Clone, Default)]
pub struct SpyShared {
    pub events: Arc<Mutex<Vec<SpyEvent>>>,
    pub desire: Arc<AtomicI8>,
    pub desire_reads: Arc<AtomicU64>,
}

impl SpyShared {
    pub fn set_desire(&self, exp: i8) {
        self.desire.store(exp, Ordering::SeqCst);
    }
    pub fn drain(&self) -> Vec<SpyEvent> {
        std::mem::take(&mut *self.events.lock().unwrap())
    }
}

/// Recording source controller with a scriptable desired poll interval.
pub struct Spy {
    pub sh: SpyShared,
}

impl Spy {
    pub fn new(desire: i8) -> (Spy, SpyShared) {
        let sh = SpyShared::default();
        sh.set_desire(desire);
        (Spy { sh: sh.clone() }, sh)
    }
}

impl SourceController for Spy {
    fn handle_measurement(&mut self, m: Measurement) {
        self.sh.events.lock().unwrap().push(SpyEvent::Measurement {
            outgoing: m.sender_id == ClockId::SYSTEM,
            sender_ts: ts_to_u64(m.sender_ts),
            receiver_ts: ts_to_u64(m.receiver_ts),
            root_delay: dur_to_i64(m.root_delay),
            root_dispersion: dur_to_i64(m.root_dispersion),
            leap: leap_code(m.leap),
            precision: m.precision,
        });
    }
    fn set_usable(&mut self, usable: bool) {
        self.sh.events.lock().unwrap().push(SpyEvent::Usable(usable));
    }
    fn desired_poll_interval(&self) -> PollInterval {
        self.sh.desire_reads.fetch_add(1, Ordering::Relaxed);
        PollInterval::from_byte(self.sh.desire.load(Ordering::SeqCst) as u8)
    }
    fn observe(&self) -> ObservableSourceTimedata {
        ObservableSourceTimedata::default()
    }
}

// ---------------------------------------------------------------------------------------------
// requests as seen on the wire (reference decoder)

#[derive(Clone, Debug)]
pub struct Sent {
    pub idx: usize,
    /// virtual time (since Sim start) of the send
    pub at: Duration,
    /// local clock (NTP fixed point) at the send: the T1 the daemon passes to handle_incoming
    pub t1: u64,
    pub bytes: Vec<u8>,
    pub pkt: RefPacket,
    pub version: u8,
    pub mode: u8,
    /// poll byte as sent
    pub poll: u8,
    /// v4: reference timestamp == "NTP5DRFT"
    pub marker: bool,
    /// what a matching answer must echo at bytes 24..32 (v4: our transmit timestamp; v5: client cookie)
    pub id: u64,
    /// the SetTimer that accompanied this send, if any
    pub timer: Option<Duration>,
}

#[derive(Clone, Copy, Debug, PartialEq, Eq, Hash)]
pub enum Mode {
    V4,
    V5,
    Auto,
}

impl Mode {
    pub fn protocol(self) -> ProtocolVersion {
        match self {
            Mode::V4 => ProtocolVersion::V4,
            Mode::V5 => ProtocolVersion::V5,
            Mode::Auto => ProtocolVersion::v4_upgrading_to_v5_with_default_tries(),
        }
    }
    pub fn name(self) -> &'static str {
        match self {
            Mode::V4 => "v4",
            Mode::V5 => "v5",
            Mode::Auto => "auto",
        }
    }
}

#[derive(Clone, Debug, PartialEq, Eq)]
pub enum Act {
    Send(usize),
    SetTimer(Duration),
    Reset,
    Demobilize,
}

#[derive(Clone, Debug, Default)]
pub struct TimerOut {
    pub acts: Vec<Act>,
    pub sent: Option<usize>,
    pub set_timer: Option<Duration>,
    pub reset: bool,
    pub demobilize: bool,
    pub spy: Vec<SpyEvent>,
    pub panicked: Option<String>,
}

#[derive(Clone, Debug, Default)]
pub struct RecvOut {
    pub acts: Vec<Act>,
    pub spy: Vec<SpyEvent>,
    /// number of Measurement events in `spy`
    pub measurements: usize,
    pub unanswered_before: u32,
    pub unanswered_after: u32,
    pub probe_before: Option<SrcProbe>,
    pub probe_after: Option<SrcProbe>,
    pub panicked: Option<String>,
}

impl RecvOut {
    pub fn used(&self) -> bool {
        self.measurements > 0
    }
    /// (T1,T2) of the outgoing half and (T3,T4) of the incoming half, if exactly one pair
    pub fn pair(&self) -> Option<((u64, u64), (u64, u64))> {
        let ms: Vec<_> = self
            .spy
            .iter()
            .filter_map(|e| match e {
                SpyEvent::Measurement { outgoing, sender_ts, receiver_ts, .. } => Some((*outgoing, *sender_ts, *receiver_ts)),
                _ => None,
            })
            .collect();
        if ms.len() == 2 && ms[0].0 && !ms[1].0 {
            Some(((ms[0].1, ms[0].2), (ms[1].1, ms[1].2)))
        } else {
            None
        }
    }
}

/// A datagram in flight towards the source, with the generator's own notes.
#[derive(Clone, Debug)]
pub struct Datagram {
    pub bytes: Vec<u8>,
    /// free-form label of how it was made (for details/shape signatures)
    pub kind: &'static str,
    /// the generator mangled it in a way that may make it unparsable
    pub maybe_malformed: bool,
    /// explicit T1/T4 (C05); otherwise the daemon's values
    pub t1: Option<u64>,
    pub t4: Option<u64>,
    /// caller-defined tag
    pub tag: u32,
}

impl Datagram {
    pub fn new(bytes: Vec<u8>, kind: &'static str) -> Datagram {
        Datagram { bytes, kind, maybe_malformed: false, t1: None, t4: None, tag: 0 }
    }
}

pub enum Step {
    Timer(TimerOut),
    Datagram(Datagram, Truth, RecvOut),
}

#[derive(Clone, Copy, Debug, PartialEq, Eq, Hash)]
pub enum Tri {
    Yes,
    No,
    /// the statement does not say (exactly 5 s; a v3 answer to a v4 request)
    Silent,
}

/// Ground truth about a datagram, from the harness's own knowledge and the reference decoder.
#[derive(Clone, Debug)]
pub struct Truth {
    pub parsed: bool,
    pub version: u8,
    pub mode: u8,
    pub stratum: u8,
    pub poll: u8,
    pub marker: bool,
    pub origin: u64,
    /// index of the most recent request at delivery (None: nothing sent yet)
    pub latest: Option<usize>,
    /// echoes the identifier of the most recent request
    pub matches_latest: bool,
    /// echoes the identifier of some older request
    pub matches_older: Option<usize>,
    /// delivery time minus send time of the most recent request
    pub age: Option<Duration>,
    pub in_window: Tri,
    pub version_expected: Tri,
    pub maybe_malformed: bool,
    /// a measurement was already observed for the most recent request
    pub latest_already_used: bool,
    /// a source that already returned Reset/Demobilize
    pub dead: bool,
}

impl Truth {
    pub fn stratum_ok(&self) -> bool {
        (1..=16).contains(&self.stratum)
    }
    pub fn mode_server(&self) -> bool {
        self.mode == 4
    }
    /// the identifier + window + version part ("a matching answer" in C12's words)
    pub fn matching(&self) -> Tri {
        if !self.parsed || !self.matches_latest || self.in_window == Tri::No || self.version_expected == Tri::No {
            return Tri::No;
        }
        if self.in_window == Tri::Silent || self.version_expected == Tri::Silent || self.maybe_malformed {
            return Tri::Silent;
        }
        Tri::Yes
    }
    /// C08: every *necessary* condition for use holds (Silent counts as "may")
    pub fn may_use(&self) -> bool {
        self.matching() != Tri::No && !self.latest_already_used && self.mode_server() && self.stratum_ok()
    }
    /// C11: a usable answer in the strictest sense: every condition clearly holds
    pub fn must_use(&self) -> bool {
        self.matching() == Tri::Yes && !self.latest_already_used && self.mode_server() && self.stratum_ok() && !self.dead
    }
    pub fn why_not(&self) -> Vec<&'static str> {
        let mut v = Vec::new();
        if !self.parsed {
            v.push("unparsable");
        }
        if !self.matches_latest {
            v.push(if self.matches_older.is_some() { "answers-older-request" } else { "foreign-origin" });
        }
        if self.in_window == Tri::No {
            v.push("late");
        }
        if self.version_expected == Tri::No {
            v.push("wrong-version");
        }
        if self.latest_already_used {
            v.push("request-already-answered");
        }
        if !self.mode_server() {
            v.push("not-server-mode");
        }
        if self.stratum == 0 {
            v.push("kiss/stratum0");
        } else if self.stratum > 16 {
            v.push("stratum>16");
        }
        v
    }
}

// ---------------------------------------------------------------------------------------------
// the simulator

pub struct Sim<C: SourceController> {
    pub src: NtpSource<C>,
    pub mode: Mode,
    pub limits: (u8, u8, u8),
    /// virtual time since the Sim was created
    pub now: Duration,
    /// local clock value (NTP fixed point) at virtual time zero
    pub local_base: u64,
    pub sent: Vec<Sent>,
    /// requests for which a measurement pair was observed, with the count
    pub used: BTreeMap<usize, u32>,
    pub dead: Option<Act>,
    queue: BTreeMap<(Duration, u64), Option<Datagram>>,
    seq: u64,
    /// spy handle when the controller is the Spy (None for real controllers)
    pub spy: Option<SpyShared>,
    pub clock_id: ClockId,
    pub initial_timer: Option<Duration>,
    /// auto mode: the most recent request (index) is a v4 upgrade request for which a matching
    /// answer carrying the upgrade marker was already delivered. By the statement of C12 the source
    /// may have switched to NTPv5 at that point, so which version it "expects" for further answers
    /// to that same request is not determined by the statement (Silent).
    pub marker_seen_for: Option<usize>,
}

impl Sim<Spy> {
    pub fn with_spy(mode: Mode, limits: (u8, u8, u8), desire: i8, local_base: u64) -> Sim<Spy> {
        let (spy, sh) = Spy::new(desire);
        let mut s = Sim::new(mode, limits, spy, local_base, 16);
        s.spy = Some(sh);
        s
    }
}

impl<C: SourceController> Sim<C> {
    pub fn new(mode: Mode, limits: (u8, u8, u8), controller: C, local_base: u64, local_stratum: u8) -> Sim<C> {
        let cfg = ntp_proto::verif::src::source_config(limits.0, limits.1, limits.2);
        let addr = SocketAddr::new(IpAddr::V4(Ipv4Addr::new(192, 0, 2, 7)), 123);
        let (src, actions) = in_rt(|| {
            ntp_proto::verif::src::new_plain_source(addr, cfg, mode.protocol(), controller, local_stratum, vec![IpAddr::V4(Ipv4Addr::new(198, 51, 100, 1))])
        });
        let mut sim = Sim {
            src,
            mode,
            limits,
            now: Duration::ZERO,
            local_base,
            sent: Vec::new(),
            used: BTreeMap::new(),
            dead: None,
            queue: BTreeMap::new(),
            seq: 0,
            spy: None,
            clock_id: ClockId::new(),
            initial_timer: None,
            marker_seen_for: None,
        };
        for a in actions {
            if let NtpSourceAction::SetTimer(d) = a {
                sim.initial_timer = Some(d);
                sim.arm_timer(d);
            }
        }
        sim
    }

    pub fn local_now(&self) -> u64 {
        self.local_base.wrapping_add(ns_to_ntp(self.now.as_nanos()))
    }

    fn arm_timer(&mut self, d: Duration) {
        // one timer: re-arming replaces the previous deadline (as `Sleep::reset` does)
        self.queue.retain(|_, v| v.is_some());
        if let Some(at) = self.now.checked_add(d) {
            self.seq += 1;
            self.queue.insert((at, self.seq), None);
        }
    }

    /// Schedule a datagram `after` from now.
    pub fn schedule(&mut self, after: Duration, d: Datagram) {
        self.seq += 1;
        self.queue.insert((self.now + after, self.seq), Some(d));
    }

    /// Schedule a datagram at an absolute virtual time (clamped to now).
    pub fn schedule_at(&mut self, at: Duration, d: Datagram) {
        self.seq += 1;
        self.queue.insert((at.max(self.now), self.seq), Some(d));
    }

    pub fn pending_events(&self) -> usize {
        self.queue.len()
    }

    pub fn timer_deadline(&self) -> Option<Duration> {
        self.queue.iter().find(|(_, v)| v.is_none()).map(|(k, _)| k.0)
    }

    fn go_to(&mut self, at: Duration) {
        if at > self.now {
            advance(at - self.now);
            self.now = at;
        }
    }

    pub fn advance_by(&mut self, d: Duration) {
        let at = self.now + d;
        self.go_to(at);
    }

    pub fn unanswered(&self) -> u32 {
        self.src.observe(String::new(), self.clock_id).unanswered_polls
    }

    pub fn observed_poll(&self) -> i8 {
        self.src.observe(String::new(), self.clock_id).poll_interval.as_log()
    }

    pub fn probe(&self) -> SrcProbe {
        probe(&self.src)
    }

    pub fn latest(&self) -> Option<&Sent> {
        self.sent.last()
    }

    /// Next event in virtual-time order (None: nothing scheduled).
    pub fn step(&mut self) -> Option<Step> {
        let key = *self.queue.keys().next()?;
        let ev = self.queue.remove(&key).unwrap();
        self.go_to(key.0);
        Some(match ev {
            None => Step::Timer(self.fire_timer()),
            Some(d) => {
                let t = self.truth(&d);
                let r = self.deliver(&d);
                Step::Datagram(d, t, r)
            }
        })
    }

    fn convert(&mut self, actions: impl Iterator<Item = NtpSourceAction>) -> Vec<Act> {
        let mut acts = Vec::new();
        for a in actions {
            match a {
                NtpSourceAction::Send(bytes) => {
                    let idx = self.sent.len();
                    let pkt = refntp::parse(&bytes).unwrap_or_else(|| RefPacket {
                        header: RefHeader::request(0, 0, 0),
                        fields: vec![],
                        trailer: bytes.clone(),
                    });
                    let h = &pkt.header;
                    let id = if h.version == 5 { h.origin } else { h.transmit_ts };
                    let s = Sent {
                        idx,
                        at: self.now,
                        t1: self.local_now(),
                        version: h.version,
                        mode: h.mode,
                        poll: h.poll,
                        marker: h.version != 5 && h.reference_ts == UPGRADE_MARKER,
                        id,
                        timer: None,
                        pkt,
                        bytes,
                    };
                    self.sent.push(s);
                    acts.push(Act::Send(idx));
                }
                NtpSourceAction::SetTimer(d) => {
                    if let Some(Act::Send(i)) = acts.last() {
                        let i = *i;
                        self.sent[i].timer = Some(d);
                    }
                    self.arm_timer(d);
                    acts.push(Act::SetTimer(d));
                }
                NtpSourceAction::Reset => {
                    self.dead.get_or_insert(Act::Reset);
                    acts.push(Act::Reset);
                }
                NtpSourceAction::Demobilize => {
                    self.dead.get_or_insert(Act::Demobilize);
                    acts.push(Act::Demobilize);
                }
            }
        }
        acts
    }

    /// Call `handle_timer` now (the daemon does this when the poll timer expires).
    pub fn fire_timer(&mut self) -> TimerOut {
        let src = &mut self.src;
        let r = crate::core::guard(|| in_rt(|| src.handle_timer().collect::<Vec<_>>()));
        let mut out = TimerOut::default();
        match r {
            Ok(actions) => {
                out.acts = self.convert(actions.into_iter());
            }
            Err(p) => out.panicked = Some(format!("{}: {}", p.location, p.message)),
        }
        for a in &out.acts {
            match a {
                Act::Send(i) => out.sent = Some(*i),
                Act::SetTimer(d) => out.set_timer = Some(*d),
                Act::Reset => out.reset = true,
                Act::Demobilize => out.demobilize = true,
            }
        }
        if let Some(sh) = &self.spy {
            out.spy = sh.drain();
        }
        out
    }

    /// Classify a datagram against the harness's ground truth *as of now*.
    pub fn truth(&self, d: &Datagram) -> Truth {
        let h = refntp::parse_header(&d.bytes);
        let parsed = h.is_some();
        let h = h.unwrap_or_else(|| RefHeader::request(0, 0, 0));
        let latest = self.sent.last();
        let matches_latest = parsed && latest.map(|s| s.id == h.origin).unwrap_or(false);
        let matches_older = if parsed && self.sent.len() > 1 {
            self.sent[..self.sent.len() - 1].iter().rev().find(|s| s.id == h.origin).map(|s| s.idx)
        } else {
            None
        };
        let age = latest.map(|s| self.now - s.at);
        let in_window = match age {
            None => Tri::No,
            Some(a) if a < WINDOW => Tri::Yes,
            Some(a) if a == WINDOW => Tri::Silent,
            Some(_) => Tri::No,
        };
        let version_expected = match latest {
            None => Tri::No,
            Some(s) if self.marker_seen_for == Some(s.idx) && (h.version == 4 || h.version == 5) => Tri::Silent,
            Some(s) if s.version == h.version => Tri::Yes,
            Some(s) if s.version == 4 && h.version == 3 => Tri::Silent,
            Some(_) => Tri::No,
        };
        Truth {
            parsed,
            version: h.version,
            mode: h.mode,
            stratum: h.stratum,
            poll: h.poll,
            marker: h.version == 4 && h.reference_ts == UPGRADE_MARKER,
            origin: h.origin,
            latest: latest.map(|s| s.idx),
            matches_latest,
            matches_older,
            age,
            in_window,
            version_expected,
            maybe_malformed: d.maybe_malformed,
            latest_already_used: latest.map(|s| self.used.contains_key(&s.idx)).unwrap_or(false),
            dead: self.dead.is_some(),
        }
    }

    /// Call `handle_incoming` now, the way the daemon does (it drops datagrams that arrive
    /// before anything was sent).
    pub fn deliver(&mut self, d: &Datagram) -> RecvOut {
        let mut out = RecvOut::default();
        let Some(last) = self.sent.last() else {
            return out;
        };
        let t1 = d.t1.unwrap_or(last.t1);
        let t4 = d.t4.unwrap_or_else(|| self.local_now());
        let latest_idx = last.idx;
        if self.mode == Mode::Auto && last.marker {
            if let Some(h) = refntp::parse_header(&d.bytes) {
                if h.version == 4 && h.reference_ts == UPGRADE_MARKER && h.origin == last.id && self.now - last.at <= WINDOW {
                    self.marker_seen_for = Some(latest_idx);
                }
            }
        }
        out.unanswered_before = self.unanswered();
        out.probe_before = Some(self.probe());
        let src = &mut self.src;
        let bytes = &d.bytes;
        let r = crate::core::guard(|| in_rt(|| src.handle_incoming(bytes, ts_from_u64(t1), ts_from_u64(t4)).collect::<Vec<_>>()));
        match r {
            Ok(actions) => out.acts = self.convert(actions.into_iter()),
            Err(p) => out.panicked = Some(format!("{}: {}", p.location, p.message)),
        }
        out.unanswered_after = self.unanswered();
        out.probe_after = Some(self.probe());
        if let Some(sh) = &self.spy {
            out.spy = sh.drain();
        }
        out.measurements = out.spy.iter().filter(|e| matches!(e, SpyEvent::Measurement { .. })).count();
        if out.measurements > 0 {
            *self.used.entry(latest_idx).or_insert(0) += 1;
        }
        out
    }
}

// ---------------------------------------------------------------------------------------------
// answers, byte by byte

#[derive(Clone, Debug)]
pub struct Answer {
    pub h: RefHeader,
    /// (type, value) extension fields
    pub fields: Vec<(u16, Vec<u8>)>,
    pub trailer: Vec<u8>,
}

impl Answer {
    pub fn encode(&self) -> Vec<u8> {
        let mut v = self.h.encode();
        for (t, val) in &self.fields {
            v.extend_from_slice(&refntp::encode_field(*t, val, self.h.version == 5, None));
        }
        v.extend_from_slice(&self.trailer);
        v
    }
}

/// The answer a well-behaved server of the request's version would give.
/// `rx`/`tx` are the server's receive/transmit timestamps; `upgrade` says whether the server
/// echoes the v5 upgrade marker of a v4 request.
pub fn genuine(req: &Sent, stratum: u8, rx: u64, tx: u64, upgrade: bool, server_cookie: u64) -> Answer {
    let q = &req.pkt.header;
    let v5 = q.version == 5;
    let h = RefHeader {
        leap: 0,
        version: q.version,
        mode: 4,
        stratum,
        poll: q.poll,
        precision: 0xE8, // -24
        root_delay: if v5 { 0x0010_0000 } else { 0x0000_0100 },
        root_dispersion: if v5 { 0x0020_0000 } else { 0x0000_0200 },
        reference_id: [10, 0, 0, 1],
        reference_ts: if !v5 && req.marker && upgrade { UPGRADE_MARKER } else { rx & 0xFFFF_FF00_0000_0000 },
        origin: req.id,
        receive_ts: rx,
        transmit_ts: tx,
        timescale: 0,
        era: 0,
        flags: if v5 { 1 } else { 0 },
        server_cookie: if v5 { server_cookie } else { 0 },
    };
    let mut fields = Vec::new();
    if v5 {
        // echo the request's draft identification (the server speaks the same draft)
        if let Some(f) = req.pkt.fields.iter().find(|f| f.type_id == EF_V5_DRAFT_ID) {
            fields.push((EF_V5_DRAFT_ID, f.value.clone()));
        }
    }
    Answer { h, fields, trailer: vec![] }
}

/// A KISS answer of the request's version. v4 codes are ASCII; for v5 see the draft:
/// RATE = stratum 0 with a larger poll, DENY = poll 127, NTSN = authnak flag.
pub fn kiss(req: &Sent, code: &[u8; 4], server_cookie: u64) -> Answer {
    let mut a = genuine(req, 0, 0, 0, false, server_cookie);
    a.h.stratum = 0;
    a.h.root_delay = 0;
    a.h.root_dispersion = 0;
    a.h.precision = 0;
    if a.h.version == 5 {
        a.h.flags = 0;
        a.h.leap = 3;
        match code {
            b"RATE" => a.h.poll = ((req.poll as i8).saturating_add(1)) as u8,
            b"DENY" | b"RSTR" => a.h.poll = 127,
            b"NTSN" => a.h.flags = 4,
            _ => {}
        }
    } else {
        a.h.reference_id = *code;
        a.h.reference_ts = 0;
        a.h.poll = 0;
    }
    a
}

// ---------------------------------------------------------------------------------------------
// the real server as an answer generator

#[derive(Clone)]
pub struct FixedClock(pub Arc<AtomicU64>);

impl NtpClock for FixedClock {
    type Error = std::io::Error;
    fn now(&self) -> Result<NtpTimestamp, Self::Error> {
        Ok(ts_from_u64(self.0.load(Ordering::SeqCst)))
    }
    fn set_frequency(&self, _freq: f64) -> Result<NtpTimestamp, Self::Error> {
        self.now()
    }
    fn get_frequency(&self) -> Result<f64, Self::Error> {
        Ok(0.0)
    }
    fn step_clock(&self, _offset: NtpDuration) -> Result<NtpTimestamp, Self::Error> {
        self.now()
    }
    fn disable_ntp_algorithm(&self) -> Result<(), Self::Error> {
        Ok(())
    }
    fn error_estimate_update(&self, _e: NtpDuration, _m: NtpDuration) -> Result<(), Self::Error> {
        Ok(())
    }
    fn status_update(&self, _l: NtpLeapIndicator) -> Result<(), Self::Error> {
        Ok(())
    }
}

struct NoStats;
impl ntp_proto::ServerStatHandler for NoStats {
    fn register(&mut self, _v: u8, _nts: bool, _r: ntp_proto::ServerReason, _a: ntp_proto::ServerResponse) {}
}

/// The repository's own `Server`, used as a *generator* of genuine answers to the source's
/// actual requests (never as an oracle).
pub struct RealServer {
    server: ntp_proto::Server<FixedClock>,
    tx: Arc<AtomicU64>,
}

impl RealServer {
    pub fn new(stratum: u8) -> RealServer {
        let tx = Arc::new(AtomicU64::new(0));
        let mut info = ntp_proto::NtpServerInfo::default();
        info.ntp_snapshot.stratum = stratum;
        info.time_snapshot.leap_indicator = NtpLeapIndicator::NoWarning;
        let config = ntp_proto::ServerConfig {
            denylist: ntp_proto::FilterList { filter: vec![], action: ntp_proto::FilterAction::Ignore },
            allowlist: ntp_proto::FilterList {
                filter: vec!["0.0.0.0/0".parse().unwrap(), "::/0".parse().unwrap()],
                action: ntp_proto::FilterAction::Ignore,
            },
            rate_limiting_cache_size: 0,
            rate_limiting_cutoff: Duration::ZERO,
            require_nts: None,
            accepted_versions: vec![ntp_proto::NtpVersion::V3, ntp_proto::NtpVersion::V4, ntp_proto::NtpVersion::V5],
        };
        let keyset = ntp_proto::KeySetProvider::new(1).get();
        let server = ntp_proto::Server::new_internal(config, FixedClock(tx.clone()), Arc::new(RwLock::new(info)), keyset);
        RealServer { server, tx }
    }

    pub fn answer(&mut self, req: &[u8], rx: u64, tx: u64) -> Option<Vec<u8>> {
        self.tx.store(tx, Ordering::SeqCst);
        let mut buf = vec![0u8; req.len().max(48)];
        let mut st = NoStats;
        let ip = IpAddr::V4(Ipv4Addr::new(203, 0, 113, 9));
        match self.server.handle(ip, ts_from_u64(rx), req, &mut buf, &mut st) {
            ntp_proto::ServerAction::Respond { message } => Some(message.to_vec()),
            ntp_proto::ServerAction::Ignore => None,
        }
    }
}

// ---------------------------------------------------------------------------------------------
// small helpers shared by the monitors

pub fn act_names(acts: &[Act]) -> Vec<String> {
    acts.iter()
        .map(|a| match a {
            Act::Send(i) => format!("send#{i}"),
            Act::SetTimer(d) => format!("timer({}ns)", d.as_nanos()),
            Act::Reset => "reset".into(),
            Act::Demobilize => "demobilize".into(),
        })
        .collect()
}

pub fn probe_json(p: &SrcProbe) -> serde_json::Value {
    let proto = ["V4", "V4UpgradingToV5", "UpgradedToV5", "V5"][p.proto as usize & 3];
    serde_json::json!({
        "proto": proto, "tries_left": p.tries_left,
        "reach": format!("{:08b}", p.reach), "tries": p.tries, "last_poll": p.last_poll,
        "remote_min_poll": p.remote_min_poll, "have_deny": p.have_deny, "has_pending": p.has_pending,
    })
}

// ---------------------------------------------------------------------------------------------
// manglers shared by the monitors

pub const DRAFT_ID_FALLBACK: &[u8] = b"draft-ietf-ntp-ntpv5-09";

/// Re-issue `a` as a packet of another protocol version keeping the echoed identifier and
/// the timestamps (what a confused or hostile server might send).
pub fn reversion(a: &Answer, to: u8, draft: &[u8]) -> Answer {
    let mut b = a.clone();
    let from = a.h.version;
    b.h.version = to;
    b.fields.clear();
    if to == 5 {
        b.h.flags = 1;
        b.h.timescale = 0;
        b.h.era = 0;
        b.h.server_cookie = a.h.transmit_ts ^ 0x5555_5555_5555_5555;
        b.fields.push((EF_V5_DRAFT_ID, draft.to_vec()));
        if from != 5 {
            // time32 instead of NTP short
            b.h.root_delay = 0x0010_0000;
            b.h.root_dispersion = 0x0020_0000;
        }
    } else if from == 5 {
        b.h.reference_id = [10, 0, 0, 1];
        b.h.reference_ts = a.h.receive_ts & 0xFFFF_FF00_0000_0000;
        b.h.root_delay = 0x0000_0100;
        b.h.root_dispersion = 0x0000_0200;
    }
    b
}

/// The draft identification string seen in the most recent v5 request of this session, or the
/// published draft name.
pub fn draft_of(sent: &[Sent]) -> Vec<u8> {
    sent.iter()
        .rev()
        .filter_map(|s| s.pkt.fields.iter().find(|f| f.type_id == EF_V5_DRAFT_ID).map(|f| f.value.clone()))
        .next()
        .unwrap_or_else(|| DRAFT_ID_FALLBACK.to_vec())
}

#[derive(Clone, Copy, Debug, PartialEq, Eq, Hash)]
pub enum Mangle {
    /// random origin / client cookie
    ForeignOrigin,
    /// one bit of the origin flipped
    OriginBitFlip,
    /// origin of an older request of this session (falls back to ForeignOrigin)
    OlderOrigin,
    /// same identifier, other protocol version
    Version(u8),
    /// same identifier, mode other than server
    ModeNot4(u8),
    /// stratum 0 (no kiss code of note) or > 16
    Stratum(u8),
    Kiss([u8; 4]),
}

impl Mangle {
    pub fn name(&self) -> &'static str {
        match self {
            Mangle::ForeignOrigin => "foreign-origin",
            Mangle::OriginBitFlip => "origin-bitflip",
            Mangle::OlderOrigin => "older-origin",
            Mangle::Version(3) => "as-v3",
            Mangle::Version(4) => "as-v4",
            Mangle::Version(_) => "as-v5",
            Mangle::ModeNot4(_) => "wrong-mode",
            Mangle::Stratum(0) => "stratum0",
            Mangle::Stratum(_) => "stratum>16",
            Mangle::Kiss(k) => match k {
                b"RATE" => "kiss-rate",
                b"DENY" => "kiss-deny",
                b"RSTR" => "kiss-rstr",
                b"NTSN" => "kiss-ntsn",
                _ => "kiss-other",
            },
        }
    }
}

pub fn random_mangle(rng: &mut crate::core::Rng, req_version: u8) -> Mangle {
    match rng.below(8) {
        0 => Mangle::ForeignOrigin,
        1 => Mangle::OriginBitFlip,
        2 => Mangle::OlderOrigin,
        3 => {
            let vs: Vec<u8> = [3u8, 4, 5].into_iter().filter(|v| *v != req_version).collect();
            Mangle::Version(*rng.pick(&vs))
        }
        4 => Mangle::ModeNot4(*rng.pick(&[0u8, 1, 2, 3, 5, 6, 7])),
        5 => Mangle::Stratum(if rng.bool() { 0 } else { *rng.pick(&[17u8, 18, 32, 127, 128, 255]) }),
        _ => Mangle::Kiss(*rng.pick(&[*b"RATE", *b"DENY", *b"RSTR", *b"NTSN", *b"XXXX"])),
    }
}

/// Apply a mangle to the genuine answer `a` for request `req`. Returns the datagram and
/// whether it may have become unparsable for a strict decoder (v5 modes other than 3/4).
pub fn mangle(rng: &mut crate::core::Rng, sent: &[Sent], req: &Sent, a: &Answer, m: Mangle) -> Datagram {
    let mut b = a.clone();
    let mut maybe_malformed = false;
    match m {
        Mangle::ForeignOrigin => b.h.origin = rng.u64(),
        Mangle::OriginBitFlip => b.h.origin ^= 1u64 << rng.below(64),
        Mangle::OlderOrigin => {
            let older: Vec<&Sent> = sent.iter().filter(|s| s.idx < req.idx && s.id != req.id && s.version == req.version).collect();
            if older.is_empty() {
                b.h.origin = rng.u64();
            } else {
                b.h.origin = older[rng.below(older.len() as u64) as usize].id;
            }
        }
        Mangle::Version(v) => b = reversion(a, v, &draft_of(sent)),
        Mangle::ModeNot4(md) => {
            b.h.mode = md;
            if b.h.version == 5 {
                maybe_malformed = true;
            }
        }
        Mangle::Stratum(s) => {
            b.h.stratum = s;
            if s == 0 && b.h.version != 5 {
                b.h.reference_id = [0; 4];
            }
        }
        Mangle::Kiss(k) => {
            let marker = a.h.version == 4 && a.h.reference_ts == UPGRADE_MARKER;
            b = kiss(req, &k, rng.u64());
            if marker && rng.bool() {
                b.h.reference_ts = UPGRADE_MARKER;
            }
        }
    }
    let mut d = Datagram::new(b.encode(), m.name());
    d.maybe_malformed = maybe_malformed;
    d
}
