//! Shared pieces for the PTP / CSPTP monitors (C41–C45, group a9):
//!
//! * an *independent* byte-level PTP codec (`RawMsg`): written from IEEE 1588-2019 clause 13 /
//!   the CSPTP draft TLV layouts, not from `statime-wire`; used to build hostile datagrams and to
//!   decode what the code under test sends;
//! * a minimal single-threaded executor with *virtual time* (`Sim`) for the runtime-agnostic
//!   `CsptpSource::run` / `serve` futures: sleeps complete when the virtual clock reaches their
//!   deadline, the clock only advances when every future is blocked.

use std::cell::RefCell;
use std::future::Future;
use std::pin::Pin;
use std::rc::Rc;
use std::task::{Context, Poll, RawWaker, RawWakerVTable, Waker};
use std::time::Duration;

use crate::core::Rng;

// ---------------------------------------------------------------------------------------------
// raw PTP codec
// ---------------------------------------------------------------------------------------------

pub const T_SYNC: u8 = 0x0;
pub const T_DELAY_REQ: u8 = 0x1;
pub const T_PDELAY_REQ: u8 = 0x2;
pub const T_PDELAY_RESP: u8 = 0x3;
pub const T_FOLLOW_UP: u8 = 0x8;
pub const T_DELAY_RESP: u8 = 0x9;
pub const T_PDELAY_RESP_FUP: u8 = 0xa;
pub const T_ANNOUNCE: u8 = 0xb;
pub const T_SIGNALING: u8 = 0xc;
pub const T_MANAGEMENT: u8 = 0xd;
pub const ALL_TYPES: [u8; 10] = [0x0, 0x1, 0x2, 0x3, 0x8, 0x9, 0xa, 0xb, 0xc, 0xd];

pub const TLV_CSPTP_STATUS: u16 = 0xf002;
pub const TLV_CSPTP_REQUEST: u16 = 0xff00;
pub const TLV_CSPTP_RESPONSE: u16 = 0xff01;

/// Length of the fixed body that follows the 34-byte header (IEEE 1588-2019 clause 13).
pub fn body_len(msg_type: u8) -> Option<usize> {
    Some(match msg_type {
        T_SYNC | T_DELAY_REQ | T_FOLLOW_UP | T_SIGNALING => 10,
        T_PDELAY_REQ | T_PDELAY_RESP | T_DELAY_RESP | T_PDELAY_RESP_FUP => 20,
        T_ANNOUNCE => 30,
        T_MANAGEMENT => 14,
        _ => return None,
    })
}

#[derive(Clone, Debug, PartialEq, Eq)]
pub struct RawTlv {
    pub typ: u16,
    pub value: Vec<u8>,
    /// length field written on the wire; `None` = the true length of `value`
    pub len_override: Option<u16>,
}

impl RawTlv {
    pub fn new(typ: u16, value: Vec<u8>) -> RawTlv {
        RawTlv { typ, value, len_override: None }
    }
    pub fn encode(&self, out: &mut Vec<u8>) {
        out.extend_from_slice(&self.typ.to_be_bytes());
        let l = self.len_override.unwrap_or(self.value.len() as u16);
        out.extend_from_slice(&l.to_be_bytes());
        out.extend_from_slice(&self.value);
    }
}

/// A PTP message as raw fields. Everything that is on the wire is a field, including the
/// reserved ones, so that any 34+ byte pattern can be produced.
#[derive(Clone, Debug, PartialEq, Eq)]
pub struct RawMsg {
    pub major_sdo: u8, // high nibble of byte 0
    pub msg_type: u8,  // low nibble of byte 0
    pub version: u8,   // byte 1: minorVersionPTP << 4 | versionPTP
    pub domain: u8,
    pub minor_sdo: u8,
    pub flags: [u8; 2],
    pub correction: i64,
    pub type_specific: [u8; 4],
    pub port_identity: [u8; 10],
    pub sequence_id: u16,
    pub control: u8,
    pub log_interval: u8,
    pub body: Vec<u8>,
    pub tlvs: Vec<RawTlv>,
    /// trailing bytes after the TLVs that are still counted in messageLength
    pub trailer: Vec<u8>,
    /// messageLength written on the wire; `None` = true length
    pub len_override: Option<u16>,
}

pub const FLAG0_TWO_STEP: u8 = 0x02;
pub const FLAG0_UNICAST: u8 = 0x04;
pub const FLAG1_LEAP61: u8 = 0x01;
pub const FLAG1_LEAP59: u8 = 0x02;

impl RawMsg {
    pub fn new(msg_type: u8) -> RawMsg {
        RawMsg {
            major_sdo: 0,
            msg_type,
            version: 0x12,
            domain: 0,
            minor_sdo: 0,
            flags: [0, 0],
            correction: 0,
            type_specific: [0; 4],
            port_identity: [0; 10],
            sequence_id: 0,
            control: 0,
            log_interval: 0,
            body: vec![0; body_len(msg_type).unwrap_or(0)],
            tlvs: vec![],
            trailer: vec![],
            len_override: None,
        }
    }
    /// CSPTP flavoured header: sdoId 0x300, PTP 2.1, unicast flag, logMessageInterval 0x7f.
    pub fn csptp(msg_type: u8, domain: u8, sequence_id: u16) -> RawMsg {
        let mut m = RawMsg::new(msg_type);
        m.major_sdo = 0x3;
        m.minor_sdo = 0x00;
        m.version = 0x12;
        m.domain = domain;
        m.sequence_id = sequence_id;
        m.flags = [FLAG0_UNICAST, 0];
        m.log_interval = 0x7f;
        m
    }
    pub fn true_len(&self) -> usize {
        34 + self.body.len() + self.tlvs.iter().map(|t| 4 + t.value.len()).sum::<usize>() + self.trailer.len()
    }
    pub fn encode(&self) -> Vec<u8> {
        let mut o = Vec::with_capacity(self.true_len());
        o.push((self.major_sdo << 4) | (self.msg_type & 0x0f));
        o.push(self.version);
        let l = self.len_override.unwrap_or(self.true_len().min(65535) as u16);
        o.extend_from_slice(&l.to_be_bytes());
        o.push(self.domain);
        o.push(self.minor_sdo);
        o.extend_from_slice(&self.flags);
        o.extend_from_slice(&self.correction.to_be_bytes());
        o.extend_from_slice(&self.type_specific);
        o.extend_from_slice(&self.port_identity);
        o.extend_from_slice(&self.sequence_id.to_be_bytes());
        o.push(self.control);
        o.push(self.log_interval);
        o.extend_from_slice(&self.body);
        for t in &self.tlvs {
            t.encode(&mut o);
        }
        o.extend_from_slice(&self.trailer);
        o
    }
    pub fn sdo(&self) -> u16 {
        ((self.major_sdo as u16) << 8) | self.minor_sdo as u16
    }
    pub fn two_step(&self) -> bool {
        self.flags[0] & FLAG0_TWO_STEP != 0
    }
    pub fn find_tlv(&self, typ: u16) -> Option<&RawTlv> {
        self.tlvs.iter().find(|t| t.typ == typ)
    }
    pub fn count_tlv(&self, typ: u16) -> usize {
        self.tlvs.iter().filter(|t| t.typ == typ).count()
    }
}

/// Lenient decoder: needs 34 bytes and a known message type whose fixed body fits; walks the
/// TLVs as far as they are complete (whatever is left goes to `trailer`). It does *not* check
/// versions, reserved bits or the messageLength against the buffer beyond clipping to it.
pub fn decode(buf: &[u8]) -> Option<RawMsg> {
    if buf.len() < 34 {
        return None;
    }
    let msg_type = buf[0] & 0x0f;
    let bl = body_len(msg_type)?;
    let mlen = u16::from_be_bytes([buf[2], buf[3]]) as usize;
    let end = mlen.min(buf.len());
    if end < 34 + bl {
        return None;
    }
    let mut m = RawMsg::new(msg_type);
    m.major_sdo = buf[0] >> 4;
    m.version = buf[1];
    m.len_override = Some(mlen as u16);
    m.domain = buf[4];
    m.minor_sdo = buf[5];
    m.flags = [buf[6], buf[7]];
    m.correction = i64::from_be_bytes(buf[8..16].try_into().unwrap());
    m.type_specific.copy_from_slice(&buf[16..20]);
    m.port_identity.copy_from_slice(&buf[20..30]);
    m.sequence_id = u16::from_be_bytes([buf[30], buf[31]]);
    m.control = buf[32];
    m.log_interval = buf[33];
    m.body = buf[34..34 + bl].to_vec();
    let mut p = 34 + bl;
    while end - p >= 4 {
        let typ = u16::from_be_bytes([buf[p], buf[p + 1]]);
        let l = u16::from_be_bytes([buf[p + 2], buf[p + 3]]) as usize;
        if p + 4 + l > end {
            break;
        }
        m.tlvs.push(RawTlv::new(typ, buf[p + 4..p + 4 + l].to_vec()));
        p += 4 + l;
    }
    m.trailer = buf[p..end].to_vec();
    Some(m)
}

/// 10-byte PTP timestamp: 48-bit seconds, 32-bit nanoseconds.
pub fn ts_bytes(seconds: u64, nanos: u32) -> [u8; 10] {
    let mut b = [0u8; 10];
    b[0..6].copy_from_slice(&seconds.to_be_bytes()[2..8]);
    b[6..10].copy_from_slice(&nanos.to_be_bytes());
    b
}
pub fn ts_parse(b: &[u8]) -> (u64, u32) {
    let mut s = [0u8; 8];
    s[2..8].copy_from_slice(&b[0..6]);
    (u64::from_be_bytes(s), u32::from_be_bytes(b[6..10].try_into().unwrap()))
}

/// CSPTP request TLV value (4 bytes, flag byte first).
pub fn csptp_request_tlv(flags: u8) -> RawTlv {
    RawTlv::new(TLV_CSPTP_REQUEST, vec![flags, 0, 0, 0])
}
/// CSPTP response TLV value: reqIngressTimestamp (10) + reqCorrectionField (8).
pub fn csptp_response_tlv(ingress: (u64, u32), correction: i64) -> RawTlv {
    let mut v = ts_bytes(ingress.0, ingress.1).to_vec();
    v.extend_from_slice(&correction.to_be_bytes());
    RawTlv::new(TLV_CSPTP_RESPONSE, v)
}
/// CSPTP status TLV value (18 bytes): priority1, clockQuality(4), priority2, stepsRemoved(2),
/// currentUtcOffset(2), grandmasterIdentity(8).
pub fn csptp_status_tlv(p1: u8, quality: [u8; 4], p2: u8, steps_removed: u16, utc_offset: i16, gm: [u8; 8]) -> RawTlv {
    let mut v = vec![p1];
    v.extend_from_slice(&quality);
    v.push(p2);
    v.extend_from_slice(&steps_removed.to_be_bytes());
    v.extend_from_slice(&utc_offset.to_be_bytes());
    v.extend_from_slice(&gm);
    RawTlv::new(TLV_CSPTP_STATUS, v)
}

/// hostile mutations of a datagram
pub fn mutate(rng: &mut Rng, d: &mut Vec<u8>) -> &'static str {
    match rng.below(8) {
        0 => {
            if !d.is_empty() {
                let n = 1 + rng.below(4);
                for _ in 0..n {
                    let i = rng.below(d.len() as u64) as usize;
                    d[i] ^= 1 << rng.below(8);
                }
            }
            "bitflip"
        }
        1 => {
            if !d.is_empty() {
                let k = rng.below(d.len() as u64) as usize;
                d.truncate(k);
            }
            "truncate"
        }
        2 => {
            let k = rng.usize(1, 40);
            let extra = rng.bytes(k);
            d.extend_from_slice(&extra);
            "append"
        }
        3 => {
            if d.len() >= 4 {
                let l = u16::from_be_bytes([d[2], d[3]]);
                let nl = l.wrapping_add(*rng.pick(&[1u16, 2, 3, 4, 0xffff, 0xfffe, 0xfffc, 0x100]));
                d[2..4].copy_from_slice(&nl.to_be_bytes());
            }
            "msglen"
        }
        4 => {
            if !d.is_empty() {
                let i = rng.below(d.len() as u64) as usize;
                d[i] = *rng.pick(&[0u8, 0xff, 0x80, 0x7f, 1]);
            }
            "byteset"
        }
        5 => {
            // tweak something that looks like a TLV length (last 2..40 bytes)
            if d.len() > 48 {
                let i = rng.usize(44, d.len() - 2);
                let v = *rng.pick(&[0u16, 1, 2, 3, 4, 5, 0xffff, 0x7fff]);
                d[i..i + 2].copy_from_slice(&v.to_be_bytes());
            }
            "tlvlen"
        }
        6 => {
            if !d.is_empty() {
                d[0] = (d[0] & 0xf0) | rng.below(16) as u8;
            }
            "msgtype"
        }
        _ => {
            if d.len() > 2 {
                let a = rng.below(d.len() as u64) as usize;
                let b = rng.below(d.len() as u64) as usize;
                d.swap(a, b);
            }
            "swap"
        }
    }
}

// ---------------------------------------------------------------------------------------------
// virtual-time executor
// ---------------------------------------------------------------------------------------------

#[derive(Default)]
pub struct SimState {
    /// virtual time in nanoseconds since the start of the case
    pub now_ns: u128,
    next_sleep_id: u64,
    /// (id, deadline) of sleeps that have not completed and were not dropped
    sleeps: Vec<(u64, u128)>,
    /// number of times the clock was advanced
    pub advances: u64,
}

#[derive(Clone, Default)]
pub struct Sim(pub Rc<RefCell<SimState>>);

pub struct Sleep {
    sim: Sim,
    id: u64,
    deadline: u128,
    done: bool,
}

impl Future for Sleep {
    type Output = ();
    fn poll(mut self: Pin<&mut Self>, _cx: &mut Context<'_>) -> Poll<()> {
        if self.done {
            return Poll::Ready(());
        }
        let now = self.sim.0.borrow().now_ns;
        if now >= self.deadline {
            self.done = true;
            let id = self.id;
            self.sim.0.borrow_mut().sleeps.retain(|(i, _)| *i != id);
            Poll::Ready(())
        } else {
            Poll::Pending
        }
    }
}

impl Drop for Sleep {
    fn drop(&mut self) {
        let id = self.id;
        if let Ok(mut s) = self.sim.0.try_borrow_mut() {
            s.sleeps.retain(|(i, _)| *i != id);
        }
    }
}

impl Sim {
    pub fn new() -> Sim {
        Sim::default()
    }
    pub fn now_ns(&self) -> u128 {
        self.0.borrow().now_ns
    }
    pub fn sleep(&self, d: Duration) -> Sleep {
        let mut s = self.0.borrow_mut();
        let id = s.next_sleep_id;
        s.next_sleep_id += 1;
        let deadline = s.now_ns + d.as_nanos();
        s.sleeps.push((id, deadline));
        Sleep { sim: self.clone(), id, deadline, done: false }
    }
    /// Advance the virtual clock to the earliest pending deadline. False if nothing is pending.
    fn advance(&self) -> bool {
        let mut s = self.0.borrow_mut();
        // Only deadlines in the future matter: a sleep that has already expired but has not been
        // polled yet (e.g. the poll-interval timer of `CsptpSource::run` expiring while a longer
        // response timeout is still being awaited) must not pin the clock.
        let now = s.now_ns;
        let Some(min) = s.sleeps.iter().map(|(_, d)| *d).filter(|d| *d > now).min() else {
            return false;
        };
        s.now_ns = min;
        s.advances += 1;
        true
    }
    /// Drive `fut` to completion. Whenever it is blocked the virtual clock jumps to the next
    /// sleep deadline. Returns `None` when the future is blocked with no pending sleep
    /// (deadlock) or after `max_polls` polls (both are harness conditions, not verdicts).
    pub fn block_on<F: Future>(&self, fut: F, max_polls: u64) -> Option<F::Output> {
        let mut fut = std::pin::pin!(fut);
        let waker = noop_waker();
        let mut cx = Context::from_waker(&waker);
        let mut polls = 0u64;
        let mut idle = 0u32;
        loop {
            polls += 1;
            if polls > max_polls {
                return None;
            }
            let before = self.now_ns();
            if let Poll::Ready(v) = fut.as_mut().poll(&mut cx) {
                return Some(v);
            }
            let advanced = self.advance();
            // a blocked future with no pending sleep (or an already expired one) and no progress:
            // give it a few more polls (flags set during the last poll are seen by the next
            // one), then give up
            if !advanced || self.now_ns() == before {
                idle += 1;
                if idle > 8 {
                    return None;
                }
            } else {
                idle = 0;
            }
        }
    }
}

fn noop_waker() -> Waker {
    fn clone(_: *const ()) -> RawWaker {
        RawWaker::new(std::ptr::null(), &VTABLE)
    }
    fn noop(_: *const ()) {}
    static VTABLE: RawWakerVTable = RawWakerVTable::new(clone, noop, noop, noop);
    // SAFETY: the vtable functions do nothing and the data pointer is never dereferenced
    unsafe { Waker::from_raw(RawWaker::new(std::ptr::null(), &VTABLE)) }
}

/// A future that is pending forever.
pub struct Never;
impl Future for Never {
    type Output = ();
    fn poll(self: Pin<&mut Self>, _cx: &mut Context<'_>) -> Poll<()> {
        Poll::Pending
    }
}

/// A future that becomes ready once the shared flag is set.
pub struct Flag(pub Rc<std::cell::Cell<bool>>);
impl Future for Flag {
    type Output = ();
    fn poll(self: Pin<&mut Self>, _cx: &mut Context<'_>) -> Poll<()> {
        if self.0.get() { Poll::Ready(()) } else { Poll::Pending }
    }
}

/// xoshiro-backed `rand::RngCore` so that the code under test draws its jitter from the case seed.
pub struct SeededRng(pub Rng);
impl rand::RngCore for SeededRng {
    fn next_u32(&mut self) -> u32 {
        self.0.u32()
    }
    fn next_u64(&mut self) -> u64 {
        self.0.u64()
    }
    fn fill_bytes(&mut self, dest: &mut [u8]) {
        self.0.fill(dest)
    }
    fn try_fill_bytes(&mut self, dest: &mut [u8]) -> Result<(), rand::Error> {
        self.0.fill(dest);
        Ok(())
    }
}
