//! Shared helpers of the spawner monitors (C35, C36): scripted DNS answers through
//! the guarded injection table (hook H4) and small utilities to act as the
//! "system side" of a spawner.

use ntpd::verif::dns_inject::{self, DnsAnswer, DnsTable};
use std::net::{IpAddr, Ipv4Addr, Ipv6Addr, SocketAddr};

/// Install a resolver table with one scripted name. The last answer repeats forever.
pub fn install_dns(name: &str, port: u16, answers: Vec<DnsAnswer>) {
    let mut t = DnsTable::default();
    t.answers.insert((name.to_string(), port), answers);
    dns_inject::install(t);
}

pub fn uninstall_dns() {
    let _ = dns_inject::uninstall();
}

/// number of lookups performed so far
pub fn dns_log_len() -> usize {
    dns_inject::with_table(|t| t.log.len()).unwrap_or(0)
}

/// answer index used by the most recent lookup
pub fn dns_last_index() -> Option<usize> {
    dns_inject::with_table(|t| t.log.last().map(|l| l.2)).flatten()
}

/// Uninstalls the table when dropped (also on an unwinding panic of the harness).
pub struct DnsGuard;
impl Drop for DnsGuard {
    fn drop(&mut self) {
        uninstall_dns();
    }
}

/// a small universe of distinct documentation addresses (v4 and v6), all on `port`
pub fn universe(n: usize, port: u16) -> Vec<SocketAddr> {
    (0..n)
        .map(|i| {
            if i % 3 == 2 {
                SocketAddr::new(IpAddr::V6(Ipv6Addr::new(0x2001, 0xdb8, 0, 0, 0, 0, 0, 1 + i as u16)), port)
            } else {
                SocketAddr::new(IpAddr::V4(Ipv4Addr::new(192, 0, 2, 1 + i as u8)), port)
            }
        })
        .collect()
}

pub fn answer_json(a: &DnsAnswer) -> serde_json::Value {
    match a {
        DnsAnswer::Addrs(v) => serde_json::json!(v.iter().map(|x| x.to_string()).collect::<Vec<_>>()),
        DnsAnswer::Error => serde_json::json!("lookup-error"),
    }
}

/// Await `f`, turning a panic of the polled future into `Err(PanicInfo)`.
pub async fn guard_async<F: std::future::Future>(f: F) -> Result<F::Output, crate::core::PanicInfo> {
    let mut f = std::pin::pin!(f);
    std::future::poll_fn(move |cx| {
        match std::panic::catch_unwind(std::panic::AssertUnwindSafe(|| f.as_mut().poll(cx))) {
            Ok(std::task::Poll::Ready(v)) => std::task::Poll::Ready(Ok(v)),
            Ok(std::task::Poll::Pending) => std::task::Poll::Pending,
            Err(_) => std::task::Poll::Ready(Err(crate::core::take_last_panic())),
        }
    })
    .await
}
