//! Independent reference view of NTP datagrams (RFC 5905 / RFC 7822 / RFC 8915 /
//! draft-ietf-ntp-ntpv5) used by the monitors' oracles. It shares no code with
//! `ntp-proto`: it reads and writes bytes at fixed offsets.
//!
//! It is deliberately *lenient* (it describes what is on the wire, it does not
//! decide validity): oracles combine it with what they know about the datagram
//! they built.

#[derive(Clone, Debug, PartialEq, Eq)]
pub struct RefHeader {
    pub leap: u8,
    pub version: u8,
    pub mode: u8,
    pub stratum: u8,
    pub poll: u8,
    pub precision: u8,
    /// v3/v4: root delay / dispersion in NTP short format (raw u32); v5: time32 raw
    pub root_delay: u32,
    pub root_dispersion: u32,
    /// v3/v4 only
    pub reference_id: [u8; 4],
    pub reference_ts: u64,
    /// v3/v4: origin timestamp; v5: client cookie (same 8 bytes semantics: echoed from request)
    pub origin: u64,
    pub receive_ts: u64,
    pub transmit_ts: u64,
    /// v5 only
    pub timescale: u8,
    pub era: u8,
    pub flags: u16,
    pub server_cookie: u64,
}

pub const EF_UNIQUE_ID: u16 = 0x0104;
pub const EF_NTS_COOKIE: u16 = 0x0204;
pub const EF_NTS_PLACEHOLDER: u16 = 0x0304;
pub const EF_NTS_AUTH: u16 = 0x0404;
pub const EF_V5_DRAFT_ID: u16 = 0xF5FF;
pub const EF_V5_PADDING: u16 = 0xF501;
pub const EF_V5_REFID_REQ: u16 = 0xF503;
pub const EF_V5_REFID_RESP: u16 = 0xF504;

pub const UPGRADE_MARKER: u64 = u64::from_be_bytes(*b"NTP5DRFT");

#[derive(Clone, Debug, PartialEq, Eq)]
pub struct RefField {
    pub type_id: u16,
    /// the length field as on the wire (header + value, excluding v5 padding to 4)
    pub length: u16,
    /// offset of the field header in the datagram
    pub offset: usize,
    /// value bytes (length - 4 bytes)
    pub value: Vec<u8>,
}

#[derive(Clone, Debug, PartialEq, Eq)]
pub struct RefPacket {
    pub header: RefHeader,
    pub fields: Vec<RefField>,
    /// bytes after the last parsable extension field (a legacy MAC or garbage)
    pub trailer: Vec<u8>,
}

fn be32(b: &[u8]) -> u32 {
    u32::from_be_bytes([b[0], b[1], b[2], b[3]])
}
fn be64(b: &[u8]) -> u64 {
    u64::from_be_bytes([b[0], b[1], b[2], b[3], b[4], b[5], b[6], b[7]])
}

pub fn parse_header(d: &[u8]) -> Option<RefHeader> {
    if d.len() < 48 {
        return None;
    }
    let version = (d[0] >> 3) & 7;
    let mut h = RefHeader {
        leap: d[0] >> 6,
        version,
        mode: d[0] & 7,
        stratum: d[1],
        poll: d[2],
        precision: d[3],
        root_delay: be32(&d[4..8]),
        root_dispersion: be32(&d[8..12]),
        reference_id: [0; 4],
        reference_ts: 0,
        origin: 0,
        receive_ts: be64(&d[32..40]),
        transmit_ts: be64(&d[40..48]),
        timescale: 0,
        era: 0,
        flags: 0,
        server_cookie: 0,
    };
    if version == 5 {
        h.timescale = d[12];
        h.era = d[13];
        h.flags = u16::from_be_bytes([d[14], d[15]]);
        h.server_cookie = be64(&d[16..24]);
        h.origin = be64(&d[24..32]);
    } else {
        h.reference_id = [d[12], d[13], d[14], d[15]];
        h.reference_ts = be64(&d[16..24]);
        h.origin = be64(&d[24..32]);
    }
    Some(h)
}

/// Walks the TLV area after the 48-byte header. Stops at the first thing that is
/// not a complete field; whatever is left is the trailer.
pub fn parse(d: &[u8]) -> Option<RefPacket> {
    let header = parse_header(d)?;
    let v5 = header.version == 5;
    let mut fields = Vec::new();
    let mut off = 48;
    loop {
        let rest = &d[off..];
        if rest.len() < 4 {
            break;
        }
        // a legacy MAC (key id + 16/20 byte digest) in v3/v4 is at most 24 bytes
        if !v5 && rest.len() <= 24 {
            break;
        }
        let type_id = u16::from_be_bytes([rest[0], rest[1]]);
        let length = u16::from_be_bytes([rest[2], rest[3]]) as usize;
        if length < 4 {
            break;
        }
        let padded = (length + 3) & !3;
        if padded > rest.len() {
            break;
        }
        fields.push(RefField {
            type_id,
            length: length as u16,
            offset: off,
            value: rest[4..length].to_vec(),
        });
        off += padded;
    }
    Some(RefPacket {
        header,
        fields,
        trailer: d[off..].to_vec(),
    })
}

impl RefHeader {
    pub fn request(version: u8, poll: u8, transmit_or_cookie: u64) -> RefHeader {
        RefHeader {
            leap: if version == 5 { 3 } else { 0 },
            version,
            mode: 3,
            stratum: 0,
            poll,
            precision: 0,
            root_delay: 0,
            root_dispersion: 0,
            reference_id: [0; 4],
            reference_ts: 0,
            origin: if version == 5 { transmit_or_cookie } else { 0 },
            receive_ts: 0,
            transmit_ts: if version == 5 { 0 } else { transmit_or_cookie },
            timescale: 0,
            era: 0,
            flags: 0,
            server_cookie: 0,
        }
    }

    pub fn encode(&self) -> Vec<u8> {
        let mut v = Vec::with_capacity(48);
        v.push((self.leap << 6) | ((self.version & 7) << 3) | (self.mode & 7));
        v.push(self.stratum);
        v.push(self.poll);
        v.push(self.precision);
        v.extend_from_slice(&self.root_delay.to_be_bytes());
        v.extend_from_slice(&self.root_dispersion.to_be_bytes());
        if self.version == 5 {
            v.push(self.timescale);
            v.push(self.era);
            v.extend_from_slice(&self.flags.to_be_bytes());
            v.extend_from_slice(&self.server_cookie.to_be_bytes());
            v.extend_from_slice(&self.origin.to_be_bytes());
        } else {
            v.extend_from_slice(&self.reference_id);
            v.extend_from_slice(&self.reference_ts.to_be_bytes());
            v.extend_from_slice(&self.origin.to_be_bytes());
        }
        v.extend_from_slice(&self.receive_ts.to_be_bytes());
        v.extend_from_slice(&self.transmit_ts.to_be_bytes());
        v
    }
}

/// Encode one extension field: header + value + zero padding to a multiple of 4.
/// `length_override` lets hostile generators lie about the length.
pub fn encode_field(type_id: u16, value: &[u8], v5: bool, length_override: Option<u16>) -> Vec<u8> {
    let real = 4 + value.len();
    let padded = (real + 3) & !3;
    // v4: the length field includes the padding; v5: it does not
    let len_field = length_override.unwrap_or(if v5 { real as u16 } else { padded as u16 });
    let mut v = Vec::with_capacity(padded);
    v.extend_from_slice(&type_id.to_be_bytes());
    v.extend_from_slice(&len_field.to_be_bytes());
    v.extend_from_slice(value);
    v.resize(padded, 0);
    v
}

/// The kiss code of a v3/v4 stratum-0 answer, if any.
pub fn kiss_code(h: &RefHeader) -> Option<[u8; 4]> {
    (h.version != 5 && h.stratum == 0 && h.mode == 4).then_some(h.reference_id)
}
