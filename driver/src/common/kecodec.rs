//! Independent NTS-KE record codec (RFC 8915 section 4: type u16 with critical bit,
//! body length u16, body) and structure-aware generators of record streams.
//! Written for the harness from the RFC; shares no code with `ntp_proto::nts`.
//! Owner: group a7 (C28, C29, C30).

use crate::core::Rng;

pub const T_EOM: u16 = 0;
pub const T_NEXT_PROTO: u16 = 1;
pub const T_ERROR: u16 = 2;
pub const T_WARNING: u16 = 3;
pub const T_AEAD: u16 = 4;
pub const T_COOKIE: u16 = 5;
pub const T_SERVER: u16 = 6;
pub const T_PORT: u16 = 7;
// ntpd-rs pool extension records
pub const T_KEEPALIVE: u16 = 8;
pub const T_SUP_PROTO: u16 = 9;
pub const T_SUP_ALG: u16 = 10;
pub const T_FIXED_KEY: u16 = 12;
pub const T_DENY: u16 = 13;
pub const T_AUTH: u16 = 14;

pub const PROTO_NTPV4: u16 = 0;
pub const PROTO_NTPV5: u16 = 0x8001;
pub const AEAD_SIV_256: u16 = 15;
pub const AEAD_SIV_512: u16 = 17;

pub const ERR_UNRECOGNIZED_CRITICAL: u16 = 0;
pub const ERR_BAD_REQUEST: u16 = 1;
pub const ERR_INTERNAL: u16 = 2;

/// key length in bytes of the AEAD algorithms the server is documented to support
pub fn aead_key_len(id: u16) -> Option<usize> {
    match id {
        AEAD_SIV_256 => Some(32),
        AEAD_SIV_512 => Some(64),
        _ => None,
    }
}

#[derive(Clone, Debug, PartialEq, Eq, Hash)]
pub struct Rec {
    /// 15-bit record type
    pub typ: u16,
    pub critical: bool,
    pub body: Vec<u8>,
}

impl Rec {
    pub fn new(typ: u16, critical: bool, body: Vec<u8>) -> Rec {
        Rec { typ: typ & 0x7fff, critical, body }
    }
    pub fn u16s(typ: u16, critical: bool, ids: &[u16]) -> Rec {
        let mut body = Vec::with_capacity(ids.len() * 2);
        for i in ids {
            body.extend_from_slice(&i.to_be_bytes());
        }
        Rec::new(typ, critical, body)
    }
    pub fn eom() -> Rec {
        Rec::new(T_EOM, true, vec![])
    }
    pub fn keepalive() -> Rec {
        Rec::new(T_KEEPALIVE, false, vec![])
    }
    pub fn auth(token: &[u8]) -> Rec {
        Rec::new(T_AUTH, false, token.to_vec())
    }
    pub fn ids(&self) -> Option<Vec<u16>> {
        if self.body.len() % 2 != 0 {
            return None;
        }
        Some(self.body.chunks(2).map(|c| u16::from_be_bytes([c[0], c[1]])).collect())
    }
    pub fn encode_into(&self, out: &mut Vec<u8>) {
        let t = self.typ | if self.critical { 0x8000 } else { 0 };
        out.extend_from_slice(&t.to_be_bytes());
        out.extend_from_slice(&(self.body.len() as u16).to_be_bytes());
        out.extend_from_slice(&self.body);
    }
    pub fn to_json(&self) -> serde_json::Value {
        serde_json::json!({"type": self.typ, "critical": self.critical, "body_hex": crate::core::hex(&self.body)})
    }
}

pub fn encode(recs: &[Rec]) -> Vec<u8> {
    let mut out = vec![];
    for r in recs {
        r.encode_into(&mut out);
    }
    out
}

#[derive(Clone, Debug, Default)]
pub struct Decoded {
    pub recs: Vec<Rec>,
    /// bytes used by the records in `recs`
    pub used: usize,
    /// the last record in `recs` is an end-of-message record
    pub complete: bool,
}

/// Decode records from `bytes` until (and including) the first end-of-message record,
/// the end of the data, or a truncated record.
pub fn decode_message(bytes: &[u8]) -> Decoded {
    let mut d = Decoded::default();
    let mut pos = 0;
    while bytes.len() - pos >= 4 {
        let t = u16::from_be_bytes([bytes[pos], bytes[pos + 1]]);
        let len = u16::from_be_bytes([bytes[pos + 2], bytes[pos + 3]]) as usize;
        if bytes.len() - pos - 4 < len {
            break;
        }
        let rec = Rec::new(t & 0x7fff, t & 0x8000 != 0, bytes[pos + 4..pos + 4 + len].to_vec());
        pos += 4 + len;
        d.used = pos;
        let eom = rec.typ == T_EOM;
        d.recs.push(rec);
        if eom {
            d.complete = true;
            break;
        }
    }
    d
}

/// Decode every message in a byte stream (each ends with an end-of-message record).
pub fn decode_stream(mut bytes: &[u8]) -> (Vec<Vec<Rec>>, Vec<Rec>) {
    let mut msgs = vec![];
    loop {
        let d = decode_message(bytes);
        if d.complete {
            bytes = &bytes[d.used..];
            msgs.push(d.recs);
        } else {
            return (msgs, d.recs);
        }
    }
}

// ---------------------------------------------------------------------------------------
// generators

pub const KNOWN_TYPES: &[u16] = &[
    T_EOM, T_NEXT_PROTO, T_ERROR, T_WARNING, T_AEAD, T_COOKIE, T_SERVER, T_PORT, T_KEEPALIVE, T_SUP_PROTO, T_SUP_ALG,
    T_FIXED_KEY, T_DENY, T_AUTH,
];

pub fn any_proto(r: &mut Rng) -> u16 {
    match r.below(8) {
        0 | 1 => PROTO_NTPV4,
        2 | 3 => PROTO_NTPV5,
        4 => *r.pick(&[1u16, 0x8000, 0x8002, 0x7fff, 0xffff, 2]),
        _ => r.u16(),
    }
}

pub fn any_aead(r: &mut Rng) -> u16 {
    match r.below(8) {
        0 | 1 => AEAD_SIV_256,
        2 | 3 => AEAD_SIV_512,
        4 => *r.pick(&[16u16, 0, 1, 2, 14, 18, 30, 33, 0xffff]),
        _ => r.u16(),
    }
}

pub fn some_string(r: &mut Rng, max: usize) -> Vec<u8> {
    let n = match r.below(6) {
        0 => 0,
        1 => 1,
        2 => max,
        _ => r.usize(0, max.min(24)),
    };
    let mut v = Vec::with_capacity(n);
    let multibyte = r.chance(1, 4);
    while v.len() < n {
        if multibyte && n - v.len() >= 2 && r.chance(1, 3) {
            v.extend_from_slice("é".as_bytes());
        } else {
            v.push(*r.pick(b"abcdefghijklmnopqrstuvwxyz0123456789.-_ "));
        }
    }
    v
}

/// A plausible (usually well-formed) body for a record of the given type.
pub fn body_for(r: &mut Rng, typ: u16) -> Vec<u8> {
    match typ {
        T_EOM | T_KEEPALIVE => {
            if r.chance(1, 6) {
                let n = r.usize(1, 5);
                r.bytes(n)
            } else {
                vec![]
            }
        }
        T_NEXT_PROTO | T_SUP_PROTO => {
            let n = r.usize(0, 4);
            let ids: Vec<u16> = (0..n).map(|_| any_proto(r)).collect();
            Rec::u16s(0, false, &ids).body
        }
        T_AEAD => {
            let n = r.usize(0, 4);
            let ids: Vec<u16> = (0..n).map(|_| any_aead(r)).collect();
            Rec::u16s(0, false, &ids).body
        }
        T_SUP_ALG => {
            let n = r.usize(0, 4);
            let mut ids = vec![];
            for _ in 0..n {
                ids.push(any_aead(r));
                ids.push(*r.pick(&[32u16, 64, 0, 16, 0xffff]));
            }
            Rec::u16s(0, false, &ids).body
        }
        T_ERROR | T_WARNING => Rec::u16s(0, false, &[*r.pick(&[0u16, 1, 2, 3, 0xffff])]).body,
        T_PORT => Rec::u16s(0, false, &[*r.pick(&[123u16, 0, 4460, 0xffff])]).body,
        T_COOKIE => {
            let n = *r.pick(&[0usize, 1, 16, 100, 104, 168, 200, 500]);
            r.bytes(n)
        }
        T_SERVER | T_DENY | T_AUTH => some_string(r, 40),
        T_FIXED_KEY => {
            let n = *r.pick(&[32usize, 32, 64, 64, 0, 16, 33, 48]);
            r.bytes(2 * n)
        }
        _ => {
            let n = *r.pick(&[0usize, 0, 1, 2, 7, 64]);
            r.bytes(n)
        }
    }
}

/// A record of (mostly) known type with a (mostly) valid body.
pub fn any_record(r: &mut Rng) -> Rec {
    let typ = match r.below(10) {
        0 => *r.pick(&[11u16, 15, 16, 50, 0x7fff, 1000]),
        1 => r.u16() & 0x7fff,
        _ => *r.pick(KNOWN_TYPES),
    };
    let mut body = body_for(r, typ);
    if r.chance(1, 8) {
        // damage the body: odd length, invalid utf-8, extra bytes
        match r.below(4) {
            0 => body.push(r.u8()),
            1 => {
                body.pop();
            }
            2 => body.extend_from_slice(&[0xff, 0xfe]),
            _ => {
                let n = r.usize(0, 9);
                body = r.bytes(n);
            }
        }
    }
    let critical = match r.below(4) {
        0 => false,
        1 => true,
        _ => !matches!(typ, T_COOKIE | T_KEEPALIVE | T_DENY | T_AUTH),
    };
    Rec::new(typ, critical, body)
}

/// Records of a well-formed plain key-exchange request (without end-of-message).
pub fn ke_request(protocols: &[u16], algorithms: &[u16]) -> Vec<Rec> {
    vec![Rec::u16s(T_NEXT_PROTO, true, protocols), Rec::u16s(T_AEAD, true, algorithms)]
}

/// Records of a well-formed fixed-key request (without end-of-message).
pub fn fixed_key_request(token: &[u8], c2s: &[u8], s2c: &[u8], protocol: u16, algorithm: u16, keep_alive: bool) -> Vec<Rec> {
    let mut body = c2s.to_vec();
    body.extend_from_slice(s2c);
    let mut v = vec![
        Rec::auth(token),
        Rec::new(T_FIXED_KEY, true, body),
        Rec::u16s(T_NEXT_PROTO, true, &[protocol]),
        Rec::u16s(T_AEAD, true, &[algorithm]),
    ];
    if keep_alive {
        v.push(Rec::keepalive());
    }
    v
}

/// Records of a well-formed supported-parameters request (without end-of-message).
pub fn support_request(token: &[u8], protocols: bool, algorithms: bool, keep_alive: bool) -> Vec<Rec> {
    let mut v = vec![Rec::auth(token)];
    if protocols {
        v.push(Rec::new(T_SUP_PROTO, true, vec![]));
    }
    if algorithms {
        v.push(Rec::new(T_SUP_ALG, true, vec![]));
    }
    if keep_alive {
        v.push(Rec::keepalive());
    }
    v
}

/// Records of a well-formed key-exchange response (without end-of-message).
pub fn ke_response(protocol: u16, algorithm: u16, cookies: &[Vec<u8>], server: Option<&[u8]>, port: Option<u16>) -> Vec<Rec> {
    let mut v = vec![Rec::u16s(T_NEXT_PROTO, true, &[protocol]), Rec::u16s(T_AEAD, true, &[algorithm])];
    for c in cookies {
        v.push(Rec::new(T_COOKIE, false, c.clone()));
    }
    if let Some(s) = server {
        v.push(Rec::new(T_SERVER, true, s.to_vec()));
    }
    if let Some(p) = port {
        v.push(Rec::u16s(T_PORT, true, &[p]));
    }
    v
}

/// An ignorable record (unknown type, not critical).
pub fn padding_record(r: &mut Rng, body_len: usize) -> Rec {
    let typ = *r.pick(&[11u16, 15, 100, 0x4000, 0x7fff]);
    Rec::new(typ, false, r.bytes(body_len))
}
