//! C26 — server cookies are confidential, tamper-evident and rotate on schedule.
//!
//! Events: `KeySet::encode_cookie` / `KeySet::decode_cookie` (guarded hook wrappers) on the key sets
//! a real `KeySetProvider` goes through while it is rotated; the provider's stored key file before
//! and after each rotation (public `store`).
//! Oracle (reference model of the statement): a cookie issued at rotation i decodes to exactly its
//! (algorithm, s2c, c2s) at rotations i ..= i+history and fails from i+history+1 on; a new cookie
//! opens under the *newest* key (the key that is in the store after the rotation and was not before),
//! checked with the AES-SIV primitive directly; the session keys do not appear in the cookie bytes;
//! any byte substituted inside the cookie, any truncation, and any cookie of an unrelated key set
//! (also one with the same key ids) fails to decode.

use std::collections::HashSet;
use std::sync::Arc;

use crate::common::pktgen::{self, AEAD_256, AEAD_512, ServerKeys, SessionKeys};
use crate::core::{Case, Profiles, Prop, Tier, guard, hex};
use ntp_proto::verif::packet::a6 as hk;
use ntp_proto::verif::pkt as hp;
use ntp_proto::{KeySet, KeySetProvider};
use serde_json::json;

pub static PROP: Prop = Prop {
    id: "C26",
    level: "exploration",
    rule: "case = one rotation history: history length 0-4, 0-40 rotations, start state either KeySetProvider::new or a \
           key file with 1..=history+1 keys and an id offset near 0 / near 2^32 / random; 1-2 cookies (random session keys, \
           both AEAD algorithms) issued at every rotation and every cookie ever issued decoded at every later rotation; \
           1-2 cookies per case get every byte position substituted by 2 values and every truncation; 2 foreign key sets \
           (fresh, and same ids with other keys) probed per case. Distinct non-trivial = distinct (history, rotation-count \
           bucket, start kind, number of keys at start, algorithms used) tuples.",
    assumptions: &[
        "key material of the newest key is read from the bytes written by the public KeySetProvider::store (20-byte header, 64 bytes per key); it is used only for the newest-key check",
        "a cookie sealed by the harness under an older key of a loaded start state counts as issued that many rotations earlier",
    ],
    profiles: Profiles::Both,
    cases: |t| t.pick(30_000, 300_000),
    budget_s: |t| t.pick(30, 300),
    run,
    min_nontrivial: 40,
    required_counters: &[
        "rotations",
        "cookies_issued",
        "decode_expected_ok",
        "decode_expected_expired",
        "expired_first_rotation_probes",
        "newest_key_checks",
        "tamper_probes",
        "truncation_probes",
        "foreign_probes",
        "history0_cases",
    ],
    exhaustive: false,
    crash_is_violation: false,
};

struct Issued {
    /// rotation index at which it was issued (negative for cookies sealed under older keys of a loaded start state)
    gen_issued: i64,
    session: SessionKeys,
    bytes: Vec<u8>,
}

fn keys_of(p: &KeySetProvider) -> Vec<Vec<u8>> {
    pktgen::parse_keyfile(&pktgen::stored_bytes(p)).map(|k| k.keys).unwrap_or_default()
}

fn contains_chunk(hay: &[u8], key: &[u8]) -> bool {
    key.chunks(16).any(|ch| ch.len() == 16 && hay.windows(16).any(|w| w == ch))
}

fn run(c: &mut Case) {
    let history = c.rng.below(5) as usize;
    let rotations = match c.rng.below(4) {
        0 => c.rng.usize(0, 3),
        1 => c.rng.usize(0, 12),
        _ => c.rng.usize(history, 40.min(history + c.tier.pick(14, 40))),
    };
    if history == 0 {
        c.inc("history0_cases");
    }
    // start state
    let loaded_start = c.rng.chance(1, 3);
    let mut issued: Vec<Issued> = Vec::new();
    let mut newest: Option<Vec<u8>>;
    let mut provider: KeySetProvider;
    let mut start_keys = 1usize;
    let script;
    if loaded_start {
        let n = c.rng.usize(1, history + 1);
        start_keys = n;
        let keys: Vec<Vec<u8>> = (0..n).map(|_| c.rng.bytes(64)).collect();
        let id_offset = match c.rng.below(3) {
            0 => c.rng.below(3) as u32,
            1 => u32::MAX - c.rng.below(6) as u32,
            _ => c.rng.u32(),
        };
        let Some(sk) = ServerKeys::from_parts(keys.clone(), id_offset, (n - 1) as u32, history) else {
            c.harness_error("well-formed key file did not load");
            return;
        };
        // cookies "issued" under the older keys of the loaded set: key j is n-1-j rotations old
        for j in 0..n.saturating_sub(1) {
            let alg = if c.rng.bool() { AEAD_256 } else { AEAD_512 };
            let s = SessionKeys::random(&mut c.rng, alg);
            let bytes = sk.seal_cookie(&mut c.rng, j, &s.cookie_plaintext());
            issued.push(Issued { gen_issued: j as i64 - (n as i64 - 1), session: s, bytes });
        }
        newest = Some(keys[n - 1].clone());
        script = json!({"start": "loaded", "keys": n, "id_offset": id_offset, "history": history, "rotations": rotations,
                        "keyfile_hex": hex(&pktgen::keyfile_bytes(1_700_000_000, id_offset, (n - 1) as u32, &keys))});
        provider = sk.provider;
    } else {
        provider = KeySetProvider::new(history);
        let k = keys_of(&provider);
        newest = if k.len() == 1 { Some(k[0].clone()) } else { None };
        script = json!({"start": "new", "history": history, "rotations": rotations});
    }
    let mut algs_used = 0u8;
    let mut tamper_budget = 1 + c.rng.below(2);
    let prof = c.profile;

    for g in 0..=rotations as i64 {
        if g > 0 {
            let before: HashSet<Vec<u8>> = keys_of(&provider).into_iter().collect();
            if guard(|| provider.rotate()).is_err() {
                c.violation(format!("rotate-panic/{prof}"), "KeySetProvider::rotate panicked", script.clone());
                return;
            }
            c.inc("rotations");
            let fresh: Vec<Vec<u8>> = keys_of(&provider).into_iter().filter(|k| !before.contains(k)).collect();
            newest = if fresh.len() == 1 { Some(fresh[0].clone()) } else { None };
        }
        let ks: Arc<KeySet> = provider.get();

        // issue
        for _ in 0..c.rng.usize(1, 2) {
            let alg = if c.rng.bool() { AEAD_256 } else { AEAD_512 };
            algs_used |= if alg == AEAD_256 { 1 } else { 2 };
            let s = SessionKeys::random(&mut c.rng, alg);
            let Some(dc) = hp::make_cookie(alg, &s.s2c, &s.c2s) else {
                c.harness_error("make_cookie refused well-sized keys");
                return;
            };
            let bytes = match guard(|| hp::encode_cookie(&ks, &dc)) {
                Ok(b) => b,
                Err(p) => {
                    c.violation(format!("encode-panic/{prof}/{}", p.site()), format!("encode_cookie panicked: {}", p.message), script.clone());
                    return;
                }
            };
            c.inc("cookies_issued");
            // confidentiality: no 16-byte piece of either session key in the clear
            if contains_chunk(&bytes, &s.s2c) || contains_chunk(&bytes, &s.c2s) {
                c.violation(
                    format!("key-in-clear/{prof}"),
                    "session key material appears unencrypted in the cookie",
                    json!({"script": script, "cookie_hex": hex(&bytes), "s2c_hex": hex(&s.s2c), "c2s_hex": hex(&s.c2s)}),
                );
                return;
            }
            // issued under the newest key: it must open under that key and give exactly the session
            if let Some(nk) = &newest {
                c.inc("newest_key_checks");
                let opened = if bytes.len() >= 22 {
                    let ctl = u16::from_be_bytes([bytes[4], bytes[5]]) as usize;
                    bytes.get(22..22 + ctl).and_then(|ct| hk::siv_decrypt(nk, &bytes[6..22], &[], ct))
                } else {
                    None
                };
                if opened.as_deref() != Some(&s.cookie_plaintext()[..]) {
                    c.violation(
                        format!("not-newest-key/{prof}"),
                        format!("a cookie issued after rotation {g} does not open under the newest key"),
                        json!({"script": script, "rotation": g, "cookie_hex": hex(&bytes)}),
                    );
                    return;
                }
            } else {
                c.inc("newest_key_unidentified");
            }
            issued.push(Issued { gen_issued: g, session: s, bytes });
        }

        // decode everything ever issued
        for (n, ck) in issued.iter().enumerate() {
            let age = g - ck.gen_issued;
            let expect_ok = age <= history as i64;
            let got = match guard(|| hp::decode_cookie_parts(&ks, &ck.bytes)) {
                Ok(v) => v,
                Err(p) => {
                    c.violation(format!("decode-panic/{prof}/{}", p.site()), format!("decode_cookie panicked: {}", p.message), json!({"script": script, "cookie_hex": hex(&ck.bytes)}));
                    return;
                }
            };
            let det = || json!({"script": script, "issued_at_rotation": ck.gen_issued, "decoded_at_rotation": g, "history": history, "cookie_hex": hex(&ck.bytes)});
            if expect_ok {
                c.inc("decode_expected_ok");
                match got {
                    None => {
                        c.violation(format!("valid-cookie-rejected/{prof}"), format!("cookie issued at rotation {} fails at rotation {g} although history is {history}", ck.gen_issued), det());
                        return;
                    }
                    Some((a, s2c, c2s)) => {
                        if a != ck.session.alg || s2c != ck.session.s2c || c2s != ck.session.c2s {
                            c.violation(format!("wrong-keys-decoded/{prof}"), "cookie decodes to other keys/algorithm than it was made from", det());
                            return;
                        }
                    }
                }
            } else {
                c.inc("decode_expected_expired");
                if age == history as i64 + 1 {
                    c.inc("expired_first_rotation_probes");
                }
                if got.is_some() {
                    c.violation(format!("expired-cookie-accepted/{prof}"), format!("cookie issued at rotation {} still decodes at rotation {g} (history {history})", ck.gen_issued), det());
                    return;
                }
            }
            let _ = n;
        }

        // tampering of a live cookie: every byte position x 2 substitutions, every truncation
        if tamper_budget > 0 && (g == rotations as i64 || c.rng.chance(1, 8)) {
            tamper_budget -= 1;
            let live: Vec<usize> = (0..issued.len()).filter(|i| g - issued[*i].gen_issued <= history as i64).collect();
            if let Some(&i) = live.get(c.rng.below(live.len().max(1) as u64) as usize) {
                let orig = issued[i].bytes.clone();
                for pos in 0..orig.len() {
                    for sub in 0..2 {
                        let mut t = orig.clone();
                        let x = if sub == 0 { 1u8 << c.rng.below(8) } else { c.rng.range(1, 255) as u8 };
                        t[pos] ^= x;
                        c.inc("tamper_probes");
                        let got = guard(|| hp::decode_cookie_parts(&ks, &t));
                        match got {
                            Ok(None) => {}
                            Ok(Some(_)) => {
                                let region = if pos < 4 { "key-id" } else if pos < 6 { "length" } else if pos < 22 { "nonce" } else { "ciphertext" };
                                c.violation(
                                    format!("tampered-cookie-accepted/{region}/{prof}"),
                                    format!("cookie with byte {pos} ({region}) xor {x:#04x} still decodes"),
                                    json!({"script": script, "cookie_hex": hex(&orig), "position": pos, "xor": x}),
                                );
                                return;
                            }
                            Err(p) => {
                                c.violation(format!("decode-panic/{prof}/{}", p.site()), format!("decode_cookie panicked on a tampered cookie: {}", p.message), json!({"script": script, "cookie_hex": hex(&t)}));
                                return;
                            }
                        }
                    }
                }
                for cut in 0..orig.len() {
                    c.inc("truncation_probes");
                    if let Ok(Some(_)) = guard(|| hp::decode_cookie_parts(&ks, &orig[..cut])) {
                        c.violation(format!("truncated-cookie-accepted/{prof}"), format!("cookie cut to {cut} of {} bytes still decodes", orig.len()), json!({"script": script, "cookie_hex": hex(&orig), "cut": cut}));
                        return;
                    }
                }
            }
        }
    }

    // foreign key sets: a fresh provider rotated as often (same ids when ours started from `new`), and one
    // with exactly our header but other key material
    let ks = provider.get();
    let ours = pktgen::parse_keyfile(&pktgen::stored_bytes(&provider));
    let mut foreign: Vec<Arc<KeySet>> = Vec::new();
    let mut f1 = KeySetProvider::new(history);
    for _ in 0..rotations {
        f1.rotate();
    }
    foreign.push(f1.get());
    if let Some(kf) = &ours {
        let keys: Vec<Vec<u8>> = kf.keys.iter().map(|_| c.rng.bytes(64)).collect();
        if let Some(sk) = ServerKeys::from_parts(keys, kf.id_offset, kf.primary, history) {
            foreign.push(sk.keyset);
        }
    }
    for f in &foreign {
        let alg = if c.rng.bool() { AEAD_256 } else { AEAD_512 };
        let s = SessionKeys::random(&mut c.rng, alg);
        let dc = hp::make_cookie(alg, &s.s2c, &s.c2s).unwrap();
        let theirs = hp::encode_cookie(f, &dc);
        c.inc("foreign_probes");
        if hp::decode_cookie_parts(&ks, &theirs).is_some() {
            c.violation(format!("foreign-cookie-accepted/{prof}"), "a cookie issued by an unrelated key set decodes", json!({"script": script, "cookie_hex": hex(&theirs)}));
            return;
        }
        if let Some(last) = issued.last() {
            c.inc("foreign_probes");
            if hp::decode_cookie_parts(f, &last.bytes).is_some() {
                c.violation(format!("foreign-cookie-accepted/{prof}"), "our cookie decodes under an unrelated key set", json!({"script": script, "cookie_hex": hex(&last.bytes)}));
                return;
            }
        }
    }
    c.sig_of(&(history, (rotations + 3) / 4, loaded_start, start_keys, algs_used));
    c.sample(|| json!({"script": script, "cookies": issued.len()}));
    if c.idx % 3 == 0 {
        restart_with_smaller_history(c, prof);
    }
}

/// The operator lowers the number of retained keys across a restart: keys stored under history h1 are loaded with
/// h2 <= h1 and rotated further. After at least one rotation under h2 the window is exactly h2 previous keys.
fn restart_with_smaller_history(c: &mut Case, prof: &str) {
    let h1 = c.rng.usize(1, 8);
    let h2 = c.rng.usize(0, h1);
    let r1 = c.rng.usize(h1, h1 + 6);
    let k = c.rng.usize(1, 3);
    let mut provider = KeySetProvider::new(h1);
    // (generation issued, cookie bytes, algorithm, s2c, c2s)
    let mut issued: Vec<(i64, Vec<u8>, u16, Vec<u8>, Vec<u8>)> = Vec::new();
    let mut generation: i64 = 0;
    let mut issue = |c: &mut Case, p: &KeySetProvider, generation: i64, issued: &mut Vec<(i64, Vec<u8>, u16, Vec<u8>, Vec<u8>)>| {
        let alg = if c.rng.bool() { AEAD_256 } else { AEAD_512 };
        let s = SessionKeys::random(&mut c.rng, alg);
        if let Some(dc) = hp::make_cookie(alg, &s.s2c, &s.c2s) {
            issued.push((generation, hp::encode_cookie(&p.get(), &dc), alg, s.s2c.clone(), s.c2s.clone()));
        }
    };
    issue(c, &provider, generation, &mut issued);
    for _ in 0..r1 {
        provider.rotate();
        generation += 1;
        issue(c, &provider, generation, &mut issued);
    }
    let bytes = pktgen::stored_bytes(&provider);
    let Ok((mut reloaded, _)) = KeySetProvider::load(&mut &bytes[..], h2) else {
        c.harness_error("a key file written by store() does not load");
        return;
    };
    for _ in 0..k {
        reloaded.rotate();
        generation += 1;
        issue(c, &reloaded, generation, &mut issued);
    }
    c.inc("history_reduced_restarts");
    let ks = reloaded.get();
    let script = json!({"scenario": "restart with smaller history", "history_before": h1, "history_after": h2, "rotations_before": r1, "rotations_after": k});
    for (g, bytes, alg, s2c, c2s) in &issued {
        let age = generation - g;
        let got = hp::decode_cookie_parts(&ks, bytes);
        c.inc("cookie_decodes");
        let det = || json!({"script": script, "issued_at_rotation": g, "decoded_at_rotation": generation, "cookie_hex": hex(bytes)});
        if age <= h2 as i64 {
            match got {
                Some((a, s, cc)) if a == *alg && &s == s2c && &cc == c2s => {}
                Some(_) => c.violation(format!("wrong-keys/after-history-reduction/{prof}"), "cookie decodes to other keys after a restart with a smaller history", det()),
                None => c.violation(
                    format!("valid-cookie-rejected/after-history-reduction/{prof}"),
                    format!("cookie issued {age} rotation(s) ago fails to decode although {h2} previous keys are configured (keys were stored under history {h1})"),
                    det(),
                ),
            }
        } else if got.is_some() {
            c.violation(format!("expired-cookie-accepted/after-history-reduction/{prof}"), format!("cookie issued {age} rotations ago still decodes with history {h2}"), det());
        }
    }
    c.sig_of(&("reduce", h1, h2, k));
}
