//! C07 — NTS sources ignore everything that is not authenticated under the session's
//! s2c key and bound to the pending request.
//!
//! Events: actions of `handle_incoming`, spy-controller events, the private state digest
//! and the public observables before/after each attacker datagram, and every later
//! request (cookie FIFO model). The monitor builds every attacker datagram itself, so it
//! knows which ones are not authentic.

use crate::common::refntp::{self, RefField};
use crate::common::srcbsim::{
    Act, CookieModel, DRAFT_ID, Fld, Forge, Keys, ReqView, SpyEv, UnitCfg, Ver, World, acts_json, answer_header, auth_field_raw,
    authentic_cookies, encode_fields, first_send, open, random_cookie, seal, skeleton, view_request,
};
use crate::core::{Case, Profiles, Prop, Tier, hex};
use serde_json::{Value, json};
use std::net::SocketAddr;
use std::time::Duration;

pub static PROP: Prop = Prop {
    id: "C07",
    level: "exploration",
    rule: "case = one NTS session of the real NtpSource (AEAD 256/512 x NTPv4/NTPv5 as negotiated by key exchange) against the real \
           Server+KeySet. idx%3==0: 'sweep' — one genuine answer is attacked at EVERY byte offset (one random bit flipped; every 8th \
           case all 8 bits) and truncated at every length; otherwise 'mixed' — 3-10 polls, each with 1-6 attacker datagrams drawn from \
           the catalogue (flip, truncate, re-seal under c2s / foreign key / other AEAD, stripped or garbage authenticator, uid moved \
           behind the authenticator, sealed with wrong uid / wrong origin, cookies inserted in the clear, unauthenticated RATE/DENY/RSTR/\
           unknown KISS with correct origin+uid, NTS-NAK with/without uid, plain answers, replays, other-version answers, reflected \
           request, noise) before/after the genuine answer. Non-trivial = at least one attacker datagram judged; signature = \
           (version, AEAD, attack label, region hit).",
    assumptions: &[
        "a datagram whose part up to and including the authenticator is byte-identical to the genuine answer to the pending request is authentic; \
         changes behind the authenticator (unauthenticated appendix) are only judged for cookie intake",
        "NTS sources exist only in the V4 and V5 protocol states (what key exchange can negotiate)",
        "the AEAD primitive is trusted; forging a valid tag by flipping bits is treated as impossible",
    ],
    profiles: Profiles::Strict,
    cases: |t| t.pick(6_000, 60_000),
    budget_s: |t| t.pick(60, 600),
    run,
    min_nontrivial: 40,
    required_counters: &[
        "attack_datagrams", "flip_datagrams", "trunc_datagrams", "resealed", "kiss_unauth", "ntsn", "replays", "plain_answers",
        "other_version", "clear_cookies", "genuine_accepted", "requests_judged",
    ],
    exhaustive: false,
    crash_is_violation: false,
};

struct Sess {
    w: World,
    u: usize,
    keys: Keys,
    ver: Ver,
    model: CookieModel,
    log: Vec<Value>,
    /// fake cookie values shown to the source in the clear / under wrong keys
    poison: Vec<Vec<u8>>,
}

fn vname(v: Ver) -> &'static str {
    match v {
        Ver::V4 => "v4",
        Ver::V5 => "v5",
        Ver::Upgrading => "v4up",
        Ver::Upgraded => "v5up",
    }
}

impl Sess {
    fn new(c: &mut Case) -> Sess {
        let alg = *c.rng.pick(&[15u16, 17]);
        let ver = *c.rng.pick(&[Ver::V4, Ver::V5]);
        let keys = Keys::random(&mut c.rng, alg);
        let mut w = World::new(16, vec![], 0xE200_0000_0000_0000 | c.rng.u32() as u64);
        let n0 = c.rng.usize(2, 8);
        let mut model = CookieModel::default();
        let mut initial = vec![];
        for _ in 0..n0 {
            let ck = keys.real_cookie(&w.keyset);
            model.deliver(ck.clone());
            initial.push(ck);
        }
        let addr: SocketAddr = "192.0.2.7:123".parse().unwrap();
        let u = w.add(UnitCfg { addr, ver, poll_min: 4, poll_max: 10, desired: c.rng.range(4, 8) as i8, nts: Some((keys.clone(), initial)) });
        let log = vec![json!({"aead": alg, "version": vname(ver), "c2s": hex(&keys.c2s), "s2c": hex(&keys.s2c)})];
        Sess { w, u, keys, ver, model, log, poison: vec![] }
    }

    /// fire the timer, judge the request against the cookie model
    fn poll(&mut self, c: &mut Case) -> Option<(Vec<u8>, ReqView)> {
        let acts = match self.w.timer(self.u) {
            Ok(a) => a,
            Err(_) => return None,
        };
        self.w.take_spy(self.u);
        let raw = first_send(&acts)?.clone();
        let req = view_request(&raw)?;
        self.log.push(json!({"request": hex(&raw)}));
        c.inc("requests_judged");
        if let Some(wire) = &req.cookie {
            if self.poison.iter().any(|p| wire.len() >= p.len() && wire[..p.len()] == p[..]) {
                c.violation(
                    format!("C07/cookie/unauthenticated-cookie-used/{}", vname(self.ver)),
                    format!("request carries a cookie that was only ever shown outside an authenticated encrypted field: {}", hex(wire)),
                    json!({"events": self.log}),
                );
                return None;
            }
        }
        if let Err((sig, msg)) = self.model.on_request(&req) {
            c.violation(format!("C07/cookie/{sig}/{}", vname(self.ver)), msg, json!({"events": self.log}));
            return None;
        }
        Some((raw, req))
    }

    /// deliver a datagram the monitor knows is NOT authentic+bound; any effect is a violation
    fn attack(&mut self, c: &mut Case, label: &str, region: &str, d: &[u8]) -> bool {
        c.inc("attack_datagrams");
        let before = (self.w.digest(self.u), self.w.observables(self.u));
        self.w.take_spy(self.u);
        let now = self.w.now_local();
        let r = self.w.incoming(self.u, d, now, now.wrapping_add(1 << 22));
        let evs = self.w.take_spy(self.u);
        let after = (self.w.digest(self.u), self.w.observables(self.u));
        c.sig_of(&(self.ver, self.keys.alg, label, region));
        let v = vname(self.ver);
        let detail = |s: &Sess, extra: Value| json!({"attack": label, "region": region, "datagram": hex(d), "effect": extra, "events": s.log});
        match r {
            Err(p) => {
                // a panic on hostile input is certainly an observable effect
                c.violation(
                    format!("C07/{label}/panic/{v}"),
                    format!("handle_incoming panicked on an unauthenticated datagram at {}: {}", p.location, p.message),
                    detail(self, json!(null)),
                );
                return false;
            }
            Ok(acts) => {
                if !acts.is_empty() {
                    c.violation(
                        format!("C07/{label}/actions/{v}"),
                        format!("unauthenticated datagram ({label}) made the NTS source return actions {acts:?}"),
                        detail(self, acts_json(&acts)),
                    );
                    return false;
                }
            }
        }
        if !evs.is_empty() {
            c.violation(
                format!("C07/{label}/controller-event/{v}"),
                format!("unauthenticated datagram ({label}) reached the source controller: {evs:?}"),
                detail(self, json!(format!("{evs:?}"))),
            );
            return false;
        }
        if before.1 != after.1 {
            c.violation(
                format!("C07/{label}/observable-state/{v}"),
                format!("unauthenticated datagram ({label}) changed the observable state: {:?} -> {:?}", before.1, after.1),
                detail(self, json!({"before": format!("{:?}", before.1), "after": format!("{:?}", after.1)})),
            );
            return false;
        }
        if before.0 != after.0 {
            c.violation(
                format!("C07/{label}/session-state/{v}"),
                format!("unauthenticated datagram ({label}) changed the session state: {:?} -> {:?}", before.0, after.0),
                detail(self, json!({"before": format!("{:?}", before.0), "after": format!("{:?}", after.0)})),
            );
            return false;
        }
        true
    }

    /// deliver a datagram whose authenticated core is the genuine answer to the pending request
    /// (possibly with a modified unauthenticated appendix). Returns whether it was accepted.
    fn deliver_core(&mut self, c: &mut Case, d: &[u8], must_accept: bool) -> Option<bool> {
        self.w.take_spy(self.u);
        let now = self.w.now_local();
        let r = self.w.incoming(self.u, d, now, now.wrapping_add(1 << 22));
        let evs = self.w.take_spy(self.u);
        let accepted = evs.iter().filter(|e| matches!(e, SpyEv::Meas { .. })).count() == 2;
        self.log.push(json!({"genuine_or_core": hex(d), "accepted": accepted}));
        if r.is_err() {
            return Some(false);
        }
        if accepted {
            c.inc("genuine_accepted");
            for ck in authentic_cookies(&self.keys, d).unwrap_or_default() {
                self.model.deliver(ck);
            }
        } else if must_accept {
            c.violation(
                format!("C07/genuine-answer-lost/{}", vname(self.ver)),
                "after only unauthenticated datagrams, the genuine answer to the pending request (within the window) was not used",
                json!({"events": self.log}),
            );
            return None;
        }
        let seen = self.w.observables(self.u).nts_cookies;
        if seen != Some(self.model.held.len()) {
            c.violation(
                format!("C07/cookie/count/{}", vname(self.ver)),
                format!("source reports {:?} cookies, only {} were delivered in authenticated encrypted fields", seen, self.model.held.len()),
                json!({"events": self.log}),
            );
            return None;
        }
        Some(accepted)
    }
}

/// where the authenticated part of a genuine answer ends, and a name for the region of an offset
fn auth_end(g: &[u8]) -> Option<(RefField, usize)> {
    let p = refntp::parse(g)?;
    let f = p.fields.iter().find(|f| f.type_id == refntp::EF_NTS_AUTH)?.clone();
    let end = f.offset + ((f.length as usize + 3) & !3);
    Some((f, end))
}

fn region_of(g: &[u8], auth: &RefField, end: usize, off: usize) -> &'static str {
    if off < 48 {
        "header"
    } else if off < auth.offset {
        "authenticated-fields"
    } else if off < auth.offset + 8 {
        "authenticator-header"
    } else if off < auth.offset + 8 + 16 {
        "nonce"
    } else if off < end {
        "ciphertext"
    } else {
        let _ = g;
        "appendix"
    }
}

fn sweep(c: &mut Case) {
    let mut s = Sess::new(c);
    // a few normal exchanges first so that there is history
    let warm = c.rng.usize(0, 2);
    for _ in 0..warm {
        let Some((raw, _)) = s.poll(c) else { return };
        if let Some(g) = s.w.serve(s.u, &raw, false) {
            if s.deliver_core(c, &g, true).is_none() {
                return;
            }
        }
        s.w.advance(Duration::from_secs(16));
    }
    let Some((raw, _req)) = s.poll(c) else { return };
    let Some(g) = s.w.serve(s.u, &raw, false) else {
        c.harness_error("real server did not answer a genuine request");
        return;
    };
    let Some((auth, end)) = auth_end(&g) else {
        c.harness_error("genuine answer without authenticator");
        return;
    };
    let all_bits = c.idx % 24 == 0;
    for off in 0..end {
        let bits: Vec<u8> = if all_bits { (0..8).collect() } else { vec![c.rng.below(8) as u8] };
        for b in bits {
            let mut d = g.clone();
            d[off] ^= 1 << b;
            c.inc("flip_datagrams");
            if !s.attack(c, "bitflip", region_of(&g, &auth, end, off), &d) {
                return;
            }
        }
    }
    for n in 0..end {
        c.inc("trunc_datagrams");
        let region = region_of(&g, &auth, end, n);
        if !s.attack(c, "truncate", region, &g[..n]) {
            return;
        }
    }
    // flips behind the authenticator: authentic core, unauthenticated appendix
    if end < g.len() && c.rng.bool() {
        let mut d = g.clone();
        let off = c.rng.usize(end, g.len() - 1);
        d[off] ^= 1 << c.rng.below(8);
        c.inc("appendix_flips");
        if s.deliver_core(c, &d, false).is_none() {
            return;
        }
    }
    // finally the genuine answer (if the appendix variant was not accepted before)
    if s.w.digest(s.u).pending {
        if s.deliver_core(c, &g, true).is_none() {
            return;
        }
    }
    // and once more: now a replay without a pending request
    c.inc("replays");
    if !s.attack(c, "replay-after-accept", "whole", &g) {
        return;
    }
    s.w.advance(Duration::from_secs(16));
    let _ = s.poll(c);
    c.sample(|| json!({"kind": "sweep", "answer_len": g.len(), "authenticated_len": end, "all_bits": all_bits, "version": vname(s.ver), "aead": s.keys.alg}));
}

fn kiss_header(req: &ReqView, code: &str, rng: &mut crate::core::Rng) -> refntp::RefHeader {
    let now = 0xE200_0000_1111_0000u64;
    let mut refid = [0u8; 4];
    let mut h;
    match code {
        "RATE" | "DENY" | "RSTR" | "NTSN" => {
            refid.copy_from_slice(code.as_bytes());
            h = answer_header(req, 0, refid, now, now + 5, rng);
        }
        _ => {
            let x = [b'A' + rng.below(26) as u8, b'A' + rng.below(26) as u8, b'A' + rng.below(26) as u8, b'A' + rng.below(26) as u8];
            let x = if [*b"RATE", *b"DENY", *b"RSTR", *b"NTSN"].contains(&x) { *b"XXXX" } else { x };
            h = answer_header(req, 0, x, now, now + 5, rng);
        }
    }
    if req.version == 5 {
        h.flags = 0;
        h.leap = 3;
        match code {
            "RATE" => h.poll = (req.poll as i16 + 1 + rng.below(4) as i16).min(126) as u8,
            "DENY" | "RSTR" => h.poll = 127,
            "NTSN" => {
                h.flags = 4;
                h.poll = match rng.below(4) {
                    0 => 127,
                    1 => (req.poll as i16 + 1 + rng.below(6) as i16).min(126) as u8,
                    2 => req.poll as u8,
                    _ => rng.u8() & 0x7f,
                };
            }
            _ => h.poll = if rng.bool() { req.poll as u8 } else { (req.poll as i16 - 1).max(0) as u8 },
        }
    }
    h
}

/// one attacker datagram for the pending request; None = this attack is not applicable now
fn make_attack(c: &mut Case, s: &mut Sess, req: &ReqView, genuine: Option<&Vec<u8>>, history: &[Vec<u8>]) -> Option<(&'static str, &'static str, Vec<u8>)> {
    let v5 = req.version == 5;
    let now = s.w.now_local();
    let pick = c.rng.below(22);
    let uid = req.uid.clone().unwrap_or_default();
    let time_hdr = |r: &mut crate::core::Rng| answer_header(req, 2, [192, 0, 2, 1], now, now + 9, r);
    match pick {
        0 | 1 => {
            let g = genuine?;
            let (auth, end) = auth_end(g)?;
            let off = c.rng.usize(0, end - 1);
            let mut d = g.clone();
            d[off] ^= 1 << c.rng.below(8);
            Some(("bitflip", region_of(g, &auth, end, off), d))
        }
        2 => {
            let g = genuine?;
            let (auth, end) = auth_end(g)?;
            let n = c.rng.usize(0, end - 1);
            Some(("truncate", region_of(g, &auth, end, n), g[..n].to_vec()))
        }
        3 | 4 | 5 => {
            // same content, sealed under another key
            let g = genuine?;
            let (auth, _end) = auth_end(g)?;
            let pt = open(s.keys.s2c().as_ref(), g, &auth)?;
            let (label, key): (&'static str, Box<dyn ntp_proto::verif::m::packet::Cipher>) = match pick {
                3 => ("reseal-c2s", s.keys.c2s()),
                4 => ("reseal-foreign-key", Keys::random(&mut c.rng, s.keys.alg).s2c()),
                _ => ("reseal-other-aead", Keys::random(&mut c.rng, if s.keys.alg == 15 { 17 } else { 15 }).s2c()),
            };
            let mut d = g[..auth.offset].to_vec();
            d.extend_from_slice(&seal(key.as_ref(), &g[..auth.offset], &pt));
            Some((label, "whole", d))
        }
        6 => {
            let g = genuine?;
            let (auth, end) = auth_end(g)?;
            let mut d = g[..auth.offset].to_vec();
            d.extend_from_slice(&g[end..]);
            Some(("strip-authenticator", "whole", d))
        }
        7 => {
            let g = genuine?;
            let (auth, end) = auth_end(g)?;
            let mut d = g[..auth.offset].to_vec();
            let ctl = end - auth.offset - 8 - 16;
            d.extend_from_slice(&auth_field_raw(&c.rng.bytes(16), &c.rng.bytes(ctl)));
            d.extend_from_slice(&g[end..]);
            Some(("garbage-authenticator", "whole", d))
        }
        8 => {
            // sealed under s2c but the uid only behind the authenticator
            let poison = random_cookie(&mut c.rng, 104);
            s.poison.push(poison.clone());
            let mut f = skeleton(req, time_hdr(&mut c.rng), true);
            f.pre.retain(|x| x.t != refntp::EF_UNIQUE_ID);
            f.enc = Some(vec![Fld::new(refntp::EF_NTS_COOKIE, poison)]);
            f.post.push(Fld::min(refntp::EF_UNIQUE_ID, uid, 28));
            Some(("sealed-uid-behind-authenticator", "whole", f.emit(Some(s.keys.s2c().as_ref()), &mut c.rng)))
        }
        9 => {
            let poison = random_cookie(&mut c.rng, 104);
            s.poison.push(poison.clone());
            let mut f = skeleton(req, time_hdr(&mut c.rng), true);
            for x in f.pre.iter_mut() {
                if x.t == refntp::EF_UNIQUE_ID {
                    x.v = c.rng.bytes(32);
                }
            }
            f.enc = Some(vec![Fld::new(refntp::EF_NTS_COOKIE, poison)]);
            Some(("sealed-wrong-uid", "whole", f.emit(Some(s.keys.s2c().as_ref()), &mut c.rng)))
        }
        10 => {
            let poison = random_cookie(&mut c.rng, 104);
            s.poison.push(poison.clone());
            let mut h = time_hdr(&mut c.rng);
            h.origin ^= 1u64 << c.rng.below(64);
            let mut f = skeleton(req, h, true);
            f.enc = Some(vec![Fld::new(refntp::EF_NTS_COOKIE, poison)]);
            Some(("sealed-wrong-origin", "whole", f.emit(Some(s.keys.s2c().as_ref()), &mut c.rng)))
        }
        11 => {
            // a cookie in the clear in front of the authenticator of the genuine answer
            let g = genuine?;
            let (auth, _) = auth_end(g)?;
            let poison = random_cookie(&mut c.rng, 104);
            s.poison.push(poison.clone());
            let mut d = g[..auth.offset].to_vec();
            d.extend_from_slice(&Fld::min(refntp::EF_NTS_COOKIE, poison, 16).encode(v5));
            d.extend_from_slice(&g[auth.offset..]);
            c.inc("clear_cookies");
            Some(("clear-cookie-before-authenticator", "whole", d))
        }
        12 | 13 | 14 => {
            // unauthenticated KISS with correct origin and uid
            let code = *c.rng.pick(&["RATE", "DENY", "RSTR", "????"]);
            let h = kiss_header(req, code, &mut c.rng);
            let variant = c.rng.below(3);
            let d = match variant {
                0 => skeleton(req, h, false).emit(None, &mut c.rng),
                1 => skeleton(req, h, true).emit(None, &mut c.rng), // garbage authenticator
                _ => skeleton(req, h, true).emit(Some(s.keys.c2s().as_ref()), &mut c.rng),
            };
            c.inc("kiss_unauth");
            let label = match (code, variant) {
                ("RATE", 0) => "kiss-rate-clear",
                ("DENY", 0) => "kiss-deny-clear",
                ("RSTR", 0) => "kiss-rstr-clear",
                (_, 0) => "kiss-unknown-clear",
                (_, 1) => "kiss-garbage-authenticator",
                _ => "kiss-sealed-c2s",
            };
            Some((label, "whole", d))
        }
        15 | 16 => {
            let with_uid = c.rng.chance(2, 3);
            let h = kiss_header(req, "NTSN", &mut c.rng);
            let mut f = skeleton(req, h, false);
            if !with_uid {
                f.pre.retain(|x| x.t != refntp::EF_UNIQUE_ID);
                if !v5 {
                    if let Some(l) = f.pre.last_mut() {
                        l.min = 28;
                    }
                }
            }
            if c.rng.chance(1, 4) {
                let poison = random_cookie(&mut c.rng, 104);
                s.poison.push(poison.clone());
                f.pre.insert(0, Fld::min(refntp::EF_NTS_COOKIE, poison, 16));
            }
            c.inc("ntsn");
            Some((if with_uid { "nts-nak-with-uid" } else { "nts-nak-without-uid" }, "whole", f.emit(None, &mut c.rng)))
        }
        17 => {
            let mut f = skeleton(req, time_hdr(&mut c.rng), false);
            if c.rng.bool() {
                f.pre.retain(|x| x.t != refntp::EF_UNIQUE_ID);
            }
            if c.rng.bool() {
                let poison = random_cookie(&mut c.rng, 104);
                s.poison.push(poison.clone());
                f.pre.insert(0, Fld::min(refntp::EF_NTS_COOKIE, poison, 16));
            }
            if !v5 {
                if let Some(l) = f.pre.last_mut() {
                    l.min = 28;
                }
            }
            c.inc("plain_answers");
            Some(("plain-answer", "whole", f.emit(None, &mut c.rng)))
        }
        18 => {
            let old = history.get(c.rng.below(history.len().max(1) as u64) as usize)?;
            c.inc("replays");
            if c.rng.bool() {
                Some(("replay-earlier-answer", "whole", old.clone()))
            } else {
                // the old answer with the current origin/cookie patched in
                let mut d = old.clone();
                d[24..32].copy_from_slice(&req.ident.to_be_bytes());
                Some(("replay-patched-origin", "whole", d))
            }
        }
        19 => {
            // answer of the other protocol version, not sealed under s2c
            let mut fake = req.clone();
            fake.version = if v5 { 4 } else { 5 };
            let h = answer_header(&fake, 2, [192, 0, 2, 1], now, now + 9, &mut c.rng);
            let d = if c.rng.bool() {
                skeleton(&fake, h, false).emit(None, &mut c.rng)
            } else {
                skeleton(&fake, h, true).emit(Some(s.keys.c2s().as_ref()), &mut c.rng)
            };
            c.inc("other_version");
            Some(("other-version", "whole", d))
        }
        20 => Some(("reflected-request", "whole", req.raw.clone())),
        _ => {
            let n = *c.rng.pick(&[0usize, 1, 47, 48, 60, 200]);
            let mut d = c.rng.bytes(n);
            if n > 0 && c.rng.bool() {
                d[0] = ((if v5 { 5 } else { 4 }) << 3) | 4;
            }
            Some(("noise", "whole", d))
        }
    }
}

fn mixed(c: &mut Case) {
    let mut s = Sess::new(c);
    let polls = c.rng.usize(3, 10);
    let mut history: Vec<Vec<u8>> = vec![];
    let mut n_attacks = 0;
    for _ in 0..polls {
        let Some((raw, req)) = s.poll(c) else { break };
        let genuine = s.w.serve(s.u, &raw, false);
        let answer_first = c.rng.chance(1, 4);
        let mut answered = false;
        if answer_first {
            if let Some(g) = &genuine {
                match s.deliver_core(c, g, true) {
                    None => return,
                    Some(a) => answered = a,
                }
            }
        }
        let k = c.rng.usize(1, 6);
        for _ in 0..k {
            let Some((label, region, d)) = make_attack(c, &mut s, &req, genuine.as_ref(), &history) else { continue };
            if label == "bitflip" {
                c.inc("flip_datagrams");
            } else if label == "truncate" {
                c.inc("trunc_datagrams");
            } else if label.starts_with("reseal") {
                c.inc("resealed");
            }
            n_attacks += 1;
            if !s.attack(c, label, region, &d) {
                return;
            }
        }
        if !answered && c.rng.chance(3, 4) {
            if let Some(g) = &genuine {
                // sometimes with cookies appended in the clear behind the authenticator
                let mut d = g.clone();
                let appended = c.rng.chance(1, 3);
                if appended {
                    let poison = random_cookie(&mut c.rng, 104);
                    s.poison.push(poison.clone());
                    d.extend_from_slice(&Fld::min(refntp::EF_NTS_COOKIE, poison, 28).encode(req.version == 5));
                    c.inc("clear_cookies");
                }
                match s.deliver_core(c, &d, !appended) {
                    None => return,
                    Some(a) => answered = a,
                }
                if answered && c.rng.bool() {
                    c.inc("replays");
                    n_attacks += 1;
                    if !s.attack(c, "replay-after-accept", "whole", g) {
                        return;
                    }
                }
            }
        }
        if let Some(g) = genuine {
            history.push(g);
        }
        let dt = c.rng.range(1, 40) as u64;
        s.w.advance(Duration::from_secs(dt));
    }
    if n_attacks == 0 {
        return;
    }
    c.sample(|| json!({"kind": "mixed", "attacks": n_attacks, "version": vname(s.ver), "aead": s.keys.alg}));
}

fn run(c: &mut Case) {
    if c.idx % 3 == 0 {
        sweep(c);
    } else {
        mixed(c);
    }
}
