//! C29 — pool key-exchange requests require a configured token; keep-alive rules.
//!
//! Events: the records the real `KeyExchangeServer` writes in answer to each request
//! message of a scripted TLS client (decoded by the independent codec), the value
//! returned by `handle_connection` (kept-open handle or not), how often the keep-alive
//! permit source was asked, and the behaviour of `handle_longterm` on the kept connection.
//! Oracle: an independent classifier of the request records (plain / fixed-key /
//! supported-parameters, token carried, keep-alive asked, well-formed or not) and the
//! three rules of the statement.

use std::cell::Cell;

use crate::common::kecodec::{self as kc, Rec};
use crate::common::kesim as ke;
use crate::core::{Case, Profiles, Prop, guard, hex};
use ntp_proto::NtpVersion;
use ntp_proto::verif::nts::a7::nts_error_kind;
use serde_json::{Value, json};
use tokio::io::AsyncWriteExt;

pub static PROP: Prop = Prop {
    id: "C29",
    level: "exploration",
    rule: "case = one TLS connection to the real server configured with 0-3 pool tokens (incl. the empty string, multi-byte \
           and long tokens) and a keep-alive permit source that grants or refuses; a scripted client sends 1-4 request \
           messages (fixed-key / supported-parameters / plain key exchange / deliberately malformed variants; token = a \
           configured one, a prefix, an extension, another case, another string, empty, missing or doubled; keep-alive \
           record present or not; ignorable records, shuffled order, split writes), lock-step or pipelined. Non-trivial = \
           the first request was answered or the connection was closed by the server; distinct shape = (token count, \
           permit, class/token variant/keep-alive/well-formedness of message 1, kept or not, classes and outcomes of \
           the later messages).",
    assumptions: &[
        "rustls/aws-lc are trusted; requests and responses are encoded/decoded by the harness codec",
        "'carries a configured token' = exactly one Authentication record whose body equals a configured token byte for byte",
        "requests malformed for reasons unrelated to the token (key sizes, unknown AEAD, several ids, unknown critical records) are judged only for 'no cookies, no parameter lists, not kept open' when they lack a token, not for the kind of error reply",
        "'kept open' = handle_connection returned the long-lived handle; 'slot available' = the permit source was asked and granted",
    ],
    profiles: Profiles::Strict,
    cases: |t| t.pick(1200, 30_000),
    budget_s: |t| t.pick(45, 420),
    run,
    min_nontrivial: 60,
    required_counters: &[
        "pool_request_without_token_judged",
        "pool_request_with_token_seen",
        "bad_request_replies_seen",
        "kept_open_judged",
        "keepalive_asked_but_no_permit",
        "keepalive_not_asked",
        "plain_request_on_kept_open_judged",
        "pool_request_on_kept_open_seen",
    ],
    exhaustive: false,
    crash_is_violation: false,
};

const TOKEN_POOL: &[&str] = &["", "hi", "pool-token", "tök€n", "a", "hi2", "Hi", "0123456789012345678901234567890123456789"];

#[derive(Clone, Copy, Debug, PartialEq, Eq, Hash)]
enum Class {
    Plain,
    Fixed,
    Support,
    /// both fixed-key and supported-list records
    Mixed,
}

#[derive(Clone, Debug)]
struct Judged {
    class: Class,
    /// Authentication record bodies
    auth: Vec<Vec<u8>>,
    keepalive: bool,
    /// well-formed according to the reference grammar, leaving aside whether a token is carried (0 or 1 Authentication records)
    wellformed: bool,
}

fn utf8(b: &[u8]) -> bool {
    std::str::from_utf8(b).is_ok()
}

/// Independent reference classification of one request message (records incl. end-of-message).
fn classify(recs: &[Rec], total_len: usize) -> Judged {
    let n = |t: u16| recs.iter().filter(|r| r.typ == t).count();
    let has_fixed = n(kc::T_FIXED_KEY) > 0;
    let has_sup = n(kc::T_SUP_PROTO) + n(kc::T_SUP_ALG) > 0;
    let class = match (has_fixed, has_sup) {
        (true, true) => Class::Mixed,
        (true, false) => Class::Fixed,
        (false, true) => Class::Support,
        _ => Class::Plain,
    };
    let auth: Vec<Vec<u8>> = recs.iter().filter(|r| r.typ == kc::T_AUTH).map(|r| r.body.clone()).collect();
    let keepalive = n(kc::T_KEEPALIVE) > 0;
    let mut ok = total_len <= 4096 && recs.last().map(|r| r.typ) == Some(kc::T_EOM) && n(kc::T_EOM) == 1 && auth.len() <= 1;
    for r in recs {
        ok &= match r.typ {
            kc::T_EOM | kc::T_KEEPALIVE => true,
            kc::T_NEXT_PROTO | kc::T_AEAD | kc::T_SUP_PROTO => r.body.len() % 2 == 0,
            kc::T_SUP_ALG => r.body.len() % 4 == 0,
            kc::T_ERROR | kc::T_WARNING | kc::T_COOKIE => false,
            kc::T_SERVER | kc::T_DENY | kc::T_AUTH => utf8(&r.body),
            kc::T_PORT => r.body.len() == 2,
            kc::T_FIXED_KEY => r.body.len() % 2 == 0,
            _ => !r.critical,
        };
    }
    match class {
        Class::Fixed => {
            let p = recs.iter().find(|r| r.typ == kc::T_NEXT_PROTO).and_then(|r| r.ids());
            let a = recs.iter().find(|r| r.typ == kc::T_AEAD).and_then(|r| r.ids());
            ok &= n(kc::T_FIXED_KEY) == 1 && n(kc::T_NEXT_PROTO) == 1 && n(kc::T_AEAD) == 1;
            match (p, a) {
                (Some(p), Some(a)) if p.len() == 1 && a.len() == 1 => match kc::aead_key_len(a[0]) {
                    Some(kl) => ok &= recs.iter().find(|r| r.typ == kc::T_FIXED_KEY).map(|r| r.body.len()) == Some(2 * kl),
                    None => ok = false,
                },
                _ => ok = false,
            }
        }
        Class::Support => {
            ok &= n(kc::T_SUP_PROTO) <= 1 && n(kc::T_SUP_ALG) <= 1 && n(kc::T_NEXT_PROTO) == 0 && n(kc::T_AEAD) == 0;
        }
        Class::Mixed => ok = false,
        Class::Plain => {
            ok &= n(kc::T_NEXT_PROTO) == 1 && n(kc::T_AEAD) == 1;
        }
    }
    Judged { class, auth, keepalive, wellformed: ok }
}

#[derive(Clone, Debug)]
struct Msg {
    recs: Vec<Rec>,
    bytes: Vec<u8>,
    cuts: Vec<usize>,
    /// how the generator chose the token (evidence / shapes only; the oracle re-derives everything from the records)
    token_variant: &'static str,
}

fn gen_token(c: &mut Case, tokens: &[String]) -> (Option<Vec<u8>>, &'static str) {
    let cfgd = if tokens.is_empty() { None } else { Some(c.rng.pick(tokens).clone()) };
    match c.rng.below(20) {
        0..=8 => match cfgd {
            Some(t) => (Some(t.into_bytes()), "configured"),
            None => (Some(b"hi".to_vec()), "other"),
        },
        9 | 10 => match cfgd {
            Some(t) if !t.is_empty() => {
                // proper prefix (on a char boundary)
                let cut = t.char_indices().map(|(i, _)| i).filter(|i| *i < t.len()).last().unwrap_or(0);
                (Some(t.as_bytes()[..cut].to_vec()), "prefix")
            }
            _ => (Some(b"x".to_vec()), "other"),
        },
        11 | 12 => match cfgd {
            Some(t) => {
                let mut b = t.into_bytes();
                b.push(*c.rng.pick(b"2x \0"));
                (Some(b), "extension")
            }
            None => (Some(vec![]), "empty"),
        },
        13 => match cfgd {
            Some(t) if t.chars().any(|ch| ch.is_ascii_alphabetic()) => {
                let sw: String = t.chars().map(|ch| if ch.is_ascii_lowercase() { ch.to_ascii_uppercase() } else { ch.to_ascii_lowercase() }).collect();
                (Some(sw.into_bytes()), "other-case")
            }
            _ => (Some(b"nope".to_vec()), "other"),
        },
        14 | 15 => (Some(c.rng.pick(TOKEN_POOL).as_bytes().to_vec()), "from-pool"),
        16 => (Some(vec![]), "empty"),
        17 | 18 => (None, "missing"),
        _ => (Some(kc::some_string(&mut c.rng, 20)), "other"),
    }
}

fn gen_message(c: &mut Case, tokens: &[String], first: bool) -> Msg {
    let kind = if first {
        match c.rng.below(20) {
            0..=8 => 0, // fixed key
            9..=14 => 1, // support
            15..=17 => 2, // plain
            _ => 3,      // damaged pool request
        }
    } else {
        match c.rng.below(20) {
            0..=7 => 2,
            8..=12 => 0,
            13..=17 => 1,
            _ => 3,
        }
    };
    let (tok, mut variant) = gen_token(c, tokens);
    let keep = c.rng.chance(3, 5);
    let alg = *c.rng.pick(&[kc::AEAD_SIV_256, kc::AEAD_SIV_512]);
    let kl = kc::aead_key_len(alg).unwrap();
    let proto = *c.rng.pick(&[kc::PROTO_NTPV4, kc::PROTO_NTPV5, kc::PROTO_NTPV4, 7]);
    let mut recs = match kind {
        0 => {
            let mut v = kc::fixed_key_request(tok.as_deref().unwrap_or(b""), &c.rng.bytes(kl), &c.rng.bytes(kl), proto, alg, keep);
            if tok.is_none() {
                v.retain(|r| r.typ != kc::T_AUTH);
            }
            v
        }
        1 => {
            let (p, a) = match c.rng.below(3) {
                0 => (true, false),
                1 => (false, true),
                _ => (true, true),
            };
            let mut v = kc::support_request(tok.as_deref().unwrap_or(b""), p, a, keep);
            if tok.is_none() {
                v.retain(|r| r.typ != kc::T_AUTH);
            }
            v
        }
        2 => {
            let mut v = kc::ke_request(&[kc::PROTO_NTPV4, kc::PROTO_NTPV5][..c.rng.usize(1, 2)], &[kc::AEAD_SIV_512, kc::AEAD_SIV_256][..c.rng.usize(1, 2)]);
            if keep && c.rng.bool() {
                v.push(Rec::keepalive());
            }
            if c.rng.chance(1, 4) {
                if let Some(t) = &tok {
                    v.push(Rec::auth(t));
                }
            }
            variant = "n/a";
            v
        }
        _ => {
            // a pool request damaged in a way unrelated (or related) to the token
            let mut v = if c.rng.bool() {
                kc::fixed_key_request(tok.as_deref().unwrap_or(b""), &c.rng.bytes(kl), &c.rng.bytes(kl), proto, alg, keep)
            } else {
                kc::support_request(tok.as_deref().unwrap_or(b""), true, c.rng.bool(), keep)
            };
            if tok.is_none() {
                v.retain(|r| r.typ != kc::T_AUTH);
            }
            match c.rng.below(8) {
                0 => {
                    // wrong key size
                    for r in v.iter_mut() {
                        if r.typ == kc::T_FIXED_KEY {
                            let l = *c.rng.pick(&[0usize, 16, 31, 48, 65]);
                            r.body = c.rng.bytes(2 * l);
                        }
                    }
                }
                1 => {
                    // unknown AEAD
                    for r in v.iter_mut() {
                        if r.typ == kc::T_AEAD {
                            *r = Rec::u16s(kc::T_AEAD, true, &[16]);
                        }
                    }
                }
                2 => v.push(Rec::auth(tok.as_deref().unwrap_or(b"hi"))), // doubled token record
                3 => v.push(Rec::new(77, true, vec![1, 2])),              // unknown critical
                4 => v.push(Rec::new(kc::T_SUP_ALG, true, vec![])),       // support list in any request
                5 => v.push(Rec::u16s(kc::T_NEXT_PROTO, true, &[0])),     // extra protocol record
                6 => v.push(Rec::new(kc::T_COOKIE, false, c.rng.bytes(20))),
                _ => {
                    // two ids in the protocol record of a fixed-key request
                    for r in v.iter_mut() {
                        if r.typ == kc::T_NEXT_PROTO {
                            *r = Rec::u16s(kc::T_NEXT_PROTO, true, &[0, 0x8001]);
                        }
                    }
                }
            }
            v
        }
    };
    if c.rng.chance(1, 4) {
        let at = c.rng.usize(0, recs.len());
        let l = c.rng.usize(0, 20);
        recs.insert(at, kc::padding_record(&mut c.rng, l));
    }
    if c.rng.chance(1, 8) {
        recs.push(Rec::keepalive());
    }
    if c.rng.chance(1, 4) {
        c.rng.shuffle(&mut recs);
    }
    if c.rng.chance(1, 8) {
        for r in recs.iter_mut() {
            if matches!(r.typ, kc::T_AUTH | kc::T_KEEPALIVE | kc::T_FIXED_KEY) {
                r.critical = c.rng.bool();
            }
        }
    }
    recs.push(Rec::eom());
    let bytes = kc::encode(&recs);
    let cuts = if c.rng.chance(1, 4) {
        let mut v: Vec<usize> = (0..c.rng.usize(1, 3)).map(|_| c.rng.usize(1, bytes.len())).collect();
        v.sort();
        v
    } else {
        vec![]
    };
    Msg { recs, bytes, cuts, token_variant: variant }
}

struct ServerSeen {
    first: Result<bool, String>,
    permit_calls: u32,
    longterm: Option<Result<(), String>>,
}

struct ClientSeen {
    /// response (possibly empty/closed) per message that was written
    responses: Vec<ke::MsgRead>,
    written: usize,
    /// after the last response the server was still waiting for requests (virtual-time idle probe)
    open_after_last: bool,
}

fn run(c: &mut Case) {
    if let Err(e) = ke::pki() {
        c.harness_error(e);
        return;
    }
    // ---- configuration
    let n_tokens = match c.rng.below(8) {
        0 => 0,
        1..=4 => 1,
        5..=6 => 2,
        _ => 3,
    };
    let mut tokens: Vec<String> = vec![];
    while tokens.len() < n_tokens {
        let t = c.rng.pick(TOKEN_POOL).to_string();
        if !tokens.contains(&t) || c.rng.chance(1, 10) {
            tokens.push(t);
        }
    }
    let grant = c.rng.chance(3, 5);
    let accepted = if c.rng.bool() { vec![NtpVersion::V4] } else { vec![NtpVersion::V4, NtpVersion::V5] };
    let n_msgs = c.rng.usize(1, 4);
    let msgs: Vec<Msg> = (0..n_msgs).map(|i| gen_message(c, &tokens, i == 0)).collect();
    let pipelined = n_msgs > 1 && c.rng.chance(1, 5);
    let judged: Vec<Judged> = msgs.iter().map(|m| classify(&m.recs, m.bytes.len())).collect();

    let server = match ke::real_server(accepted.clone(), tokens.clone(), None, None) {
        Ok(s) => s,
        Err(e) => {
            c.harness_error(e);
            return;
        }
    };
    let conn = match ke::scripted_client_connector() {
        Ok(x) => x,
        Err(e) => {
            c.harness_error(e);
            return;
        }
    };
    let keyset = ke::keyset(c.rng.usize(0, 2), c.rng.usize(0, 2));
    let calls = Cell::new(0u32);

    let det = |extra: Value| {
        json!({
            "configured_tokens": tokens, "permit_source_grants": grant, "pipelined": pipelined,
            "messages": msgs.iter().zip(judged.iter()).map(|(m, j)| json!({
                "hex": hex(&m.bytes), "write_cuts": m.cuts, "token_variant": m.token_variant,
                "records": m.recs.iter().map(|r| r.to_json()).collect::<Vec<_>>(),
                "reference_class": format!("{:?}", j.class), "reference_wellformed": j.wellformed,
                "authentication_records": j.auth.iter().map(|a| String::from_utf8_lossy(a).to_string()).collect::<Vec<_>>(),
                "keepalive_asked": j.keepalive,
            })).collect::<Vec<_>>(),
            "observed": extra,
        })
    };

    let out = guard(|| {
        ke::run_virtual(async {
            let (cio, sio) = ke::duplex(1 << 16);
            let cl = async {
                let mut tls = ke::scripted_connect(&conn, cio).await?;
                let mut seen = ClientSeen { responses: vec![], written: 0, open_after_last: false };
                if pipelined {
                    for m in &msgs {
                        if ke::write_pieces(&mut tls, &m.bytes, &m.cuts).await.is_err() {
                            break;
                        }
                        seen.written += 1;
                    }
                    for _ in 0..seen.written {
                        let r = ke::read_message(&mut tls, 1 << 17).await;
                        let closed = r.closed;
                        seen.responses.push(r);
                        if closed {
                            break;
                        }
                    }
                } else {
                    for m in &msgs {
                        if ke::write_pieces(&mut tls, &m.bytes, &m.cuts).await.is_err() {
                            break;
                        }
                        seen.written += 1;
                        let r = ke::read_message(&mut tls, 1 << 17).await;
                        let closed = r.closed;
                        seen.responses.push(r);
                        if closed {
                            break;
                        }
                    }
                }
                // Is the server still listening? Decided in virtual time: the paused clock only
                // reaches the timeout when every task (incl. the server) is idle.
                let last_closed = seen.responses.last().map(|r| r.closed).unwrap_or(true);
                seen.open_after_last = if last_closed {
                    false
                } else {
                    match tokio::time::timeout(std::time::Duration::from_secs(5), ke::read_message(&mut tls, 1 << 17)).await {
                        Err(_) => true,
                        Ok(m) => !(m.closed && m.recs.is_empty()),
                    }
                };
                let _ = tls.shutdown().await;
                // drain until the server closes its side
                let _ = ke::read_message(&mut tls, 1 << 17).await;
                Ok::<_, String>(seen)
            };
            let sv = async {
                let first = server
                    .handle_connection(sio, &keyset, || {
                        calls.set(calls.get() + 1);
                        if grant { Some(()) } else { None }
                    })
                    .await;
                match first {
                    Ok(Some((permit, tls))) => {
                        let ks = keyset.clone();
                        let lt = server.handle_longterm(tls, move || ks.clone()).await;
                        drop(permit);
                        ServerSeen { first: Ok(true), permit_calls: calls.get(), longterm: Some(lt.map_err(|e| nts_error_kind(&e).to_string())) }
                    }
                    Ok(None) => ServerSeen { first: Ok(false), permit_calls: calls.get(), longterm: None },
                    Err(e) => ServerSeen { first: Err(nts_error_kind(&e).to_string()), permit_calls: calls.get(), longterm: None },
                }
            };
            tokio::join!(cl, sv)
        })
    });
    let (cl, sv) = match out {
        Ok(Ok((Ok(cl), sv))) => (cl, sv),
        Ok(Ok((Err(e), _))) => {
            c.harness_error(format!("c29 client: {e}"));
            return;
        }
        Ok(Err(e)) => {
            c.harness_error(format!("c29: {e}; {}", det(json!({})).to_string().chars().take(600).collect::<String>()));
            return;
        }
        Err(p) => {
            c.inc("panic_seen");
            c.harness_error(format!("c29: panic at {}: {}", p.location, p.message));
            return;
        }
    };
    if cl.responses.is_empty() {
        c.harness_error("c29: first request could not be written");
        return;
    }
    let kept = matches!(sv.first, Ok(true));
    let obs = json!({
        "handle_connection": match &sv.first { Ok(k) => format!("Ok(kept_open={k})"), Err(e) => format!("Err({e})") },
        "permit_source_calls": sv.permit_calls,
        "handle_longterm": sv.longterm.as_ref().map(|r| match r { Ok(()) => "Ok".to_string(), Err(e) => format!("Err({e})") }),
        "responses": cl.responses.iter().map(|r| r.to_json()).collect::<Vec<_>>(),
        "messages_written": cl.written,
        "server_still_listening_after_last_response": cl.open_after_last,
    });

    // ---- message 1: new connection
    let j = &judged[0];
    let r = &cl.responses[0];
    let cookies = r.count(kc::T_COOKIE);
    let lists = r.count(kc::T_SUP_PROTO) + r.count(kc::T_SUP_ALG);
    let bad_request = r.recs.iter().any(|x| x.typ == kc::T_ERROR && x.ids() == Some(vec![kc::ERR_BAD_REQUEST]));
    let is_pool = j.class != Class::Plain;
    let token_ok = j.auth.len() == 1 && tokens.iter().any(|t| t.as_bytes() == j.auth[0].as_slice());
    if bad_request {
        c.inc("bad_request_replies_seen");
    }
    if is_pool && !token_ok {
        c.inc("pool_request_without_token_judged");
        if cookies > 0 {
            c.violation(
                "new-connection/cookies-without-configured-token",
                format!("a {:?} request that carries no configured token was answered with {cookies} cookies", j.class),
                det(obs.clone()),
            );
        }
        if lists > 0 {
            c.violation(
                "new-connection/parameter-lists-without-configured-token",
                format!("a {:?} request that carries no configured token was answered with the supported-parameter lists", j.class),
                det(obs.clone()),
            );
        }
        if j.wellformed {
            c.inc("wellformed_pool_request_without_token");
            if !bad_request {
                c.violation(
                    "new-connection/no-bad-request-error-without-configured-token",
                    format!("a well-formed {:?} request without a configured token was not answered with a bad-request error record", j.class),
                    det(obs.clone()),
                );
            }
        } else if !bad_request && r.recs.is_empty() {
            // observation only (statement is about the token, not about other malformations)
            c.inc("malformed_pool_request_dropped_without_any_reply");
        }
    }
    if is_pool && token_ok {
        c.inc("pool_request_with_token_seen");
        if cookies > 0 || lists > 0 {
            c.inc("pool_request_with_token_served");
        }
    }
    if j.keepalive {
        if !grant && is_pool && token_ok && j.wellformed {
            c.inc("keepalive_asked_but_no_permit");
        }
    } else {
        c.inc("keepalive_not_asked");
    }
    if kept {
        c.inc("kept_open_judged");
        if !is_pool {
            c.violation("kept-open/plain-request", "the connection was kept open after a plain key-exchange request", det(obs.clone()));
        }
        if !token_ok {
            c.violation("kept-open/without-configured-token", "the connection was kept open although the request carried no configured token", det(obs.clone()));
        }
        if !j.keepalive {
            c.violation("kept-open/not-asked", "the connection was kept open although the client did not ask for keep-alive", det(obs.clone()));
        }
        if !grant || sv.permit_calls == 0 {
            c.violation(
                "kept-open/no-slot",
                format!("the connection was kept open although no long-lived slot was granted (permit source grants: {grant}, asked {} times)", sv.permit_calls),
                det(obs.clone()),
            );
        }
    } else {
        c.inc("not_kept_open");
    }
    if cl.responses.len() == 1 && !pipelined {
        // observation only: does the client's view of "still open" agree with the returned handle
        if cl.open_after_last == kept {
            c.inc("client_view_agrees_with_handle");
        } else {
            c.inc("client_view_differs_from_handle");
        }
    }

    // ---- later messages: only meaningful while the connection is kept open
    let mut later_shape: Vec<(Class, bool, usize, bool)> = vec![];
    if kept {
        for i in 1..cl.responses.len().min(judged.len()) {
            let j = &judged[i];
            let r = &cl.responses[i];
            if r.recs.is_empty() {
                // nothing was answered: the server had already closed (or closed without a reply)
                break;
            }
            let cookies = r.count(kc::T_COOKIE);
            let err = r.count(kc::T_ERROR) > 0;
            later_shape.push((j.class, j.wellformed, cookies, err));
            match j.class {
                Class::Plain => {
                    c.inc("plain_request_on_kept_open_judged");
                    if cookies > 0 {
                        c.violation(
                            "kept-open/plain-key-exchange-accepted",
                            format!("a plain key-exchange request on a kept-open connection was answered with {cookies} cookies"),
                            det(obs.clone()),
                        );
                    }
                    if err {
                        c.inc("plain_request_on_kept_open_got_error");
                    }
                    let closed_after = match cl.responses.get(i + 1) {
                        Some(n) => n.recs.is_empty() && n.closed,
                        None => r.closed || !cl.open_after_last,
                    };
                    if closed_after {
                        c.inc("plain_request_on_kept_open_then_closed");
                    } else {
                        c.inc("plain_request_on_kept_open_connection_continued");
                    }
                }
                _ => {
                    c.inc("pool_request_on_kept_open_seen");
                }
            }
        }
    }

    c.sig_of(&(
        tokens.len(),
        grant,
        j.class,
        msgs[0].token_variant,
        j.keepalive,
        j.wellformed,
        match &sv.first {
            Ok(k) => format!("{k}"),
            Err(e) => e.clone(),
        },
        (cookies.min(9), lists, bad_request),
        later_shape,
    ));
    if c.idx % 60 == 0 {
        c.sample(|| det(obs.clone()));
    }
}
