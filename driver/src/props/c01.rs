//! C01 — clock steps never exceed the configured panic thresholds.
//!
//! Events: every `NtpClock::step_clock(d)` of the recording clock (raw i64, with the number of
//! the controller call that made it); the update boundary (first controller call that returned
//! `used_sources: Some`, which ends the *startup* phase); the exit status of the forked child
//! that runs the real controller (`stopped` = exit 70).
//!
//! Oracle (exact integer arithmetic on the recorded raw values, monitor-owned running sum):
//!  * a step made before/within the first update that reports used sources must not be strictly
//!    outside the startup threshold; a later one must not be strictly outside the single-step
//!    threshold, and the sum of |post-startup steps| must not exceed the accumulated threshold
//!    (equality is not decided by the statement and is not flagged);
//!  * a `stopped` event must not be preceded by a step made in the same controller call;
//!  * direct drive only (the intended correction is known): a correction above the step
//!    threshold that is outside the applicable panic threshold (by more than a 4-unit
//!    conversion margin) must end in `stopped` with no step, not be skipped or stepped.

use crate::common::clksim::{self as sim, Direct, JobEnd, Op, Poll, Sim, Spec, Thr, UNIT};
use crate::core::{Case, Profiles, Prop, Rng, Tier, guard};
use ntp_proto::AlgorithmConfig;
use serde_json::{Value, json};

pub static PROP: Prop = Prop {
    id: "C01",
    level: "exploration",
    rule: "case = a batch of 14 executions of the real KalmanClockController in forked children (re-forked after every stop), each either (direct) a script of 1-12 \
           corrections passed to steer_offset in the startup or the post-startup phase, with corrections placed on and \
           around the applicable forward/backward/accumulated thresholds (x0.5 .. x10, +-1..17 units, +-1 ms), the step \
           threshold and saturating magnitudes; or (closed loop) a simulated history of 1-5 agreeing sources whose common \
           offset at startup and later common jumps / local clock jumps are chosen relative to the thresholds, steering fed \
           back. Thresholds are finite, infinite or asymmetric per direction; accumulated threshold on or off. \
           Non-trivial = at least one step or one stop was observed; the shape signature is (mode, which thresholds are finite, \
           phase, bucketed number of startup/post steps, stopped or not, which oracle branches were exercised).",
    assumptions: &[
        "the kernel clock is replaced by a recording/simulating NtpClock; ntpd/src/daemon/clock.rs is not exercised",
        "startup phase is delimited by the first controller call that returns used sources (observable boundary)",
        "private steering routines and the in_startup flag are reached through the guarded hook kalman_a1.rs (read/call only)",
    ],
    profiles: Profiles::Both,
    cases: |t| t.pick(500, 6_000),
    budget_s: |t| t.pick(40, 400),
    run,
    min_nontrivial: 100,
    required_counters: &["steps_startup", "steps_post", "stops", "direct_outside_checked", "accumulated_checked", "closed_loop_steps"],
    exhaustive: false,
    crash_is_violation: false,
};

const TOL: i128 = 4;

fn thr_class(t: Thr) -> u8 {
    (t.fwd.is_some() as u8) | ((t.bwd.is_some() as u8) << 1)
}

fn bucket(n: usize) -> u8 {
    match n {
        0 => 0,
        1 => 1,
        2..=3 => 2,
        4..=9 => 3,
        _ => 4,
    }
}

struct Observed {
    steps: Vec<(u64, i64)>,
    first_used: Option<u64>,
    /// controller call in flight when the process exited with status 70
    stopped_at: Option<u64>,
}

/// The safety half of the oracle, common to both modes. Returns (startup steps, post steps).
fn judge_steps(c: &mut Case, mode: &str, startup: Thr, single: Thr, acc: Option<i64>, o: &Observed, detail: &dyn Fn() -> Value) -> (usize, usize) {
    let mut sum: i128 = 0;
    let (mut ns, mut np) = (0, 0);
    for (k, (call, raw)) in o.steps.iter().enumerate() {
        let in_startup = o.first_used.is_none_or(|f| *call <= f);
        if in_startup {
            ns += 1;
            c.inc("steps_startup");
            if startup.strictly_outside(*raw) {
                let dir = if *raw > 0 { "forward" } else { "backward" };
                c.violation(
                    format!("{mode}/startup-step-outside/{dir}/{}", c.profile),
                    format!("step #{k} of {raw} units ({} s) during startup is outside the startup threshold {:?}", *raw as f64 / UNIT, startup),
                    json!({"step_raw": raw, "step_index": k, "call": call, "threshold": startup.json(), "case": detail()}),
                );
            }
        } else {
            np += 1;
            c.inc("steps_post");
            if single.strictly_outside(*raw) {
                let dir = if *raw > 0 { "forward" } else { "backward" };
                c.violation(
                    format!("{mode}/single-step-outside/{dir}/{}", c.profile),
                    format!("post-startup step #{k} of {raw} units ({} s) is outside the single-step threshold {:?}", *raw as f64 / UNIT, single),
                    json!({"step_raw": raw, "step_index": k, "call": call, "threshold": single.json(), "case": detail()}),
                );
            }
            sum += (*raw as i128).abs();
            if let Some(a) = acc {
                c.inc("accumulated_checked");
                if sum > a as i128 {
                    c.violation(
                        format!("{mode}/accumulated-exceeded/{}", c.profile),
                        format!("sum of |post-startup steps| = {sum} units exceeds the accumulated threshold {a} after step #{k}"),
                        json!({"sum_raw": sum.to_string(), "accumulated_raw": a, "step_index": k, "case": detail()}),
                    );
                }
            }
        }
    }
    if let Some(at) = o.stopped_at {
        c.inc("stops");
        if let Some((call, raw)) = o.steps.iter().find(|(call, _)| *call == at) {
            c.violation(
                format!("{mode}/step-then-stop/{}", c.profile),
                format!("the daemon stopped (exit 70) in controller call {at} after already stepping the clock by {raw} units in that call"),
                json!({"call": call, "step_raw": raw, "case": detail()}),
            );
        }
    }
    (ns, np)
}

fn parse_observed(v: &Value) -> Option<(Vec<(u64, i64)>, Option<u64>, u64)> {
    let steps = v
        .get("steps")?
        .as_array()?
        .iter()
        .filter_map(|e| Some((e.get(0)?.as_u64()?, e.get(1)?.as_i64()?)))
        .collect();
    Some((steps, v.get("first_used").and_then(|x| x.as_u64()), v.get("inflight")?.as_u64()?))
}

/// Turn the way a job ended into the observed events. None = nothing to judge (harness problem recorded).
fn observe(c: &mut Case, ended: JobEnd) -> Option<(Observed, Value)> {
    match ended {
        JobEnd::Returned(v) => {
            let (steps, first_used, _) = parse_observed(&v)?;
            Some((Observed { steps, first_used, stopped_at: None }, v))
        }
        JobEnd::Stopped(v) => {
            let (steps, first_used, inflight) = parse_observed(&v)?;
            Some((Observed { steps, first_used, stopped_at: Some(inflight) }, v))
        }
        JobEnd::Lost(e) => {
            c.harness_error(e);
            None
        }
    }
}

// ------------------------------------------------------------------ direct drive

struct DirectCase {
    startup: Thr,
    single: Thr,
    acc: Option<i64>,
    step_threshold: f64,
    post: bool,
    kernel_freq: f64,
    local_start: u64,
    corrections: Vec<f64>,
}

impl DirectCase {
    fn json(&self) -> Value {
        json!({"mode": "direct", "startup": self.startup.json(), "single": self.single.json(), "accumulated_raw": self.acc,
               "step_threshold": self.step_threshold, "phase": if self.post {"post-startup"} else {"startup"},
               "kernel_freq": self.kernel_freq,
               "corrections_s": self.corrections, "corrections_bits": self.corrections.iter().map(|x| format!("{:#018x}", x.to_bits())).collect::<Vec<_>>()})
    }
}

/// `outside`: aim beyond the applicable limit (such a correction normally ends the script with a stop)
fn gen_correction(rng: &mut Rng, thr: Thr, acc_left: Option<i128>, step_thr: f64, outside: bool) -> f64 {
    let sign = if rng.bool() { 1.0 } else { -1.0 };
    let t_units = if sign > 0.0 { thr.fwd } else { thr.bwd };
    let mult: &[f64] = if outside { &[1.000001, 1.1, 2.0, 10.0] } else { &[0.1, 0.5, 0.9, 0.999999] };
    let lattice: &[i128] = if outside { &[0, 1, 2, 3, 5, 9, 17] } else { &[-17, -9, -5, -3, -2, -1] };
    let mag = match (rng.below(12), t_units) {
        (0..=2, Some(t)) => (t as f64 / UNIT) * *rng.pick(mult),
        (3..=4, Some(t)) => (t as i128 + *rng.pick(lattice)) as f64 / UNIT,
        (5, Some(t)) => (t as f64 / UNIT) + if outside { 0.001 } else { -0.001 },
        (6..=8, _) if acc_left.is_some() => {
            let left = acc_left.unwrap().max(0);
            if rng.bool() {
                (left as f64 / UNIT) * *rng.pick(if outside { &[1.001, 2.0] } else { &[0.1, 0.3, 0.5, 0.999] })
            } else {
                (left + *rng.pick(if outside { &[1i128, 5, 9] } else { &[-9i128, -5, -1, 0] })).max(0) as f64 / UNIT
            }
        }
        (9, _) if outside => *rng.pick(&[1e9, 2.2e9, 4e9, 1e12, 1e15, 2147483647.5, 2147483648.0]),
        (9, _) => step_thr * *rng.pick(&[0.5, 0.999, 1.001, 2.0, 10.0]),
        (10, _) => rng.log_uniform(1e-9, 1e-2),
        _ => rng.log_uniform(1e-4, if outside { 1e7 } else { 10.0 }),
    };
    // a correction of exactly zero is never produced by the update code (it requires |offset| > threshold)
    sign * mag.abs().max(1.0 / UNIT)
}

fn gen_direct(rng: &mut Rng) -> DirectCase {
    let post = rng.chance(2, 3);
    let startup = sim::gen_thr(rng);
    let single = sim::gen_thr(rng);
    let step_threshold = *rng.pick(&[0.01, 0.01, 1e-4, 1e-6, 1.0, 100.0]);
    let acc = if post && rng.chance(2, 3) {
        let base = single.fwd.or(single.bwd).map(|v| v as f64 / UNIT).unwrap_or_else(|| sim::gen_threshold_secs(rng));
        Some(sim::ref_raw(base * *rng.pick(&[0.5, 1.0, 1.5, 3.0, 10.0])).max(1))
    } else if rng.chance(1, 4) {
        Some(sim::ref_raw(sim::gen_threshold_secs(rng)))
    } else {
        None
    };
    let n = rng.usize(0, 10);
    let applicable = if post { single } else { startup };
    let mut corrections = Vec::new();
    let mut predicted_sum: i128 = 0;
    let mut push = |rng: &mut Rng, outside: bool, corrections: &mut Vec<f64>| {
        let left = if post { acc.map(|a| a as i128 - predicted_sum) } else { None };
        let x = gen_correction(rng, applicable, left, step_threshold, outside);
        let e = sim::ref_raw(x);
        if post && x.abs() > step_threshold && !applicable.strictly_outside(e) {
            predicted_sum += (e as i128).abs();
        }
        corrections.push(x);
    };
    for _ in 0..n {
        push(rng, false, &mut corrections);
    }
    if n == 0 || rng.chance(2, 5) {
        push(rng, true, &mut corrections);
        if rng.chance(1, 4) {
            // something after the expected stop (only reached if the stop does not happen)
            push(rng, false, &mut corrections);
        }
    }
    DirectCase {
        startup,
        single,
        acc,
        step_threshold,
        post,
        kernel_freq: *rng.pick(&[0.0, 1e-5, -2e-4]),
        local_start: rng.u64(),
        corrections,
    }
}

/// runs in the child
fn child_direct(d: &DirectCase) -> Value {
    let mut spec = Spec::basic(0, &mut Rng::new(1));
    spec.startup = d.startup;
    spec.single = d.single;
    spec.accumulated = d.acc;
    let algo = AlgorithmConfig { step_threshold: d.step_threshold, ..AlgorithmConfig::default() };
    let mut dd = Direct::new(spec.sync_config(), algo, d.kernel_freq, d.local_start);
    sim::register_exit_clock(&dd.clock);
    let mut left = true;
    if d.post {
        left = dd.leave_startup();
    }
    let mut panic: Option<String> = None;
    let mut done = 0usize;
    if left {
        for x in &d.corrections {
            dd.advance(1.0);
            match guard(|| dd.steer_offset(*x, 0.0)) {
                Ok(_) => done += 1,
                Err(p) => {
                    panic = Some(format!("{}: {}", p.location, p.message));
                    break;
                }
            }
        }
    }
    let mut v = dd.clock.st().c01_summary(false);
    v["left_startup"] = json!(left);
    v["done"] = json!(done);
    v["panic"] = json!(panic);
    v["hook_in_startup"] = json!(ntp_proto::verif::clk::probe::in_startup(&dd.ctl));
    v
}

fn judge_direct(c: &mut Case, d: &DirectCase, ended: JobEnd) {
    let Some((obs, raw)) = observe(c, ended) else { return };
    if obs.stopped_at.is_none() {
        if raw.get("left_startup").and_then(|x| x.as_bool()) == Some(false) {
            c.harness_error("direct drive: the benign first update did not leave startup");
            return;
        }
        if let Some(p) = raw.get("panic").and_then(|p| p.as_str()) {
            // not judged here (C06 judges panics); kept visible in the evidence
            c.inc("cut_short_by_panic");
            c.inc(&format!("panic_not_judged:direct:{}", p.chars().filter(|ch| !ch.is_ascii_digit()).take(90).collect::<String>()));
        }
    }
    c.inc("direct_cases");
    let detail = || d.json();
    let (ns, np) = judge_steps(c, "direct", d.startup, d.single, d.acc, &obs, &detail);

    // the converse, for corrections whose intended size the monitor knows
    let base = if d.post { 1u64 } else { 0 };
    let applicable = if d.post { d.single } else { d.startup };
    let mut sum: i128 = 0;
    let done = raw.get("done").and_then(|x| x.as_u64()).unwrap_or(0);
    let mut branches = 0u32;
    for (j, x) in d.corrections.iter().enumerate() {
        let call = base + 1 + j as u64;
        let stopped_here = obs.stopped_at == Some(call);
        let executed = match obs.stopped_at {
            Some(s) => call <= s,
            None => (j as u64) < done,
        };
        if !executed {
            break;
        }
        c.inc("direct_corrections");
        let steps_here: Vec<i64> = obs.steps.iter().filter(|(cn, _)| *cn == call).map(|(_, r)| *r).collect();
        if x.abs() > d.step_threshold * (1.0 + 1e-9) {
            let e = sim::ref_raw(*x) as i128;
            let out_thr = applicable.fwd.is_some_and(|f| e > f as i128 + TOL) || applicable.bwd.is_some_and(|b| e < -(b as i128) - TOL);
            let out_acc = d.post && d.acc.is_some_and(|a| sum + e.abs() > a as i128 + TOL);
            let in_thr = applicable.fwd.is_none_or(|f| e < f as i128 - TOL) && applicable.bwd.is_none_or(|b| e > -(b as i128) + TOL);
            let in_acc = !d.post || d.acc.is_none_or(|a| sum + e.abs() < a as i128 - TOL);
            if out_thr || out_acc {
                c.inc("direct_outside_checked");
                branches |= if out_thr { 1 } else { 2 };
                if !stopped_here && steps_here.is_empty() {
                    c.violation(
                        format!("direct/no-stop/{}/{}", if out_thr { "threshold" } else { "accumulated" }, c.profile),
                        format!("correction #{j} of {x} s is outside the applicable threshold but the daemon neither stopped nor stepped"),
                        json!({"correction_index": j, "correction_s": x, "expected_raw": e.to_string(), "case": d.json(), "observed": raw}),
                    );
                }
                // a step here is reported by the safety half; a stop is the expected outcome
            } else if in_thr && in_acc {
                c.inc("direct_inside");
                branches |= 4;
                if stopped_here {
                    // not contradicting the statement (it only forbids bad steps); recorded for the evidence
                    c.inc("stop_inside_threshold");
                } else if steps_here.len() == 1 && (steps_here[0] as i128 - e).abs() <= TOL {
                    c.inc("direct_inside_stepped_as_intended");
                }
            } else {
                c.inc("direct_boundary_zone");
                branches |= 8;
            }
        } else {
            c.inc("direct_slewed");
            branches |= 16;
        }
        for r in &steps_here {
            // monitor-owned running sum follows the observed steps
            if d.post {
                sum += (*r as i128).abs();
            }
        }
        if stopped_here {
            break;
        }
    }
    if ns + np > 0 || obs.stopped_at.is_some() {
        c.sig_of(&("direct", thr_class(d.startup), thr_class(d.single), d.acc.is_some(), d.post, bucket(ns), bucket(np), obs.stopped_at.is_some(), branches));
    }
    c.sample(|| json!({"case": d.json(), "observed": raw}));
}

// ------------------------------------------------------------------ closed loop

fn gen_closed(rng: &mut Rng) -> Spec {
    let n = rng.usize(1, 5);
    let mut spec = Spec::basic(0, rng);
    spec.min_agree = rng.usize(1, n.min(3));
    spec.startup = sim::gen_thr(rng);
    spec.single = sim::gen_thr(rng);
    let single_ref = spec.single.fwd.or(spec.single.bwd).map(|v| v as f64 / UNIT);
    spec.accumulated = if rng.chance(3, 5) {
        let base = single_ref.unwrap_or_else(|| sim::gen_threshold_secs(rng));
        Some(sim::ref_raw(base * *rng.pick(&[0.5, 1.0, 1.5, 2.5, 6.0])).max(1))
    } else {
        None
    };
    spec.algo.step_threshold = *rng.pick(&[0.01, 0.01, 0.001, 0.1]);
    spec.algo.steer_offset_leftover = *rng.pick(&[1.0, 0.0, 2.0]);
    spec.algo.steer_offset_threshold = *rng.pick(&[2.0, 0.5, 0.0]);
    // startup offset relative to the startup threshold in a chosen direction
    let dir = if rng.bool() { 1.0 } else { -1.0 };
    let t_start = if dir > 0.0 { spec.startup.fwd } else { spec.startup.bwd }.map(|v| v as f64 / UNIT);
    let x0 = match rng.below(5) {
        0 => rng.f64_range(-0.3, 0.3),
        1 => dir * rng.log_uniform(0.02, 5000.0),
        _ => {
            let m = if rng.chance(1, 4) { *rng.pick(&[1.0001, 1.01, 1.1, 3.0]) } else { *rng.pick(&[0.1, 0.3, 0.9, 0.99, 0.9999]) };
            dir * t_start.unwrap_or_else(|| rng.log_uniform(0.1, 1e5)) * m
        }
    };
    spec.sources = sim::gen_agreeing_sources(rng, n, x0, 2e-4);
    let poll = *rng.pick(&[1.0, 2.0, 4.0, 8.0]);
    for s in spec.sources.iter_mut() {
        s.poll = Poll::Fixed(poll * rng.f64_range(0.9, 1.1));
    }
    // leap flags (0 none, 1 +1 s, 2 -1 s, 3 unknown): the phase boundary and the thresholds must not depend on
    // whether the leap vote of the used sources is decided (all unknown, exact ties, changing over time)
    match rng.below(5) {
        0 => {
            for s in spec.sources.iter_mut() {
                s.leap0 = 3;
            }
        }
        1 => {
            for (i, s) in spec.sources.iter_mut().enumerate() {
                s.leap0 = if i % 2 == 0 { 0 } else { *rng.pick(&[1u8, 2]) };
            }
        }
        2 => {
            for s in spec.sources.iter_mut() {
                s.leap0 = rng.below(4) as u8;
                if rng.bool() {
                    s.leaps.push((rng.f64_range(20.0, 300.0), rng.below(4) as u8));
                }
            }
        }
        _ => {}
    }
    spec.hw_drift = *rng.pick(&[0.0, 1e-6, -2e-5, 1e-4]);
    // later events: common jumps of all remote clocks, or the local clock being set by someone else
    let k = rng.usize(0, 6);
    let mut t = rng.f64_range(60.0, 200.0);
    let mut remote_sum = 0.0;
    for _ in 0..k {
        let dir = if rng.bool() { 1.0 } else { -1.0 };
        let t_single = if dir > 0.0 { spec.single.fwd } else { spec.single.bwd }.map(|v| v as f64 / UNIT);
        let acc_s = spec.accumulated.map(|a| a as f64 / UNIT);
        let amount = dir
            * match rng.below(4) {
                0 => acc_s.unwrap_or(10.0) * *rng.pick(&[0.1, 0.2, 0.35, 0.6, 1.1]),
                1 => rng.log_uniform(0.02, 50.0),
                _ => {
                    let m = if rng.chance(1, 5) { *rng.pick(&[1.001, 1.1, 1.9, 2.1, 5.0]) } else { *rng.pick(&[0.1, 0.3, 0.5, 0.9, 0.999]) };
                    t_single.unwrap_or_else(|| rng.log_uniform(0.1, 1e4)) * m
                }
            };
        if rng.chance(2, 3) {
            remote_sum += amount;
            for s in spec.sources.iter_mut() {
                s.steps.push((t, amount));
            }
            let _ = remote_sum;
        } else {
            // local clock jumps the other way: the measured offset changes by `amount`
            spec.ops.push((t, Op::Meddle(sim::ref_raw(-amount))));
        }
        t += rng.f64_range(40.0, 200.0);
    }
    spec.duration = t + 60.0;
    spec.max_meas = 4000;
    spec
}

/// runs in the child
fn child_closed(spec: Spec) -> Value {
    let mut s = Sim::new(spec);
    sim::register_exit_clock(&s.core.clock);
    let mut panic: Option<String> = None;
    let mut slews = 0u64;
    let mut used_updates = 0u64;
    let mut hook_mismatch = 0u64;
    while let Some(info) = s.step() {
        if let Some((w, p)) = &info.panic {
            panic = Some(format!("{w}: {}: {}", p.location, p.message));
        }
        if let Some(u) = &info.update {
            if u.next_update.is_some() {
                slews += 1;
            }
            if u.used.is_some() {
                used_updates += 1;
            }
        }
        // cross-check of the observable phase boundary against the hooked flag (evidence only)
        let first_used = s.core.clock.st().first_used_call.is_some();
        if first_used == info.in_startup {
            hook_mismatch += 1;
        }
    }
    let mut v = s.core.clock.st().c01_summary(false);
    v["n_meas"] = json!(s.core.n_meas);
    v["calls"] = json!(s.core.call_no);
    v["panic"] = json!(panic);
    v["slews"] = json!(slews);
    v["used_updates"] = json!(used_updates);
    v["hook_mismatch"] = json!(hook_mismatch);
    v
}

fn judge_closed(c: &mut Case, spec: &Spec, ended: JobEnd) {
    let spec_json = spec.to_json();
    let (startup, single, acc) = (spec.startup, spec.single, spec.accumulated);
    let nsrc = spec.sources.len();
    let Some((obs, raw)) = observe(c, ended) else { return };
    c.inc("closed_cases");
    if let Some(n) = raw.get("n_meas").and_then(|x| x.as_u64()) {
        c.count("closed_measurements", n);
    }
    if let Some(p) = raw.get("panic").and_then(|p| p.as_str()) {
        c.inc("cut_short_by_panic");
        c.inc(&format!("panic_not_judged:closed:{}", p.chars().filter(|ch| !ch.is_ascii_digit()).take(90).collect::<String>()));
    }
    if let Some(n) = raw.get("hook_mismatch").and_then(|x| x.as_u64()) {
        c.count("phase_hook_mismatch", n);
    }
    let detail = || json!({"mode": "closed-loop", "spec": spec_json.clone()});
    let (ns, np) = judge_steps(c, "closed", startup, single, acc, &obs, &detail);
    c.count("closed_loop_steps", (ns + np) as u64);
    if ns + np > 0 || obs.stopped_at.is_some() {
        c.sig_of(&("closed", thr_class(startup), thr_class(single), acc.is_some(), nsrc, bucket(ns), bucket(np), obs.stopped_at.is_some(), obs.first_used.is_some()));
    }
    c.sample(|| json!({"spec": spec_json.clone(), "observed": raw}));
}

enum Job {
    Direct(DirectCase),
    Closed(Spec),
}

fn run(c: &mut Case) {
    // one case = a batch of executions sharing forked children (fork is expensive here)
    let mut jobs = Vec::new();
    for k in 0..14 {
        if k % 7 < 5 {
            jobs.push(Job::Direct(gen_direct(&mut c.rng)));
        } else {
            jobs.push(Job::Closed(gen_closed(&mut c.rng)));
        }
    }
    let ends = sim::run_jobs_in_children(jobs.len(), &|k| match &jobs[k] {
        Job::Direct(d) => child_direct(d),
        Job::Closed(s) => child_closed(s.clone()),
    });
    for (job, end) in jobs.iter().zip(ends) {
        match job {
            Job::Direct(d) => judge_direct(c, d, end),
            Job::Closed(s) => judge_closed(c, s, end),
        }
    }
}
