//! C13 — NTS cookies are used once, oldest first, at most eight kept (the newest), and
//! each request asks for exactly as many as are missing (limited only by packet size).
//!
//! Events: cookie bytes + placeholder count of every request the real `NtpSource` emits
//! (decoded by the reference codec), cookies delivered inside authenticated encrypted
//! fields (decrypted by the monitor itself with the session's s2c key), `nts_cookies`
//! of `observe()`; plus results of direct `CookieStash` operation sequences.
//! Oracle: FIFO reference model with unique cookie values (`srcbsim::CookieModel`).

use crate::common::refntp;
use crate::common::srcbsim::{
    Act, CookieModel, Fld, Keys, SpyEv, UnitCfg, Ver, World, answer_header, authentic_cookies, first_send, random_cookie,
    skeleton, view_request,
};
use crate::core::{Case, Profiles, Prop, Tier, hex};
use ntp_proto::verif::src2::Stash;
use serde_json::json;
use std::collections::VecDeque;
use std::net::SocketAddr;

pub static PROP: Prop = Prop {
    id: "C13",
    level: "exploration",
    rule: "case = either (idx%4==0) a random CookieStash operation script (store bursts of 0-20 unique cookies, gets; 20-400 ops) \
           compared op by op with a VecDeque model, or an NTS session of 5-60 polls of the real NtpSource (AEAD 256/512, NTPv4/v5, \
           initial stash of 1-8 genuine or arbitrary-length cookies) answered by the real Server, by harness-sealed answers \
           carrying 0-12 cookies of 0-300 bytes, or not at all; every request is judged against the FIFO model. \
           Non-trivial = at least one request judged / one get compared; signature = (mode, version, AEAD, answer kinds seen, \
           overflow seen, largest burst class, cookie length class, reset seen).",
    assumptions: &[
        "cookie values are unique (random >= 8 bytes); shorter cookies are only checked for order, not for reuse",
        "'limited only by packet size' is judged only where missing x cookie length <= 512 bytes (clearly fits)",
        "an NTPv4 cookie is what the length field says (padding included), as RFC 7822 framing defines it",
    ],
    profiles: Profiles::Both,
    cases: |t| t.pick(5_000, 90_000),
    budget_s: |t| t.pick(40, 400),
    run,
    min_nontrivial: 50,
    required_counters: &["requests_judged", "cookies_delivered", "stash_gets", "stash_stores", "overflow_deliveries", "cookie_counts_checked"],
    exhaustive: false,
    crash_is_violation: false,
};

fn run(c: &mut Case) {
    if c.idx % 4 == 0 {
        direct(c);
    } else {
        session(c);
    }
}

fn direct(c: &mut Case) {
    let mut stash = Stash::new();
    let mut model: VecDeque<Vec<u8>> = VecDeque::new();
    let n_ops = c.rng.usize(20, 400);
    let mut script = Vec::new();
    let mut overflow = false;
    let mut max_burst = 0;
    let mut serial = 0u64;
    for _ in 0..n_ops {
        if c.rng.chance(1, 2) {
            let burst = if c.rng.chance(1, 4) { c.rng.usize(9, 20) } else { c.rng.usize(0, 8) };
            max_burst = max_burst.max(burst);
            for _ in 0..burst {
                serial += 1;
                let mut ck = serial.to_be_bytes().to_vec();
                let extra = c.rng.usize(0, 24);
                ck.extend(c.rng.bytes(extra));
                script.push(json!({"store": hex(&ck)}));
                stash.store(ck.clone());
                model.push_back(ck);
                if model.len() > 8 {
                    model.pop_front();
                    overflow = true;
                    c.inc("overflow_deliveries");
                }
                c.inc("stash_stores");
                c.inc("cookies_delivered");
            }
        } else {
            let n = c.rng.usize(1, 10);
            for _ in 0..n {
                let got = stash.get();
                let want = model.pop_front();
                script.push(json!({"get": got.as_ref().map(|g| hex(g))}));
                c.inc("stash_gets");
                c.inc("requests_judged");
                if got != want {
                    let sig = match (&got, &want) {
                        (Some(_), None) => "stash/get-from-empty",
                        (None, Some(_)) => "stash/lost-cookie",
                        _ => "stash/not-oldest",
                    };
                    c.violation(
                        format!("C13/{sig}"),
                        format!("CookieStash::get returned {:?}, FIFO model expects {:?}", got.as_ref().map(|g| hex(g)), want.as_ref().map(|g| hex(g))),
                        json!({"script": script}),
                    );
                    return;
                }
            }
        }
        c.inc("cookie_counts_checked");
        if stash.len() != model.len() || stash.gap() as usize != 8 - model.len() || stash.is_empty() != model.is_empty() {
            c.violation(
                "C13/stash/count",
                format!("len {} gap {} but model holds {}", stash.len(), stash.gap(), model.len()),
                json!({"script": script}),
            );
            return;
        }
    }
    c.sig_of(&("direct", overflow, max_burst / 4, n_ops / 50));
    c.sample(|| json!({"kind": "direct", "ops": n_ops, "overflow": overflow}));
}

fn len_class(l: usize) -> u8 {
    match l {
        0 => 0,
        1..=15 => 1,
        16..=64 => 2,
        65..=104 => 3,
        105..=168 => 4,
        _ => 5,
    }
}

fn session(c: &mut Case) {
    let alg = *c.rng.pick(&[15u16, 17]);
    let ver = *c.rng.pick(&[Ver::V4, Ver::V4, Ver::V5, Ver::V5, Ver::Upgraded]);
    let keys = Keys::random(&mut c.rng, alg);
    let mut w = World::new(16, vec![], 0xE000_0000_0000_0000);
    let real_cookies = c.rng.chance(1, 2);
    let n0 = c.rng.usize(1, 8);
    let fixed_len = if c.rng.chance(1, 2) { Some(c.rng.usize(0, 300)) } else { None };
    let mut model = CookieModel::default();
    let mut initial = vec![];
    for _ in 0..n0 {
        let ck = if real_cookies {
            keys.real_cookie(&w.keyset)
        } else {
            let l = fixed_len.unwrap_or_else(|| c.rng.usize(0, 300));
            random_cookie(&mut c.rng, l)
        };
        model.deliver(ck.clone());
        initial.push(ck);
    }
    let addr: SocketAddr = "192.0.2.10:123".parse().unwrap();
    let u = w.add(UnitCfg { addr, ver, poll_min: 4, poll_max: 10, desired: 4, nts: Some((keys.clone(), initial.clone())) });
    let mut log = vec![json!({"alg": alg, "ver": format!("{ver:?}"), "initial": initial.iter().map(|x| hex(x)).collect::<Vec<_>>()})];
    let polls = c.rng.usize(5, 60);
    let (mut kinds, mut overflow, mut reset, mut max_burst, mut lens) = (0u8, false, false, 0usize, 0u8);
    let mut judged = 0;
    for _ in 0..polls {
        let acts = match w.timer(u) {
            Ok(a) => a,
            Err(p) => {
                // "never panics" is C14's clause; here it only ends the session
                c.inc("panic_in_timer");
                break;
            }
        };
        w.take_spy(u);
        if acts.contains(&Act::Reset) {
            reset = true;
            c.inc("resets");
            break;
        }
        let Some(raw) = first_send(&acts).cloned() else {
            c.harness_error("timer produced neither Send nor Reset");
            return;
        };
        let Some(req) = view_request(&raw) else {
            c.harness_error("request not parsable by the reference codec");
            return;
        };
        log.push(json!({"request": hex(&raw)}));
        c.inc("requests_judged");
        judged += 1;
        match model.on_request(&req) {
            Ok(ck) => lens |= 1 << len_class(ck.len()),
            Err((sig, msg)) => {
                c.violation(format!("C13/session/{sig}"), msg, json!({"events": log}));
                return;
            }
        }
        // the answer
        let choice = c.rng.below(10);
        let answer = if choice < 2 {
            kinds |= 1;
            None
        } else if choice < 6 && real_cookies {
            kinds |= 2;
            w.serve(u, &raw, false)
        } else {
            kinds |= 4;
            let n = if c.rng.chance(1, 5) { c.rng.usize(9, 12) } else { c.rng.usize(0, 8) };
            let now = w.now_local();
            let hdr = answer_header(&req, 2, [192, 0, 2, 1], now, now + 1, &mut c.rng);
            let mut f = skeleton(&req, hdr, true);
            let mut enc = vec![];
            for _ in 0..n {
                let ck = if real_cookies && c.rng.chance(3, 4) {
                    keys.real_cookie(&w.keyset)
                } else {
                    let l = fixed_len.filter(|_| c.rng.chance(3, 4)).unwrap_or_else(|| c.rng.usize(0, 300));
                    random_cookie(&mut c.rng, l)
                };
                enc.push(Fld::new(refntp::EF_NTS_COOKIE, ck));
            }
            f.enc = Some(enc);
            Some(f.emit(Some(keys.s2c().as_ref()), &mut c.rng))
        };
        if let Some(ans) = answer {
            let now = w.now_local();
            let r = w.incoming(u, &ans, now, now + 1000);
            let evs = w.take_spy(u);
            log.push(json!({"answer": hex(&ans)}));
            let accepted = evs.iter().any(|e| matches!(e, SpyEv::Meas { .. }));
            if r.is_ok() && accepted {
                let Some(cookies) = authentic_cookies(&keys, &ans) else {
                    c.harness_error("accepted answer does not open under s2c");
                    return;
                };
                max_burst = max_burst.max(cookies.len());
                for ck in cookies {
                    c.inc("cookies_delivered");
                    if model.held.len() == 8 {
                        overflow = true;
                        c.inc("overflow_deliveries");
                    }
                    model.deliver(ck);
                }
            } else {
                c.inc(if choice < 6 && real_cookies { "answers_not_accepted_real" } else { "answers_not_accepted_forged" });
                if c.replaying { eprintln!("not accepted: r={:?} evs={:?} ans={}", r.as_ref().map(|_| ()).map_err(|p| p.message.clone()), evs, hex(&ans)); }
            }
        }
        c.inc("cookie_counts_checked");
        let seen = w.observables(u).nts_cookies;
        if seen != Some(model.held.len()) {
            c.violation(
                if seen.map(|s| s > 8).unwrap_or(false) { "C13/session/more-than-eight" } else { "C13/session/count" },
                format!("observe() reports {:?} cookies, the model holds {}", seen, model.held.len()),
                json!({"events": log}),
            );
            return;
        }
        w.advance(std::time::Duration::from_secs(16));
    }
    if judged > 0 {
        c.sig_of(&("session", ver, alg, kinds, overflow, max_burst.min(9), lens, reset, real_cookies));
    }
    c.sample(|| json!({"kind": "session", "polls": judged, "ver": format!("{ver:?}"), "alg": alg, "overflow": overflow, "reset": reset}));
}
