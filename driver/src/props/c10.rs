//! C10 — poll intervals stay within configured and requested bounds.
//!
//! Events: poll byte of every request on the wire (independent decoder), the `SetTimer(d)` that
//! accompanies it, and — in the histories driven by the REAL Kalman source controller behind the
//! real two-way wrapper — `desired_poll_interval()` read after every measurement and every call
//! the source makes.
//! Oracle: `min <= poll <= max(configured max, U)` where U is the largest positive poll byte in any
//! datagram delivered so far that echoed the then-pending request in time with a possible version
//! (a superset of "an interval the server validly asked for"; forged / late / older datagrams never
//! raise U); `d * 100 in [101, 105] * min(2^poll, 2^31) s` in integer nanoseconds, widened by
//! 1e-12 relative + 1 ns for the f64 multiplication; filter desire in [min, max].

use std::sync::{Arc, Mutex};
use std::time::Duration;

use crate::common::srcasim::{self as sim, Datagram, FixedClock, Mangle, Mode, Sim, Spy, Step, Tri, WINDOW};
use crate::core::{Case, Profiles, Prop, Tier, hex};
use ntp_proto::{
    AlgorithmConfig, ClockId, KalmanClockController, Measurement, ObservableSourceTimedata, PollInterval, SourceController,
    SynchronizationConfig, TimeSyncController, TimeSyncControllerWrapper,
};
use serde_json::json;

const TRIPLES: u64 = 1140;

fn triple(k: u64) -> (u8, u8, u8) {
    // enumerate 0 <= min <= initial <= max <= 17 in lexicographic order
    let mut k = k % TRIPLES;
    for min in 0..=17u8 {
        for initial in min..=17 {
            let n = (17 - initial + 1) as u64;
            if k < n {
                return (min, initial, initial + k as u8);
            }
            k -= n;
        }
    }
    unreachable!()
}

const A_PER_TRIPLE_Q: u64 = 16;
const B_PER_TRIPLE_Q: u64 = 6;
const A_PER_TRIPLE_T: u64 = 150;
const B_PER_TRIPLE_T: u64 = 60;

pub static PROP: Prop = Prop {
    id: "C10",
    level: "exploration",
    rule: "case index k: limit triple number k mod 1140 in the lexicographic enumeration of all 0<=min<=initial<=max<=17 (every \
           triple is visited in both sections). Section A (scripted controller whose desire walks inside [min,max]): 30 polls of a \
           v4/v5/auto source with genuine answers (v5: poll byte echoed or any byte 0..255), RATE kisses, forged/late answers \
           carrying huge poll bytes, silence. Section B: the real Kalman source controller (real TwoWay wrapper) is the source's \
           controller; a simulated server with offset/drift, path-delay jitter from 1 ns to 50 ms (drives the filter's desire down \
           or up), offset steps and outages; 60..200 polls; poll hysteresis 1..16. Shape signature = (section, mode, min==initial, \
           initial==max, desire hit min, desire hit max, server requests seen, rate kisses seen, poll above configured max seen).",
    assumptions: &[
        "the scripted controller's desire stays inside [min, max] (that is the third clause, checked on the real filter in section B)",
        "a negative poll byte in an answer is not an interval the server asked for; the timer ratio is taken against min(2^poll, 2^31 s)",
        "section B varies AlgorithmConfig.poll_interval_hysteresis (1..16) to make the filter adapt within short histories",
    ],
    profiles: Profiles::Both,
    cases: |t| TRIPLES * t.pick(A_PER_TRIPLE_Q + B_PER_TRIPLE_Q, A_PER_TRIPLE_T + B_PER_TRIPLE_T),
    budget_s: |t| t.pick(60, 900),
    run,
    min_nontrivial: 50,
    required_counters: &[
        "polls_judged",
        "timers_judged",
        "filter_desire_judged",
        "filter_desire_changes",
        "server_requests_honoured",
        "rate_kisses_matching",
        "polls_above_configured_max",
        "forged_requests_ignored",
    ],
    exhaustive: false,
    crash_is_violation: false,
};

/// Controller wrapper that lets the monitor watch the real filter's desire.
struct Watch<C: SourceController> {
    inner: C,
    log: Arc<Mutex<Vec<(bool, i8)>>>,
}

impl<C: SourceController> SourceController for Watch<C> {
    fn handle_measurement(&mut self, m: Measurement) {
        self.inner.handle_measurement(m);
        let d = self.inner.desired_poll_interval().as_log();
        self.log.lock().unwrap().push((true, d));
    }
    fn set_usable(&mut self, usable: bool) {
        self.inner.set_usable(usable);
    }
    fn desired_poll_interval(&self) -> PollInterval {
        let d = self.inner.desired_poll_interval();
        self.log.lock().unwrap().push((false, d.as_log()));
        d
    }
    fn observe(&self) -> ObservableSourceTimedata {
        self.inner.observe()
    }
}

struct Bounds {
    min: u8,
    max: u8,
    /// largest positive poll byte validly (leniently) requested so far
    asked: i8,
}

fn judge_send<C: SourceController>(c: &mut Case, s: &Sim<C>, b: &Bounds, si: usize, section: &'static str, script: &Vec<String>) {
    let req = &s.sent[si];
    let poll = req.poll as i8;
    let upper = (b.max as i8).max(b.asked);
    let detail = || {
        json!({"section": section, "mode": s.mode.name(), "limits_min_initial_max": [s.limits.0, s.limits.1, s.limits.2], "poll_byte": req.poll,
               "largest_interval_asked_by_server": b.asked, "set_timer_ns": req.timer.map(|d| d.as_nanos().to_string()),
               "request": hex(&req.bytes), "state": sim::probe_json(&s.probe()), "script_tail": script.iter().rev().take(14).rev().collect::<Vec<_>>()})
    };
    c.inc("polls_judged");
    if poll > b.max as i8 {
        c.inc("polls_above_configured_max");
    }
    if poll < b.min as i8 {
        c.violation(
            format!("{section}/poll-below-min/{}/{}", s.mode.name(), c.profile),
            format!("request sent with poll exponent {poll} below the configured minimum {}", b.min),
            detail(),
        );
    } else if poll > upper {
        c.violation(
            format!("{section}/poll-above-max/{}/{}", s.mode.name(), c.profile),
            format!("request sent with poll exponent {poll} above max(configured max {}, largest interval asked by the server {})", b.max, b.asked),
            detail(),
        );
    }
    match req.timer {
        None => c.violation(format!("{section}/no-timer/{}", c.profile), "a request was sent without scheduling the next poll", detail()),
        Some(d) => {
            c.inc("timers_judged");
            let exp = poll.clamp(0, 31) as u32;
            let base: u128 = (1u128 << exp) * 1_000_000_000;
            let tol: u128 = (base / 1_000_000_000_000 + 1) * 100;
            let d100 = d.as_nanos() * 100;
            if d100 + tol < base * 101 || d100 > base * 105 + tol {
                let side = if d100 + tol < base * 101 { "short" } else { "long" };
                c.violation(
                    format!("{section}/timer-ratio-{side}/{}", c.profile),
                    format!("next poll scheduled after {} ns = {:.6} x 2^{exp} s (allowed 1.01..1.05)", d.as_nanos(), d.as_nanos() as f64 / base as f64),
                    detail(),
                );
            }
        }
    }
}

/// Update the lenient "asked by the server" bound from a delivered datagram's ground truth.
fn note_request(c: &mut Case, b: &mut Bounds, truth: &sim::Truth) {
    let p = truth.poll as i8;
    if truth.parsed && truth.matches_latest && truth.in_window != Tri::No && truth.version_expected != Tri::No {
        if p > b.asked {
            b.asked = p;
        }
    } else if truth.parsed && p > b.max as i8 {
        c.inc("forged_requests_ignored");
    }
}

const POLL_BYTES: &[u8] = &[0, 1, 2, 5, 9, 10, 11, 16, 17, 18, 20, 30, 31, 32, 33, 62, 63, 64, 100, 126, 127, 128, 129, 200, 255];

fn panic_is_ours(p: &str) -> bool {
    p.contains("time_types.rs") || p.contains("source.rs")
}

fn section_a(c: &mut Case, tr: (u8, u8, u8)) {
    let (min, initial, max) = tr;
    let mode = [Mode::V4, Mode::V5, Mode::Auto][(c.rng.below(3)) as usize];
    let mut s: Sim<Spy> = Sim::with_spy(mode, tr, initial as i8, c.rng.u64());
    let spy = s.spy.clone().unwrap();
    let mut desire = initial as i8;
    let upgrade_server = c.rng.chance(2, 3);
    let mut b = Bounds { min, max, asked: i8::MIN };
    let mut script: Vec<String> = Vec::new();
    let mut steps = 0;
    let (mut seen_req, mut seen_rate) = (false, false);
    let (mut hit_min, mut hit_max) = (false, false);
    let polls_target = 30;
    while s.sent.len() < polls_target {
        steps += 1;
        if steps > 600 {
            break;
        }
        let Some(step) = s.step() else { break };
        match step {
            Step::Timer(t) => {
                if let Some(p) = &t.panicked {
                    if panic_is_ours(p) {
                        c.violation(format!("A/panic/handle_timer/{}", c.profile), format!("handle_timer panicked: {p}"), json!({"limits": [min, initial, max], "script": script}));
                    }
                    return;
                }
                script.push(format!("{}ns timer desire={desire} -> {:?}", s.now.as_nanos(), sim::act_names(&t.acts)));
                if t.reset || t.demobilize {
                    break;
                }
                let Some(si) = t.sent else { break };
                judge_send(c, &s, &b, si, "A", &script);
                // the controller's desire walks inside [min, max] (own arithmetic)
                match c.rng.below(6) {
                    0 => desire = (desire + 1).min(max as i8),
                    1 => desire = (desire - 1).max(min as i8),
                    2 => desire = if c.rng.bool() { min as i8 } else { max as i8 },
                    _ => {}
                }
                hit_min |= desire == min as i8;
                hit_max |= desire == max as i8;
                spy.set_desire(desire);
                let req = s.sent[si].clone();
                let rx = s.local_now().wrapping_add(77_000_000);
                let mut genuine = sim::genuine(&req, c.rng.range(1, 15) as u8, rx, rx.wrapping_add(9000), upgrade_server, c.rng.u64());
                let fast = Duration::from_millis(c.rng.range(1, 900) as u64);
                match c.rng.below(20) {
                    0..=10 => {
                        if c.rng.chance(2, 5) {
                            genuine.h.poll = if c.rng.bool() { *c.rng.pick(POLL_BYTES) } else { c.rng.u8() };
                        }
                        s.schedule(fast, Datagram::new(genuine.encode(), "genuine"));
                    }
                    11..=14 => {
                        let mut k = sim::kiss(&req, b"RATE", c.rng.u64());
                        if k.h.version == 5 && c.rng.bool() {
                            k.h.poll = *c.rng.pick(POLL_BYTES);
                        }
                        s.schedule(fast, Datagram::new(k.encode(), "kiss-rate"));
                        // usually the server still answers a retry: keep the source alive
                        if c.rng.chance(2, 3) {
                            s.schedule(fast + Duration::from_millis(3), Datagram::new(genuine.encode(), "genuine"));
                        }
                    }
                    15..=17 => {
                        // forged: must not raise the poll interval
                        let mut f = genuine.clone();
                        f.h.poll = *c.rng.pick(&[18u8, 20, 31, 64, 100, 126, 127]);
                        let mg = *c.rng.pick(&[Mangle::ForeignOrigin, Mangle::OriginBitFlip, Mangle::OlderOrigin]);
                        let d = sim::mangle(&mut c.rng, &s.sent, &req, &f, mg);
                        s.schedule(fast, d);
                        if c.rng.bool() {
                            // the genuine one, too late, with a big request
                            let mut g = genuine.clone();
                            g.h.poll = 25;
                            let late = WINDOW + Duration::from_millis(c.rng.range(1, 500) as u64);
                            s.schedule(late, Datagram::new(g.encode(), "late-genuine"));
                        }
                        s.schedule(fast + Duration::from_millis(5), Datagram::new(genuine.encode(), "genuine"));
                    }
                    _ => {}
                }
            }
            Step::Datagram(d, truth, out) => {
                if let Some(p) = &out.panicked {
                    if panic_is_ours(p) {
                        c.violation(
                            format!("A/panic/handle_incoming/{}", c.profile),
                            format!("handle_incoming panicked: {p}"),
                            json!({"limits": [min, initial, max], "datagram": hex(&d.bytes), "script": script}),
                        );
                    }
                    return;
                }
                script.push(format!("{}ns {} v{} poll_byte={} used={} against={:?}", s.now.as_nanos(), d.kind, truth.version, truth.poll, out.used(), truth.why_not()));
                let before = b.asked;
                note_request(c, &mut b, &truth);
                if out.used() && truth.version == 5 && (truth.poll as i8) > max as i8 {
                    c.inc("server_requests_honoured");
                    seen_req = true;
                }
                if d.kind == "kiss-rate" && truth.matching() == Tri::Yes {
                    c.inc("rate_kisses_matching");
                    seen_rate = true;
                }
                let _ = before;
            }
        }
    }
    let above = s.sent.iter().any(|r| (r.poll as i8) > max as i8);
    c.sig_of(&("A", mode, min == initial, initial == max, hit_min, hit_max, seen_req, seen_rate, above));
    if c.wants_sample() {
        c.sample(|| json!({"section": "A", "mode": mode.name(), "limits": [min, initial, max], "script": script.iter().take(30).collect::<Vec<_>>()}));
    }
}

fn section_b(c: &mut Case, tr: (u8, u8, u8)) {
    let (min, initial, max) = tr;
    let mode = [Mode::V4, Mode::V5, Mode::Auto][(c.rng.below(3)) as usize];
    let mut algo = AlgorithmConfig::default();
    algo.poll_interval_hysteresis = *c.rng.pick(&[1, 2, 3, 5, 16]);
    let clock = FixedClock(Arc::new(std::sync::atomic::AtomicU64::new(0)));
    let ctl = match <TimeSyncControllerWrapper<KalmanClockController<FixedClock>> as TimeSyncController>::new(clock, SynchronizationConfig::default(), algo) {
        Ok(x) => x,
        Err(e) => {
            c.harness_error(format!("controller: {e}"));
            return;
        }
    };
    let cfg = ntp_proto::verif::src::source_config(min, initial, max);
    let log: Arc<Mutex<Vec<(bool, i8)>>> = Arc::new(Mutex::new(Vec::new()));
    let watch = Watch { inner: ctl.add_source(ClockId::new(), cfg), log: log.clone() };
    let mut s = Sim::new(mode, tr, watch, c.rng.u64(), 16);
    let mut b = Bounds { min, max, asked: i8::MIN };
    let mut script: Vec<String> = Vec::new();
    // simulated server / path
    let mut offset_s: f64 = c.rng.f64_range(-0.5, 0.5);
    let drift: f64 = c.rng.f64_range(-20e-6, 20e-6);
    // regime: path-delay jitter decides whether the filter wants to poll faster or slower
    let mut jitter: f64 = match c.rng.below(3) {
        0 => c.rng.log_uniform(1e-9, 1e-7),
        1 => c.rng.log_uniform(1e-3, 5e-2),
        _ => c.rng.log_uniform(1e-9, 5e-2),
    };
    let base_delay = c.rng.log_uniform(1e-4, 0.2);
    let polls_target = c.rng.range(60, 200) as usize;
    let upgrade_server = c.rng.bool();
    let (mut hit_min, mut hit_max, mut changes) = (false, false, 0u32);
    let mut last_desire: Option<i8> = None;
    let mut steps = 0;
    let mut seen_req = false;
    let to_ntp = |sec: f64| -> u64 { ((sec * 4294967296.0) as i64) as u64 };

    let check_log = |c: &mut Case, s: &Sim<Watch<_>>, script: &Vec<String>, hit_min: &mut bool, hit_max: &mut bool, changes: &mut u32, last: &mut Option<i8>| {
        let entries = std::mem::take(&mut *log.lock().unwrap());
        for (after_measurement, d) in entries {
            c.inc("filter_desire_judged");
            *hit_min |= d == min as i8;
            *hit_max |= d == max as i8;
            if let Some(l) = *last {
                if l != d {
                    *changes += 1;
                    c.inc("filter_desire_changes");
                }
            }
            *last = Some(d);
            if d < min as i8 || d > max as i8 {
                let side = if d < min as i8 { "below-min" } else { "above-max" };
                c.violation(
                    format!("B/filter-desire-{side}/{}", c.profile),
                    format!("the clock filter's desired poll interval is {d}, configured limits are [{min}, {max}] (initial {initial})"),
                    json!({"limits": [min, initial, max], "after_measurement": after_measurement, "hysteresis": algo.poll_interval_hysteresis,
                           "mode": s.mode.name(), "script_tail": script.iter().rev().take(20).rev().collect::<Vec<_>>()}),
                );
            }
        }
    };

    while s.sent.len() < polls_target {
        steps += 1;
        if steps > 2000 {
            break;
        }
        let Some(step) = s.step() else { break };
        match step {
            Step::Timer(t) => {
                if let Some(p) = &t.panicked {
                    if panic_is_ours(p) {
                        c.violation(format!("B/panic/handle_timer/{}", c.profile), format!("handle_timer panicked: {p}"), json!({"limits": [min, initial, max], "script": script}));
                    }
                    return;
                }
                script.push(format!("{}ns timer -> {:?}", s.now.as_nanos(), sim::act_names(&t.acts)));
                check_log(c, &s, &script, &mut hit_min, &mut hit_max, &mut changes, &mut last_desire);
                if t.reset || t.demobilize {
                    break;
                }
                let Some(si) = t.sent else { break };
                judge_send(c, &s, &b, si, "B", &script);
                let req = s.sent[si].clone();
                // occasional regime changes: offset step (drives the filter back to min), jitter change, outage
                if c.rng.chance(1, 40) {
                    offset_s += c.rng.f64_range(-0.2, 0.2);
                }
                if c.rng.chance(1, 50) {
                    jitter = c.rng.log_uniform(1e-9, 5e-2);
                }
                if c.rng.chance(1, 12) {
                    continue; // lost
                }
                let up = base_delay / 2.0 + jitter * c.rng.unit();
                let down = base_delay / 2.0 + jitter * c.rng.unit();
                let proc_ = 20e-6;
                if up + down + proc_ >= 4.9 {
                    continue;
                }
                let t_s = s.now.as_secs_f64();
                let off_now = offset_s + drift * t_s;
                let rx = s.local_now().wrapping_add(to_ntp(up + off_now));
                let tx = rx.wrapping_add(to_ntp(proc_));
                let mut genuine = sim::genuine(&req, 2, rx, tx, upgrade_server, c.rng.u64());
                if genuine.h.version == 5 && c.rng.chance(1, 30) {
                    genuine.h.poll = (max + c.rng.below(3) as u8).min(20);
                    seen_req = true;
                }
                let total = Duration::from_secs_f64(up + down + proc_);
                s.schedule(total, Datagram::new(genuine.encode(), "genuine"));
            }
            Step::Datagram(d, truth, out) => {
                if let Some(p) = &out.panicked {
                    // filter arithmetic on hostile values belongs to C06; only poll arithmetic is ours
                    if panic_is_ours(p) {
                        c.violation(
                            format!("B/panic/handle_incoming/{}", c.profile),
                            format!("handle_incoming panicked: {p}"),
                            json!({"limits": [min, initial, max], "datagram": hex(&d.bytes), "script": script}),
                        );
                    }
                    return;
                }
                script.push(format!("{}ns {} poll_byte={} against={:?}", s.now.as_nanos(), d.kind, truth.poll, truth.why_not()));
                note_request(c, &mut b, &truth);
                check_log(c, &s, &script, &mut hit_min, &mut hit_max, &mut changes, &mut last_desire);
            }
        }
    }
    let above = s.sent.iter().any(|r| (r.poll as i8) > max as i8);
    c.sig_of(&("B", mode, min == initial, initial == max, hit_min, hit_max, seen_req, changes.min(6), above));
    if c.wants_sample() {
        c.sample(|| json!({"section": "B", "mode": mode.name(), "limits": [min, initial, max], "desire_changes": changes, "script": script.iter().take(30).collect::<Vec<_>>()}));
    }
}

fn run(c: &mut Case) {
    let (a_per, b_per) = match c.tier {
        Tier::Quick => (A_PER_TRIPLE_Q, B_PER_TRIPLE_Q),
        Tier::Thorough => (A_PER_TRIPLE_T, B_PER_TRIPLE_T),
    };
    let tr = triple(c.idx);
    if c.idx < TRIPLES * a_per {
        section_a(c, tr);
    } else {
        section_b(c, tr);
    }
}
