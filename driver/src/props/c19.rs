//! C19 — NTS server answers are authenticated and carry valid fresh cookies.
//!
//! Events: replies of the real `Server::handle` to NTS requests (request-sized buffer and, on a
//! twin, 8 KiB so that answers the daemon would drop are seen too), opened by the monitor with the
//! session's s2c key (AES-SIV from the dependency); fresh cookies decoded with the server's
//! current `KeySet`. Oracle: see `judge`.

use crate::common::refntp::{self, EF_NTS_AUTH, EF_NTS_COOKIE, EF_NTS_PLACEHOLDER};
use crate::common::srvsim::{self as sim, Act, ListVerdict, NtsStatus, OpenResult, ReplyKind};
use crate::core::{Case, Profiles, Prop, Tier, hex};
use ntp_proto::verif::srv as hsrv;
use serde_json::json;

pub static PROP: Prop = Prop {
    id: "C19",
    level: "exploration",
    rule: "case = key set loaded with 1..history+1 keys and any id offset, rotated 0-5 times with history 0-3 by the real rotate(); twin \
           real Servers holding the final key set; 16 NTS requests (v4/v5, both AEADs) with real cookies issued under the current, a \
           previous or an expired key, 1-12 cookie/placeholder fields of assorted lengths in the authenticated and the encrypted part, \
           extra authenticated/encrypted/unauthenticated fields; failing plans (wrong key, foreign, garbage, expired cookie); \
           RFC-bending NTS layouts; byte-level mutations. Non-trivial = an NTS datagram was judged; distinct = (generator class, layout \
           fingerprint, cookie age vs history, reply kind, number of fresh cookies).",
    assumptions: &[
        "'authenticates' is decided by the monitor itself: exactly one cookie before the single authenticator, cookie accepted by the server's current key set, AES-SIV tag verifies under the cookie's c2s key with everything before the field as associated data; layouts with several authenticators are not judged",
        "the field a fresh cookie 'replaces' is found by order-preserving greedy matching of fresh cookies to the request's cookie/placeholder fields (authenticated part first, then encrypted part)",
        "a DENY is accepted for an unauthenticated request only when the monitor's own list matcher says the client is blocked with action deny",
    ],
    profiles: Profiles::Ship,
    cases: |t| t.pick(60_000, 600_000),
    budget_s: |t| t.pick(45, 400),
    run,
    min_nontrivial: 500,
    required_counters: &[
        "failing_judged", "failing_nak", "authentic_time", "fresh_cookies_decoded", "requests_with_9plus_slots",
        "expired_cookie_requests", "previous_key_cookies", "alg512_answers", "v5_answers", "slot_smaller_than_cookie", "big_buffer_only_answers",
    ],
    exhaustive: false,
    crash_is_violation: false,
};

fn run(c: &mut Case) {
    let recv = c.rng.u64();
    let lists = c.rng.chance(1, 4);
    let cfg = sim::gen_cfg(&mut c.rng, sim::CfgOpts { lists, rate: sim::RateMode::Off, require_nts: true, version_subsets: false });
    let (spec, info) = sim::gen_info(&mut c.rng, recv, false);
    let keys = match sim::gen_keys(&mut c.rng, 5, 3) {
        Ok(k) => k,
        Err(e) => return c.harness_error(e),
    };
    let now = c.rng.u64();
    let mut w = match sim::build_world(cfg.clone(), spec, info, keys, now) {
        Ok(w) => w,
        Err(e) => return c.harness_error(e),
    };
    let mut big = match sim::build_server(&cfg, info, w.keys.current(), w.clock.clone()) {
        Ok(b) => b.0,
        Err(e) => return c.harness_error(e),
    };
    let (mut spy_a, mut spy_b) = (sim::Spy::default(), sim::Spy::default());
    for k in 0..16u64 {
        let flavor = if c.rng.bool() { sim::Flavor::V4Nts } else { sim::Flavor::V5Nts };
        let plan = match c.rng.below(10) {
            0 => sim::NtsPlan::WrongKey,
            1 => sim::NtsPlan::ForeignCookie,
            2 => sim::NtsPlan::GarbageCookie,
            3 | 4 => sim::NtsPlan::ExpiredCookie,
            _ => sim::NtsPlan::Good,
        };
        let base = |c: &mut Case| sim::gen_valid(&mut c.rng, flavor, &w.keys, plan).or_else(|_| sim::gen_valid(&mut c.rng, flavor, &w.keys, sim::NtsPlan::Good));
        let req = match c.rng.below(10) {
            0..=5 => base(c),
            6 | 7 => sim::gen_lenient(&mut c.rng, flavor, &w.keys),
            _ => base(c).map(|b| sim::mutate(&mut c.rng, &b)),
        };
        let req = match req {
            Ok(r) => r,
            Err(e) => {
                c.harness_error(e);
                continue;
            }
        };
        let ip = if c.rng.chance(3, 4) { sim::gen_client_passing(&mut c.rng, &w.cfg).unwrap_or_else(|| sim::gen_client(&mut c.rng, &w.cfg)) } else { sim::gen_client(&mut c.rng, &w.cfg) };
        let t = recv.wrapping_add(k);
        let server = &mut w.server;
        let (a, b) = match crate::core::guard(|| {
            (sim::handle_like_daemon(server, &mut spy_a, ip, t, &req.bytes), sim::handle_buf(&mut big, &mut spy_b, ip, t, &req.bytes, 8192))
        }) {
            Ok(x) => x,
            Err(_) => {
                c.inc("panics_not_judged_here");
                return;
            }
        };
        if a.reply.is_none() && b.reply.is_some() {
            c.inc("big_buffer_only_answers");
        }
        judge(c, &w, &req, ip, a.reply.as_deref(), "request-sized");
        judge(c, &w, &req, ip, b.reply.as_deref(), "8KiB");
    }
}

fn judge(c: &mut Case, w: &sim::World, req: &sim::Req, ip: std::net::IpAddr, reply: Option<&[u8]>, buf: &'static str) {
    let keyset = w.keys.current();
    let status = sim::nts_status(&req.bytes, &keyset);
    // harness self-check: what the generator meant vs what the monitor's verifier says
    if let Some(n) = &req.truth.nts {
        match (n.auth_ok, &status) {
            (Some(true), NtsStatus::Authentic { .. }) | (Some(false), NtsStatus::Failing) | (None, _) => {}
            (Some(x), s) => {
                c.harness_error(format!("generator meant auth_ok={x} (cookie age {}, history {}), verifier says {}", n.cookie_age, w.keys.history, match s { NtsStatus::Authentic { .. } => "authentic", NtsStatus::Failing => "failing", NtsStatus::Plain => "plain", NtsStatus::Unclear => "unclear" }));
                return;
            }
        }
        if n.cookie_age > 0 && n.cookie_current {
            c.inc("previous_key_cookies");
        }
        if !n.cookie_current {
            c.inc("expired_cookie_requests");
        }
    }
    let rp = reply.and_then(refntp::parse);
    let kind = rp.as_ref().map(|p| sim::classify(&p.header));
    let detail = |extra: serde_json::Value| {
        json!({"request": req.json(), "reply": reply.map(hex), "buffer": buf, "client": ip.to_string(), "config": w.cfg.json(),
               "history": w.keys.history, "rotations": w.keys.rotations(), "finding": extra})
    };
    let age_class = req.truth.nts.as_ref().map(|n| (n.cookie_age.min(4), n.cookie_current));
    match &status {
        NtsStatus::Plain | NtsStatus::Unclear => {
            c.inc("not_nts_or_unclear_not_judged");
        }
        NtsStatus::Failing => {
            c.inc("failing_judged");
            c.sig_of(&(&req.truth.class, req.truth.shape, age_class, kind, 0usize));
            match kind {
                None => c.inc("failing_ignored"),
                Some(ReplyKind::Nak) => c.inc("failing_nak"),
                Some(ReplyKind::Deny) => {
                    c.inc("failing_deny");
                    let dv = sim::list_verdict(&w.cfg.deny, ip);
                    let av = sim::list_verdict(&w.cfg.allow, ip);
                    let denied = if dv == ListVerdict::In { Some(w.cfg.deny_action == Act::Deny) } else if dv == ListVerdict::Ambiguous { None } else if av == ListVerdict::Out { Some(w.cfg.allow_action == Act::Deny) } else if av == ListVerdict::Ambiguous { None } else { Some(false) };
                    if denied == Some(false) {
                        c.violation("nts/unauthenticated-deny-without-policy", "a request that fails NTS authentication was answered DENY although policy does not deny the client", detail(json!(null)));
                    }
                }
                Some(k) => {
                    c.violation(format!("nts/unauthenticated-got-{}", format!("{k:?}").to_lowercase()), format!("a request that fails NTS authentication was answered with {k:?}"), detail(json!(null)));
                }
            }
        }
        NtsStatus::Authentic { session, plaintext } => {
            let Some(rp) = rp else {
                c.inc("authentic_not_answered");
                return;
            };
            let reply = reply.unwrap();
            if kind != Some(ReplyKind::Time) {
                c.inc("authentic_non_time_answer");
                return;
            }
            c.inc("authentic_time");
            if session.alg == 17 {
                c.inc("alg512_answers");
            }
            let v5 = rp.header.version == 5;
            if v5 {
                c.inc("v5_answers");
            }
            // the answer must authenticate under s2c
            let opened = match sim::open_nts(reply, &rp, session.alg, &session.s2c) {
                OpenResult::Opened(o) => o,
                OpenResult::NoAuthField => {
                    c.violation("nts/time-answer-without-authenticator", "time answer to an authenticated NTS request carries no authenticator", detail(json!(null)));
                    return;
                }
                OpenResult::Failed(why) => {
                    let with_c2s = matches!(sim::open_nts(reply, &rp, session.alg, &session.c2s), OpenResult::Opened(_));
                    c.violation("nts/time-answer-does-not-authenticate", format!("the answer does not open with the cookie's s2c key: {why}"), detail(json!({"opens_with_c2s": with_c2s})));
                    return;
                }
            };
            // slots: cookie and placeholder fields of the request, authenticated part then encrypted part
            let qp = refntp::parse(&req.bytes).unwrap();
            let auth_at = qp.fields.iter().position(|f| f.type_id == EF_NTS_AUTH).unwrap();
            let (enc_fields, _) = sim::walk_fields(plaintext, v5);
            let slots: Vec<usize> = qp.fields[..auth_at].iter().chain(enc_fields.iter()).filter(|f| f.type_id == EF_NTS_COOKIE || f.type_id == EF_NTS_PLACEHOLDER).map(|f| f.value.len()).collect();
            let fresh: Vec<&refntp::RefField> = opened.fields.iter().filter(|f| f.type_id == EF_NTS_COOKIE).collect();
            c.sig_of(&(&req.truth.class, req.truth.shape, age_class, kind, fresh.len()));
            if slots.len() >= 9 {
                c.inc("requests_with_9plus_slots");
            }
            if fresh.len() == 8 {
                c.inc("time_with_8_cookies");
            }
            let cookie_len = if session.alg == 15 { 104 } else { 168 };
            if slots.iter().any(|s| *s < cookie_len) {
                c.inc("slot_smaller_than_cookie");
            }
            if fresh.len() > 8 {
                c.violation("nts/more-than-8-cookies", format!("{} fresh cookies in one answer", fresh.len()), detail(json!({"slots": slots})));
            }
            if fresh.len() > slots.len() {
                c.violation("nts/more-cookies-than-slots", format!("{} fresh cookies for {} cookie/placeholder fields", fresh.len(), slots.len()), detail(json!({"slots": slots})));
            }
            // none larger than the field it replaces
            let mut si = 0;
            for f in &fresh {
                while si < slots.len() && slots[si] < f.value.len() {
                    si += 1;
                }
                if si >= slots.len() {
                    c.violation("nts/cookie-larger-than-its-slot", format!("a fresh cookie of {} bytes has no request field of at least that size left to replace", f.value.len()), detail(json!({"slots": slots, "fresh": fresh.iter().map(|f| f.value.len()).collect::<Vec<_>>()})));
                    break;
                }
                si += 1;
            }
            for f in &fresh {
                c.inc("fresh_cookies_decoded");
                match hsrv::decode_cookie(&keyset, &f.value) {
                    None => c.violation("nts/fresh-cookie-undecodable", "a fresh cookie does not decode under the server's current keys", detail(json!({"cookie": hex(&f.value)}))),
                    Some((alg, s2c, c2s)) => {
                        if alg != session.alg || s2c != session.s2c || c2s != session.c2s {
                            c.violation("nts/fresh-cookie-other-keys", "a fresh cookie decodes to other session keys / algorithm than the request's cookie", detail(json!({"alg": alg, "s2c": hex(&s2c), "c2s": hex(&c2s)})));
                        }
                    }
                }
            }
            c.sample(|| json!({"request": req.json(), "slots": slots, "fresh": fresh.len(), "buffer": buf}));
        }
    }
}
