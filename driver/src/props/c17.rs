//! C17 — a request-sized buffer always suffices for the server's answer.
//!
//! Events: twin real Servers in identical state handle the same datagram, one with a buffer as
//! long as the request (what the daemon passes), one with 8 KiB. Oracle: whenever the 8 KiB twin
//! answers, the request-sized twin answers too and both register the same response.

use crate::common::refntp::{self, EF_NTS_AUTH};
use crate::common::srvsim as sim;
use crate::core::{Case, Profiles, Prop, Tier, hex};
use serde_json::json;

pub static PROP: Prop = Prop {
    id: "C17",
    level: "exploration",
    rule: "case = two real Servers built from the same configuration (rate limiting off so that they stay in step), synchronisation \
           state and key set; 24 datagrams (valid grammar, failing NTS plans, RFC-bending but parsable layouts: short fields, odd \
           nonces, short placeholders, MAC tails, v5 odd lengths; mutations; raw) each handled by twin A with a request-sized buffer \
           and twin B with 8 KiB. Non-trivial = twin B answered; distinct = (generator class, layout fingerprint, reply kind).",
    assumptions: &[
        "the policy decision is read off the large-buffer twin: if it answers, policy decided to answer",
        "violation signatures name the structural cause the monitor can see in the request (field below the RFC 7822 minimum, last field + MAC tail below 28, NTS nonce shorter than 16, NTPv5 NTS unique id below 16, other); '-valid-grammar' is added when the request came unmodified from the valid-request grammar",
    ],
    profiles: Profiles::Ship,
    cases: |t| t.pick(60_000, 600_000),
    budget_s: |t| t.pick(40, 400),
    run,
    min_nontrivial: 500,
    required_counters: &["pairs", "big_answers", "both_answer", "valid_grammar_answers", "nts_time_pairs", "v5_pairs", "deny_pairs", "nak_pairs"],
    exhaustive: false,
    crash_is_violation: false,
};

fn cause(d: &[u8]) -> &'static str {
    let Some(p) = refntp::parse(d) else { return "other" };
    let auth_at = p.fields.iter().position(|f| f.type_id == EF_NTS_AUTH);
    if let Some(a) = auth_at.map(|i| &p.fields[i]) {
        if a.value.len() >= 2 && u16::from_be_bytes([a.value[0], a.value[1]]) < 16 {
            return "nonce-shorter-than-16";
        }
    }
    if p.header.version == 4 {
        let n = p.fields.len();
        for (i, f) in p.fields.iter().enumerate() {
            let min = if i + 1 == n && p.trailer.is_empty() { 28 } else { 16 };
            if (f.length as usize) < min {
                return "field-below-rfc7822-minimum";
            }
        }
        if let Some(l) = p.fields.last() {
            if !p.trailer.is_empty() && (l.length as usize) + p.trailer.len() < 28 {
                return "last-field-plus-mac-tail-below-28";
            }
        }
    } else if p.header.version == 5 {
        if let Some(i) = auth_at {
            if p.fields[..i].iter().any(|f| f.type_id == crate::common::refntp::EF_UNIQUE_ID && (f.length as usize) < 16) {
                return "nts-unique-id-below-16";
            }
        }
    }
    "other"
}

fn run(c: &mut Case) {
    let recv = c.rng.u64();
    let lists = c.rng.chance(1, 4);
    let cfg = sim::gen_cfg(&mut c.rng, sim::CfgOpts { lists, rate: sim::RateMode::Off, require_nts: true, version_subsets: false });
    let (spec, info) = sim::gen_info(&mut c.rng, recv, false);
    let keys = match sim::gen_keys(&mut c.rng, 4, 3) {
        Ok(k) => k,
        Err(e) => return c.harness_error(e),
    };
    let now = recv.wrapping_add(c.rng.below(1 << 30));
    let mut w = match sim::build_world(cfg.clone(), spec, info, keys, now) {
        Ok(w) => w,
        Err(e) => return c.harness_error(e),
    };
    let mut big = match sim::build_server(&cfg, info, w.keys.current(), w.clock.clone()) {
        Ok(b) => b.0,
        Err(e) => return c.harness_error(e),
    };
    let (mut spy_a, mut spy_b) = (sim::Spy::default(), sim::Spy::default());
    for k in 0..24u64 {
        let flavor = *c.rng.pick(&sim::FLAVORS);
        let req = match c.rng.below(10) {
            0 | 1 | 2 | 3 => sim::gen_valid(&mut c.rng, flavor, &w.keys, sim::NtsPlan::Good),
            4 | 5 | 6 => sim::gen_lenient(&mut c.rng, flavor, &w.keys),
            _ => sim::gen_any(&mut c.rng, &w.keys),
        };
        let req = match req {
            Ok(r) => r,
            Err(e) => {
                c.harness_error(e);
                continue;
            }
        };
        let ip = sim::gen_client_passing(&mut c.rng, &w.cfg).unwrap_or_else(|| sim::gen_client(&mut c.rng, &w.cfg));
        let t = recv.wrapping_add(k);
        let server = &mut w.server;
        let (a, b) = match crate::core::guard(|| {
            (sim::handle_like_daemon(server, &mut spy_a, ip, t, &req.bytes), sim::handle_buf(&mut big, &mut spy_b, ip, t, &req.bytes, 8192))
        }) {
            Ok(x) => x,
            Err(_) => {
                c.inc("panics_not_judged_here");
                return;
            }
        };
        c.inc("pairs");
        let Some(rb) = &b.reply else {
            if a.reply.is_some() {
                c.inc("small_answers_big_does_not");
            }
            continue;
        };
        c.inc("big_answers");
        let kind = refntp::parse_header(rb).map(|h| sim::classify(&h));
        c.sig_of(&(&req.truth.class, req.truth.shape, kind));
        if req.truth.valid {
            c.inc("valid_grammar_answers");
        }
        match kind {
            Some(sim::ReplyKind::Time) if req.truth.nts.is_some() => c.inc("nts_time_pairs"),
            Some(sim::ReplyKind::Deny) => c.inc("deny_pairs"),
            Some(sim::ReplyKind::Nak) => c.inc("nak_pairs"),
            _ => {}
        }
        if req.truth.version == 5 {
            c.inc("v5_pairs");
        }
        let nts = if refntp::parse(&req.bytes).map(|p| p.fields.iter().any(|f| f.type_id == EF_NTS_AUTH)).unwrap_or(false) { "nts" } else { "plain" };
        let detail = || {
            json!({"request": req.json(), "client": ip.to_string(), "config": w.cfg.json(),
                   "big_buffer_reply": hex(rb), "big_buffer_reply_len": rb.len(), "request_len": req.bytes.len(),
                   "request_sized_reply": a.reply.as_ref().map(|r| hex(r)),
                   "registered_request_sized": a.regs.iter().map(|r| r.json()).collect::<Vec<_>>(),
                   "registered_big": b.regs.iter().map(|r| r.json()).collect::<Vec<_>>()})
        };
        match &a.reply {
            None => {
                c.violation(
                    format!("insufficient{}/{}", if req.truth.valid { "-valid-grammar" } else { "" }, cause(&req.bytes)),
                    format!(
                        "the server answers this {}-byte v{} {nts} request with a {}-byte {:?} when given room, but drops it with a request-sized buffer (registered {:?})",
                        req.bytes.len(), req.truth.version, rb.len(), kind, a.regs.first().map(|r| (r.reason, r.response))
                    ),
                    detail(),
                );
            }
            Some(_) => {
                c.inc("both_answer");
                let (ra, rb_) = (a.regs.first().map(|r| r.response), b.regs.first().map(|r| r.response));
                if ra != rb_ {
                    c.violation("twins-register-differently", format!("request-sized twin registered {ra:?}, large-buffer twin {rb_:?}"), detail());
                }
            }
        }
        if k == 0 {
            c.sample(|| json!({"request": req.json(), "big_len": rb.len(), "small": a.reply.as_ref().map(|r| r.len())}));
        }
    }
}
