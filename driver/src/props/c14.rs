//! C14 — building a poll request never fails: for every cookie length 0..=1024, every
//! stash fill level and every protocol-version mode, `handle_timer` yields a datagram
//! that fits 1024 bytes or asks for a reset; it never panics.
//!
//! Index space = the complete grid (cookie length 0..=1024) x (fill 1..=8) x (4 version
//! modes); each grid case runs both AEADs, the plain source of that mode and one random
//! mixed-length stash on top.

use crate::common::refntp;
use crate::common::srcbsim::{
    Act, Fld, Keys, ReqView, SpyEv, UnitCfg, Ver, World, answer_header, first_send, open, random_cookie, skeleton, view_request,
};
use crate::core::{Case, Profiles, Prop, Tier, hex};
use serde_json::{Value, json};
use std::net::SocketAddr;

const LENS: u64 = 1025;
const FILLS: u64 = 8;
const GRID: u64 = LENS * FILLS * 4;

pub static PROP: Prop = Prop {
    id: "C14",
    level: "exploration",
    rule: "case idx enumerates the COMPLETE grid: cookie length L = idx % 1025 (0..=1024), stash fill F = (idx/1025) % 8 + 1 (1..=8), \
           version mode = idx/8200 in {V4, V4-upgrading-to-V5, upgraded-to-V5, V5}; same index space in both tiers. Each case builds real \
           NTS NtpSources (AEAD_AES_SIV_CMAC_256 and _512) holding F cookies of length L (the upgraded-to-V5 mode is entered through a real upgrade exchange first) and calls handle_timer (quick: twice; thorough: \
           until the stash is empty and once more), plus the plain source of that mode, plus one NTS source with a random mixed-length \
           stash (lengths 0..=1024) polled until empty. Every result is judged: Send(b) with |b|<=1024 decoding (reference codec) as a \
           mode-3 request of the expected version with the oldest cookie, a 32-byte unique id and an authenticator opening under c2s; \
           or Reset; a panic or worker death is a violation. Signature = (mode, L/32, F, outcome, placeholders).",
    assumptions: &[
        "each grid point uses one cookie length for the whole stash; mixed-length stashes and poll exponents are sampled, not enumerated",
        "for an NTS source in the V4-upgrading state (not reachable through key exchange) either protocol version is accepted",
        "Reset is accepted wherever it occurs (the statement allows it); only C13 judges how many cookies are asked for",
    ],
    profiles: Profiles::Both,
    cases: |_| GRID,
    budget_s: |t| t.pick(400, 1500),
    run,
    min_nontrivial: 300,
    required_counters: &["nts_send", "nts_reset", "plain_send", "mixed_timer"],
    exhaustive: true,
    crash_is_violation: true,
};

/// versions a request may have: `k` = number of polls since the source entered this mode
fn allowed_versions(ver: Ver, nts: bool, k: usize) -> &'static [u8] {
    match ver {
        Ver::V4 => &[4],
        Ver::V5 => &[5],
        // after two unanswered polls an upgraded source may fall back to NTPv4
        Ver::Upgraded => {
            if k < 2 {
                &[5]
            } else {
                &[4, 5]
            }
        }
        Ver::Upgrading => {
            if nts {
                &[4, 5]
            } else {
                &[4]
            }
        }
    }
}

struct Ctx {
    ver: Ver,
    alg: u16,
    detail: Value,
}

/// returns false when the session must stop (Reset, violation)
fn judge(c: &mut Case, w: &mut World, u: usize, ctx: &Ctx, oldest: Option<&Vec<u8>>, keys: Option<&Keys>, tag: &str, allowed: &[u8]) -> Option<(bool, usize, Vec<u8>)> {
    let prof = c.profile;
    let acts = match w.timer(u) {
        Ok(a) => a,
        Err(p) => {
            c.violation(
                format!("panic/handle_timer/{prof}/{}", p.site()),
                format!("panic in handle_timer ({tag}) at {}: {}", p.location, p.message),
                ctx.detail.clone(),
            );
            return None;
        }
    };
    if acts.contains(&Act::Reset) {
        return Some((false, 0, vec![]));
    }
    let Some(raw) = first_send(&acts) else {
        c.violation(
            format!("C14/{tag}/neither-send-nor-reset/{prof}"),
            format!("handle_timer returned {acts:?}"),
            ctx.detail.clone(),
        );
        return None;
    };
    let bad = |c: &mut Case, what: &str, msg: String| {
        let mut d = ctx.detail.clone();
        d["request"] = json!(hex(raw));
        c.violation(format!("C14/{tag}/{what}/{prof}"), msg, d);
    };
    if raw.len() > 1024 {
        bad(c, "oversize", format!("request of {} bytes", raw.len()));
        return None;
    }
    let Some(req) = view_request(raw) else {
        bad(c, "undecodable", "reference decoder cannot read the request".into());
        return None;
    };
    if req.mode != 3 || !allowed.contains(&req.version) || req.trailer_len != 0 {
        bad(
            c,
            "not-a-request",
            format!("mode {} version {} trailer {} for {:?}", req.mode, req.version, req.trailer_len, ctx.ver),
        );
        return None;
    }
    if let (Some(keys), Some(oldest)) = (keys, oldest) {
        let ok_cookie = req
            .cookie
            .as_ref()
            .map(|w| w.len() >= oldest.len() && w[..oldest.len()] == oldest[..] && w[oldest.len()..].iter().all(|b| *b == 0))
            .unwrap_or(false);
        let ok_uid = req.uid.as_ref().map(|u| u.len() == 32).unwrap_or(false);
        let ok_auth = req
            .auth
            .as_ref()
            .map(|f| open(keys.c2s().as_ref(), raw, f).is_some())
            .unwrap_or(false);
        if !ok_cookie || !ok_uid || !ok_auth || req.placeholders.len() > 7 {
            bad(
                c,
                "malformed-nts-request",
                format!("cookie ok {ok_cookie}, uid ok {ok_uid}, authenticator opens under c2s {ok_auth}, placeholders {}", req.placeholders.len()),
            );
            return None;
        }
    }
    Some((true, req.placeholders.len(), raw.clone()))
}


/// Bring a source that was built in the V4-upgrading state into the upgraded-to-V5 state the way
/// the protocol does it: one poll, answered by an NTPv4 answer carrying the upgrade marker (sealed
/// under s2c for NTS, delivering `extra` cookies in its encrypted part). None = stop the case.
fn upgrade(c: &mut Case, w: &mut World, u: usize, ctx: &Ctx, keys: Option<&Keys>, first: Option<&Vec<u8>>, extra: &[Vec<u8>]) -> Option<bool> {
    let (sent, _, raw) = judge(c, w, u, ctx, first, keys, "upgrading", allowed_versions(Ver::Upgrading, keys.is_some(), 0))?;
    if !sent {
        return Some(false);
    }
    let req = view_request(&raw)?;
    let now = w.now_local();
    let mut fake = req.clone();
    fake.version = 4;
    let mut hdr = answer_header(&fake, 2, [192, 0, 2, 1], now, now + 7, &mut c.rng);
    hdr.reference_ts = refntp::UPGRADE_MARKER;
    let mut f = skeleton(&fake, hdr, keys.is_some());
    if keys.is_some() {
        f.enc = Some(extra.iter().map(|ck| Fld::new(refntp::EF_NTS_COOKIE, ck.clone())).collect());
    }
    let s2c = keys.map(|k| k.s2c());
    let d = f.emit(s2c.as_deref(), &mut c.rng);
    w.take_spy(u);
    let r = w.incoming(u, &d, now, now + 99);
    let evs = w.take_spy(u);
    let dg = w.digest(u);
    if r.is_err() || dg.version != 2 || dg.reach == 0 {
        c.inc("upgrade_failed");
        return Some(false);
    }
    c.inc("upgraded");
    Some(true)
}

fn run(c: &mut Case) {
    let l = (c.idx % LENS) as usize;
    let fill = ((c.idx / LENS) % FILLS) as usize + 1;
    let ver = Ver::ALL[((c.idx / (LENS * FILLS)) % 4) as usize];
    let addr: SocketAddr = "192.0.2.14:123".parse().unwrap();
    let mut w = World::new(16, vec![], 0xE100_0000_0000_0000);
    let deep = c.tier == Tier::Thorough;
    // the upgraded state is entered through a real upgrade exchange (a source constructed in
    // that state has never heard from its server and falls back to NTPv4 at once)
    let build_ver = if ver == Ver::Upgraded { Ver::Upgrading } else { ver };

    for alg in [15u16, 17] {
        let keys = Keys::random(&mut c.rng, alg);
        let cookies: Vec<Vec<u8>> = (0..fill).map(|_| random_cookie(&mut c.rng, l)).collect();
        let desired = c.rng.range(-2, 20) as i8;
        // stash handed over by "key exchange"; for the upgraded mode one more cookie is needed for the upgrade poll
        let mut initial = cookies.clone();
        let mut extra = vec![];
        let seed = random_cookie(&mut c.rng, 100);
        if ver == Ver::Upgraded {
            if fill < 8 {
                initial.insert(0, seed.clone());
            } else {
                // 8 is the capacity: the upgrade poll uses the first cookie and the upgrade answer delivers one more of this length
                extra.push(random_cookie(&mut c.rng, l));
            }
        }
        let u = w.add(UnitCfg { addr, ver: build_ver, poll_min: 4, poll_max: 17, desired, nts: Some((keys.clone(), initial.clone())) });
        let ctx = Ctx {
            ver,
            alg,
            detail: json!({"cookie_len": l, "fill": fill, "version_mode": format!("{ver:?}"), "aead": alg, "desired_poll": desired,
                           "initial_stash_lengths": initial.iter().map(|x| x.len()).collect::<Vec<_>>(),
                           "cookies": if l <= 64 { json!(cookies.iter().map(|x| hex(x)).collect::<Vec<_>>()) } else { json!("random bytes of that length") }}),
        };
        let mut expect: Vec<Vec<u8>> = cookies.clone();
        if ver == Ver::Upgraded {
            match upgrade(c, &mut w, u, &ctx, Some(&keys), initial.first(), &extra) {
                None => return,
                Some(false) => {
                    // the upgrade poll itself asked for a reset (cookie too large): nothing more to drive
                    c.inc("nts_reset");
                    c.sig_of(&(ver, l / 32, fill, "reset-before-upgrade", 0));
                    continue;
                }
                Some(true) => {}
            }
            if fill == 8 {
                expect.remove(0);
                // the delivered cookie as the NTPv4 framing carries it (padded to a multiple of 4)
                let mut e = extra[0].clone();
                e.resize((e.len() + 3) & !3, 0);
                expect.push(e);
            }
        }
        let rounds = if deep { expect.len() + 1 } else { 2.min(expect.len() + 1) };
        for k in 0..rounds {
            let oldest = expect.get(k);
            match judge(c, &mut w, u, &ctx, oldest, Some(&keys), "nts", allowed_versions(ver, true, k)) {
                Some((true, ph, _)) => {
                    c.inc("nts_send");
                    c.sig_of(&(ver, l / 32, fill - k.min(fill), "send", ph));
                }
                Some((false, _, _)) => {
                    c.inc("nts_reset");
                    c.sig_of(&(ver, l / 32, fill - k.min(fill), "reset", 0));
                    break;
                }
                None => return,
            }
            w.advance(std::time::Duration::from_secs(1));
        }
    }

    // plain source of this mode
    {
        let desired = c.rng.range(-2, 20) as i8;
        let u = w.add(UnitCfg { addr, ver: build_ver, poll_min: 4, poll_max: 17, desired, nts: None });
        let ctx = Ctx { ver, alg: 0, detail: json!({"plain": true, "version_mode": format!("{ver:?}"), "desired_poll": desired}) };
        let mut go = true;
        if ver == Ver::Upgraded {
            match upgrade(c, &mut w, u, &ctx, None, None, &[]) {
                None => return,
                Some(ok) => go = ok,
            }
        }
        for k in 0..3 {
            if !go {
                break;
            }
            match judge(c, &mut w, u, &ctx, None, None, "plain", allowed_versions(ver, false, k)) {
                Some((true, _, _)) => c.inc("plain_send"),
                Some((false, _, _)) => {
                    c.inc("plain_reset");
                    break;
                }
                None => return,
            }
        }
    }

    // mixed-length stash
    {
        let alg = if c.rng.bool() { 15 } else { 17 };
        let keys = Keys::random(&mut c.rng, alg);
        let n = c.rng.usize(1, 8);
        let cookies: Vec<Vec<u8>> = (0..n)
            .map(|_| {
                let len = match c.rng.below(4) {
                    0 => c.rng.usize(0, 1024),
                    1 => c.rng.usize(700, 760),
                    2 => l,
                    _ => c.rng.usize(0, 200),
                };
                random_cookie(&mut c.rng, len)
            })
            .collect();
        let mver = if ver == Ver::Upgraded { Ver::V5 } else { ver };
        let u = w.add(UnitCfg { addr, ver: mver, poll_min: 4, poll_max: 17, desired: 6, nts: Some((keys.clone(), cookies.clone())) });
        let ctx = Ctx {
            ver: mver,
            alg,
            detail: json!({"mixed": true, "version_mode": format!("{mver:?}"), "aead": alg, "cookie_lengths": cookies.iter().map(|x| x.len()).collect::<Vec<_>>()}),
        };
        for k in 0..=n {
            c.inc("mixed_timer");
            match judge(c, &mut w, u, &ctx, cookies.get(k), Some(&keys), "mixed", allowed_versions(mver, true, k)) {
                Some((true, _, _)) => {}
                Some((false, _, _)) => break,
                None => return,
            }
        }
    }
    if c.wants_sample() {
        c.sample(|| json!({"cookie_len": l, "fill": fill, "version_mode": format!("{ver:?}")}));
    }
}
