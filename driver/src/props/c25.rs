//! C25 — tampered NTS packets are never accepted as authentic.
//!
//! Events: the authenticated / encrypted extension-field lists (guarded hook, `Debug` rendering of
//! every field) and the returned cookie keys of `NtpPacket::deserialize` in the matching key context
//! (server KeySet for requests, client s2c cipher for responses), for a valid NTS packet and for every
//! single-bit modification of it (thorough tier: also 3 byte substitutions per byte).
//! Oracle: byte regions from the independent reference parser (`pktgen::nts_layout`):
//!   protected = header, every field before the authenticator, the authenticator's nonce bytes and
//!               ciphertext bytes  => after the change nothing is authenticated/encrypted, no cookie;
//!   other     = authenticator type/length/nonce-length/ciphertext-length, its padding, everything
//!               after it => nothing authenticated, or exactly the original content and keys.
//! A panic of the decoder is C23's business and is only counted here.

use std::io::Cursor;

use crate::common::pktgen::{self, Ctx, NtsLayout, World};
use crate::core::{Case, Profiles, Prop, Tier, guard, hex};
use ntp_proto::verif::packet::a6 as hk;
use ntp_proto::verif::pkt as hp;
use ntp_proto::{NtpPacket, PacketParsingError, PollIntervalLimits};
use serde_json::json;

pub static PROP: Prop = Prop {
    id: "C25",
    level: "exploration",
    rule: "case = one valid NTS packet: request (mode 3, sealed with c2s, carries a cookie the server key set opens; decoded \
           with the server KeySet) or response (mode 4, sealed with s2c, decoded with the client cipher), NTPv4 or draft \
           NTPv5, AEAD 15 or 17, 0-3 extra authenticated fields, 0-3 encrypted fields, 0-2 trailing fields, optional \
           padding inside the authenticator; built by the harness's own encoder with real AES-SIV (every 6th case: a \
           request built and sealed by the repository's own encoder). EVERY single-bit flip of the datagram is decoded \
           (thorough: plus 3 substitutions of every byte). Distinct non-trivial = distinct (version, direction, AEAD, \
           #extra authenticated, #encrypted, #trailing, padded authenticator, encoder) tuples of packets whose unmodified \
           form authenticates.",
    assumptions: &[
        "region boundaries come from the reference TLV parser in driver/src/common/refntp.rs",
        "content equality of extension fields is judged on their Debug rendering (type and all data bytes)",
        "a decoder panic on a modified packet is not judged here (C23)",
    ],
    profiles: Profiles::Both,
    cases: |t| t.pick(1_500, 15_000),
    budget_s: |t| t.pick(45, 420),
    run,
    min_nontrivial: 30,
    required_counters: &[
        "packets_request",
        "packets_response",
        "packets_real_encoder",
        "flips_header",
        "flips_preceding_fields",
        "flips_nonce",
        "flips_ciphertext",
        "flips_auth_framing",
        "flips_after_authenticator",
        "other_change_still_authentic",
        "other_change_rejected",
    ],
    exhaustive: false,
    crash_is_violation: false,
};

#[derive(Clone, Debug, PartialEq, Eq, Default)]
struct Seen {
    authenticated: Vec<String>,
    encrypted: Vec<String>,
    cookie: Option<(u16, Vec<u8>, Vec<u8>)>,
    kind: &'static str,
}

impl Seen {
    fn nothing_authentic(&self) -> bool {
        self.authenticated.is_empty() && self.encrypted.is_empty() && self.cookie.is_none()
    }
}

fn observe(w: &World, ctx: Ctx, data: &[u8]) -> Option<Seen> {
    guard(|| {
        w.decode(ctx, data, |r| match r {
            Ok((p, cookie)) => {
                let l = hk::field_lists(&p);
                Seen {
                    authenticated: l.authenticated,
                    encrypted: l.encrypted,
                    cookie: cookie.as_ref().map(hp::cookie_parts),
                    kind: "ok",
                }
            }
            Err(PacketParsingError::DecryptError(p)) => {
                let l = hk::field_lists(&p);
                Seen {
                    authenticated: l.authenticated,
                    encrypted: l.encrypted,
                    cookie: None,
                    kind: "decrypt-error",
                }
            }
            Err(_) => Seen { kind: "error", ..Default::default() },
        })
    })
    .ok()
}

fn region_of(l: &NtsLayout, pos: usize) -> (&'static str, bool) {
    if pos < 48 {
        ("header", true)
    } else if pos < l.auth_off {
        ("preceding-field", true)
    } else if pos >= l.nonce.0 && pos < l.nonce.1 {
        ("nonce", true)
    } else if pos >= l.ct.0 && pos < l.ct.1 {
        ("ciphertext", true)
    } else if pos < l.auth_end {
        ("auth-framing", false)
    } else {
        ("after-authenticator", false)
    }
}

fn run(c: &mut Case) {
    let world = World::new(&mut c.rng);
    let real_encoder = c.idx % 6 == 5;
    let (bytes, request, desc) = if real_encoder {
        // request built and sealed by the repository's own encoder
        let v5 = c.rng.bool();
        let n_new = c.rng.usize(1, 4) as u8;
        let poll = PollIntervalLimits::default().min;
        let (p, _) = if v5 { NtpPacket::nts_poll_message_v5(&world.cookie, n_new, poll) } else { NtpPacket::nts_poll_message(&world.cookie, n_new, poll) };
        let cipher = hk::cipher_from_key(&world.session.c2s).expect("key size");
        let mut buf = vec![0u8; 4096];
        let mut cur = Cursor::new(buf.as_mut_slice());
        if p.serialize(&mut cur, cipher.as_ref(), None).is_err() {
            c.harness_error("real encoder failed to serialize an NTS request");
            return;
        }
        let n = cur.position() as usize;
        buf.truncate(n);
        c.inc("packets_real_encoder");
        (buf, true, (if v5 { 5u8 } else { 4 }, true, n_new as usize, 0usize, 0usize, false))
    } else {
        let mut spec = pktgen::random_spec(&mut c.rng, true);
        spec.request = c.idx % 2 == 0;
        let d = (spec.version, spec.request, spec.pre_extra, spec.inner, spec.post, spec.extra_pad > 0);
        let b = pktgen::nts_packet(&mut c.rng, &world, spec);
        (b.bytes, d.1, d)
    };
    let ctx = if request { Ctx::Server } else { Ctx::Client };
    let Some(layout) = pktgen::nts_layout(&bytes) else {
        c.harness_error(format!("reference parser finds no authenticator in a generated packet: {}", hex(&bytes)));
        return;
    };
    let Some(base) = observe(&world, ctx, &bytes) else {
        c.inc("base_panicked_not_judged");
        return;
    };
    let want_cookie = request;
    if base.kind != "ok" || base.authenticated.is_empty() || (want_cookie && base.cookie.is_none()) {
        // outside the statement (it speaks about modifications of packets that authenticate): not a verdict
        c.harness_error(format!("unmodified generated NTS packet does not authenticate ({}) real_encoder={real_encoder}: {}", base.kind, hex(&bytes)));
        return;
    }
    if want_cookie && base.cookie != Some((world.session.alg, world.session.s2c.clone(), world.session.c2s.clone())) {
        c.harness_error("unmodified request yields other cookie keys than were sealed in");
        return;
    }
    c.inc(if request { "packets_request" } else { "packets_response" });
    c.sig_of(&(desc, world.session.alg, real_encoder));
    let prof = c.profile;
    let ctx_name = if request { "server" } else { "client" };

    let mut probe = |c: &mut Case, pos: usize, xor: u8| -> bool {
        let mut t = bytes.clone();
        t[pos] ^= xor;
        let (region, protected) = region_of(&layout, pos);
        c.inc(match region {
            "header" => "flips_header",
            "preceding-field" => "flips_preceding_fields",
            "nonce" => "flips_nonce",
            "ciphertext" => "flips_ciphertext",
            "auth-framing" => "flips_auth_framing",
            _ => "flips_after_authenticator",
        });
        let Some(seen) = observe(&world, ctx, &t) else {
            c.inc("decoder_panicked_not_judged");
            return true;
        };
        let detail = |seen: &Seen| {
            json!({
                "context": ctx_name, "original_hex": hex(&bytes), "modified_hex": hex(&t), "byte": pos, "xor": xor, "region": region,
                "authenticated_after": seen.authenticated, "encrypted_after": seen.encrypted, "cookie_recovered": seen.cookie.is_some(),
                "authenticated_before": base.authenticated, "encrypted_before": base.encrypted,
                "session_alg": world.session.alg, "session_s2c_hex": hex(&world.session.s2c), "session_c2s_hex": hex(&world.session.c2s),
                "server_keyfile_hex": hex(&pktgen::keyfile_bytes(1_700_000_000, world.server.id_offset, world.server.primary, &world.server.keys)),
            })
        };
        if protected {
            if !seen.nothing_authentic() {
                c.violation(
                    format!("tampered-accepted/{region}/{ctx_name}/{prof}"),
                    format!("a change in the {region} (byte {pos} xor {xor:#04x}) still leaves fields reported as authenticated/encrypted or a cookie recovered ({})", seen.kind),
                    detail(&seen),
                );
                return false;
            }
        } else if seen.nothing_authentic() {
            c.inc("other_change_rejected");
        } else {
            let same = seen.authenticated == base.authenticated && seen.encrypted == base.encrypted && (seen.cookie.is_none() || seen.cookie == base.cookie);
            if !same {
                c.violation(
                    format!("different-content-authentic/{region}/{ctx_name}/{prof}"),
                    format!("a change in the {region} (byte {pos} xor {xor:#04x}) makes different content appear authenticated/encrypted ({})", seen.kind),
                    detail(&seen),
                );
                return false;
            }
            c.inc("other_change_still_authentic");
        }
        true
    };

    for pos in 0..bytes.len() {
        for bit in 0..8 {
            if !probe(c, pos, 1 << bit) {
                return;
            }
        }
    }
    if c.tier == Tier::Thorough {
        for pos in 0..bytes.len() {
            for _ in 0..3 {
                let x = c.rng.range(1, 255) as u8;
                if x.count_ones() > 1 && !probe(c, pos, x) {
                    return;
                }
            }
        }
    }
    c.sample(|| json!({"len": bytes.len(), "request": request, "real_encoder": real_encoder, "layout": format!("{layout:?}"), "packet_hex": hex(&bytes[..bytes.len().min(96)])}));
}
