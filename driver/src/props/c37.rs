//! C37 — only registered, usable sources influence the clock (under concurrency).
//!
//! Real threads: 2..8 source threads drive the REAL `TimeSyncControllerWrapper`
//! (its channel, its message loop on a tokio runtime, the real two-way source
//! controller wrappers and Kalman source filters) doing measure / set usable /
//! set unusable / drop / re-register with random yields. The controller behind the
//! wrapper is a spy that forwards every call to the REAL `KalmanClockController`
//! and logs call + result under the wrapper's own mutex (a linearised log).
//! Oracle: offline, over the spy log and the threads' own operation logs
//! (`selsim::check_stress`); verdicts use logical stamps only, never wall-clock.

use crate::common::selsim::{self, Op, ProdKind, SpyEv};
use crate::core::{hash_of, Case, Profiles, Prop, Tier};
use serde_json::{json, Value};

pub static PROP: Prop = Prop {
    id: "C37",
    level: "exploration",
    rule: "case = one short concurrent history: 2..8 source threads, each with a random script (<= 200 operations in total) of \
           measure (outgoing+incoming pair through the real source wrapper and Kalman filter), set usable, set unusable, drop (followed by \
           re-registration under a fresh id), late data for a dropped id (sent on the wrapper's own channel), yields and microsecond sleeps, \
           against the real wrapper message loop. Schedules are chosen by the OS scheduler, so a case is not replayable bit for bit; what is \
           counted as distinct is the interleaving actually observed: the hash of the (thread, operation kind) sequence in the order the \
           controller saw it. Non-trivial = a history in which at least one estimate with used sources was computed.",
    assumptions: &[
        "the spy controller only logs and forwards; the Kalman controller, the wrapper, its channel and the source filters are the real ones",
        "real-time order between threads is established by a SeqCst counter stamped before/after every operation (never wall-clock)",
        "late data for a removed source is put on the wrapper's channel by a guarded hook accessor (the public API cannot express it)",
        "lost (never processed) usability changes or measurements are only counted, not judged: the statement constrains what estimates use, not delivery",
    ],
    profiles: Profiles::Both,
    cases: |t| t.pick(16_000, 300_000),
    budget_s: |t| t.pick(40, 600),
    run,
    min_nontrivial: 200,
    required_counters: &[
        "histories",
        "estimates_with_used",
        "used_sources_checked",
        "per_source_order_checked",
        "usability_changes_seen",
        "removals_seen",
        "messages_after_removal",
        "used_checks_with_concurrent_window",
    ],
    exhaustive: false,
    crash_is_violation: false,
};

fn gen_scripts(c: &mut Case) -> (Vec<Vec<Op>>, usize) {
    let nthreads = c.rng.range(2, 8) as usize;
    let total_ops = c.rng.range(20, 200) as usize;
    let per = (total_ops / nthreads).max(4);
    let base_off: i32 = *c.rng.pick(&[0i32, 0, 300, -700, 30_000, -45_000]);
    let min_agree = *c.rng.pick(&[1usize, 1, 2, 2, 3]);
    let quiet = c.rng.chance(1, 4); // fewer yields: tighter races on the channel
    let mut scripts = Vec::new();
    for t in 0..nthreads {
        let mut v = Vec::new();
        let liar = c.rng.chance(1, 8);
        let leap = *c.rng.pick(&[0u8, 0, 0, 0, 1, 3]);
        if c.rng.chance(4, 5) {
            v.push(Op::Usable(true));
        }
        let n = c.rng.range(per as i64 / 2, per as i64 * 3 / 2) as usize;
        for _ in 0..n {
            let r = c.rng.below(100);
            let op = if r < 50 {
                let off = if liar { base_off + 200_000 } else { base_off } + c.rng.range(-100, 100) as i32;
                Op::Measure { offset_us: off, delay_us: c.rng.range(300, 3000) as u32, leap }
            } else if r < 62 {
                Op::Usable(true)
            } else if r < 70 {
                Op::Usable(false)
            } else if r < 76 {
                Op::Drop
            } else if r < 80 {
                Op::LateData
            } else if r < 94 {
                if quiet { continue } else { Op::Yield(c.rng.range(1, 4) as u8) }
            } else {
                if quiet { continue } else { Op::SleepUs(c.rng.range(1, 60) as u8) }
            };
            v.push(op);
        }
        scripts.push(v);
    }
    (scripts, min_agree)
}

fn ev_code(e: &SpyEv) -> (u64, u8) {
    match e {
        SpyEv::Add { id } => (*id / 1000, 0),
        SpyEv::Remove { id } => (*id / 1000, 1),
        SpyEv::Usable { id, usable } => (*id / 1000, 2 + *usable as u8),
        SpyEv::Msg { id, used, .. } => (*id / 1000, 4 + used.is_some() as u8),
        SpyEv::TimeUpdate { .. } => (0, 6),
    }
}

fn run(c: &mut Case) {
    let (scripts, min_agree) = gen_scripts(c);
    let take_control = c.rng.bool();
    let r = selsim::run_stress(&scripts, min_agree, take_control);
    if r.thread_panicked {
        c.harness_error("a source thread of the harness panicked");
        return;
    }
    if !r.loop_finished {
        c.harness_error("message loop did not reach the end-of-history sentinel");
        return;
    }
    let (findings, st) = selsim::check_stress(&r);
    c.inc("histories");
    c.count("estimates", st.estimates);
    c.count("estimates_with_used", st.estimates_with_used);
    c.count("used_sources_checked", st.used_checked);
    c.count("per_source_order_checked", st.order_checked);
    c.count("usability_changes_seen", st.usable_events);
    c.count("removals_seen", st.removes);
    c.count("messages_seen", st.msgs);
    c.count("messages_after_removal", st.msgs_after_removal);
    c.count("time_updates", st.time_updates);
    c.count("used_checks_with_concurrent_window", st.ambiguous_windows);
    c.count("produced_but_never_processed_not_judged", st.not_seen);
    let produced: usize = r.prod.iter().map(|p| p.len()).sum();
    c.count("operations_produced", produced as u64);
    if st.estimates_with_used > 0 {
        let seq: Vec<(u64, u8)> = r.spy.iter().map(ev_code).collect();
        c.sig(hash_of(&seq));
    }
    if !findings.is_empty() {
        let log: Vec<String> = r.spy.iter().map(|e| format!("{e:?}")).collect();
        let prod: Vec<Vec<String>> = r
            .prod
            .iter()
            .map(|t| t.iter().map(|p| format!("id {} {:?} pre {} post {}", p.id, p.kind, p.pre, p.post)).collect())
            .collect();
        let scripts_s: Vec<Vec<String>> = scripts.iter().map(|s| s.iter().map(|o| format!("{o:?}")).collect()).collect();
        for (sig, what) in findings.iter().take(3) {
            c.violation(
                format!("C37/{sig}"),
                what.clone(),
                json!({"scripts": scripts_s, "minimum_agreeing_sources": min_agree, "controller_log": log, "source_thread_logs": prod}),
            );
        }
    }
    if c.wants_sample() && st.estimates_with_used > 2 {
        c.sample(|| {
            json!({"threads": scripts.len(), "operations_produced": produced, "controller_events": r.spy.len(),
                   "estimates_with_used": st.estimates_with_used, "final_used_sources": r.final_used,
                   "first_events": r.spy.iter().take(12).map(|e| format!("{e:?}")).collect::<Vec<_>>() })
        });
    }
}
