//! C42 — the multi-clock estimator keeps unrelated estimates intact.
//!
//! Events: before and after every operation of a random script, the reported offset/frequency of every
//! clock and the delay of every link in the estimator (value and uncertainty, as raw f64 bits) plus the
//! estimator time — on `EstimatorState`, `LinkFilter` and `KalmanController`, heap and fixed storage.
//! Oracle: literal reading of the statement — a successful addition/removal leaves every OTHER estimate
//! bit-identical; operations on unknown/duplicate identifiers return an error and (where the state is
//! interior, i.e. the controller) leave everything bit-identical; estimator time never decreases.

use std::collections::BTreeMap;
use std::sync::{Arc, Mutex};

use crate::core::{Case, Profiles, Prop, Tier, guard};
use serde_json::json;
use statime_algo::verif::ctl;
use statime_algo::verif::estimator::a9 as est_probe;
use statime_algo::verif::filter::a9 as flt_probe;
use statime_algo::verif::m::estimator::{EstimatorState, UncertainValue};
use statime_algo::verif::m::filter::{LinkFilter, LinkFilterConfig};
use statime_algo::verif::m::storage::KalmanStorageBase;
use statime_algo::{AlgoError, KalmanController, KalmanLink, KalmanStorage, Measurement, NoAllocKalmanStorage, StdKalmanStorage};
use statime_base::{Clock, ClockError, ClockId, Direction, Duration, LeapStatus, LinkId, TAI, Timestamp};

pub static PROP: Prop = Prop {
    id: "C42",
    level: "exploration",
    rule: "case = one random script of <= 60 operations on one of three layers (EstimatorState, LinkFilter, KalmanController with recording \
           clocks) and one of four storages (Std, NoAlloc<16>, NoAlloc<36>, NoAlloc<144>/<400>; the small ones are driven to full \
           capacity): add/remove internal and external clocks (fresh, duplicate, unknown, in-use, system), add/remove tracked and \
           untracked links (valid, unknown clock, both external, equal clocks, unknown link), measurements and measurement bursts that \
           activate tracked links, external data updates, time progressions forwards / equal / backwards; <= 12 clocks, <= 20 links. \
           Before/after every operation all estimates are read as f64 bit patterns. Non-trivial = shape signature per operation \
           (layer, storage, operation kind, outcome, number of clocks and estimator links); distinct signatures are counted.",
    assumptions: &[
        "estimates are read through the public query methods; link delays, estimator time and the filter inside a controller through guarded read-only accessors",
        "a capacity panic of the NoAlloc storage is counted, not judged (the statement speaks about identifiers); what the estimator reports afterwards is still compared",
        "estimator time is not judged across a controller measurement in which the system clock was stepped (stepping the time base re-bases estimator time by design)",
    ],
    profiles: Profiles::Both,
    cases: |t| t.pick(6_000, 200_000),
    budget_s: |t| t.pick(45, 400),
    run,
    min_nontrivial: 150,
    required_counters: &[
        "ops", "add_remove_compared", "estimates_compared", "link_estimates_compared", "failed_ops_compared", "unknown_or_duplicate_rejected",
        "time_checks", "backward_time_rejected", "noalloc_scripts", "std_scripts", "capacity_panics",
    ],
    exhaustive: false,
    crash_is_violation: false,
};

#[derive(Clone, Copy, Debug, PartialEq, Eq, PartialOrd, Ord, Hash)]
enum Key {
    Clock(ClockId),
    Link(LinkId),
}
type Snap = BTreeMap<Key, [u64; 4]>;

fn uv(r: Result<UncertainValue, AlgoError>) -> [u64; 2] {
    match r {
        Ok(v) => [v.value.to_bits(), v.uncertainty.to_bits()],
        Err(_) => [u64::MAX - 1, u64::MAX - 1], // "query failed" marker
    }
}

fn snap_est<S: KalmanStorageBase>(st: &EstimatorState<S>, clocks: &[ClockId]) -> Snap {
    let mut s = Snap::new();
    for &id in clocks {
        let o = uv(st.clock_offset(id));
        let f = uv(st.clock_frequency(id));
        s.insert(Key::Clock(id), [o[0], o[1], f[0], f[1]]);
    }
    est_probe::for_each_link(st, |id| {
        let d = uv(est_probe::link_delay(st, id));
        s.insert(Key::Link(id), [d[0], d[1], 0, 0]);
    });
    s
}

fn ts(sec: u64, nanos: u32) -> Timestamp<TAI> {
    Timestamp::from_seconds_nanos_since_unix_epoch(sec, nanos)
}
fn before(a: Timestamp<TAI>, b: Timestamp<TAI>) -> bool {
    (a - b) < Duration::ZERO
}

/// bookkeeping shared by the three layers
struct Mon<'a, 'b> {
    c: &'a mut Case<'b>,
    layer: &'static str,
    storage: &'static str,
    script: Vec<String>,
}

impl Mon<'_, '_> {
    fn detail(&self, extra: serde_json::Value) -> serde_json::Value {
        json!({"layer": self.layer, "storage": self.storage, "operations_so_far": self.script, "observation": extra})
    }
    /// others (all keys of `before` except `subject`) must be bit-identical in `after`
    fn compare_others(&mut self, op: &str, before: &Snap, after: &Snap, subject: &[Key]) {
        self.c.inc("add_remove_compared");
        for (k, v) in before {
            if subject.contains(k) {
                continue;
            }
            match k {
                Key::Clock(_) => self.c.inc("estimates_compared"),
                Key::Link(_) => self.c.inc("link_estimates_compared"),
            }
            let a = after.get(k);
            if a != Some(v) {
                let what = match a {
                    None => format!("{op}: the estimate of {k:?} is no longer reported"),
                    Some(a) => format!(
                        "{op}: the estimate of the unrelated {k:?} changed from {:?} to {:?} (value, uncertainty[, frequency, uncertainty])",
                        v.map(f64::from_bits),
                        a.map(f64::from_bits)
                    ),
                };
                let d = self.detail(json!({"key": format!("{k:?}"), "before_bits": v, "after_bits": a}));
                self.c.violation(format!("other-estimate-changed/{}/{}/{}", self.layer, op, if matches!(k, Key::Clock(_)) { "clock" } else { "link" }), what, d);
                return;
            }
        }
    }
    fn compare_all(&mut self, op: &str, before: &Snap, after: &Snap, t0: Timestamp<TAI>, t1: Timestamp<TAI>) {
        self.c.inc("failed_ops_compared");
        if before != after || t0 != t1 {
            let changed: Vec<String> = before.iter().filter(|(k, v)| after.get(k) != Some(v)).map(|(k, _)| format!("{k:?}")).collect();
            let d = self.detail(json!({"changed": changed, "time_changed": t0 != t1}));
            self.c.violation(
                format!("failed-op-altered-state/{}/{}", self.layer, op),
                format!("{op} returned an error but the estimator changed ({} estimates differ, time changed: {})", changed.len(), t0 != t1),
                d,
            );
        }
    }
    fn expect_rejected<T>(&mut self, op: &str, why: &str, r: &Result<T, AlgoError>) {
        if r.is_ok() {
            let d = self.detail(json!({"operation": op, "identifier": why}));
            self.c.violation(
                format!("bad-identifier-accepted/{}/{}/{}", self.layer, op, why),
                format!("{op} on a {why} identifier succeeded instead of failing"),
                d,
            );
        } else {
            self.c.inc("unknown_or_duplicate_rejected");
        }
    }
    fn time_check(&mut self, op: &str, t0: Timestamp<TAI>, t1: Timestamp<TAI>) {
        self.c.inc("time_checks");
        if before(t1, t0) {
            let d = self.detail(json!({"time_before": format!("{t0:?}"), "time_after": format!("{t1:?}")}));
            self.c.violation(format!("time-decreased/{}/{}", self.layer, op), format!("estimator time moved backwards during {op}"), d);
        }
    }
    fn shape(&mut self, op: &str, outcome: &str, n_clocks: usize, n_links: usize) {
        self.c.inc("ops");
        let key = (self.layer, self.storage, op.to_string(), outcome.to_string(), n_clocks.min(12), n_links.min(8));
        self.c.sig_of(&key);
    }
}

fn res_name<T>(r: &Result<Result<T, AlgoError>, crate::core::PanicInfo>) -> String {
    match r {
        Ok(Ok(_)) => "ok".into(),
        Ok(Err(e)) => {
            let s = format!("{e:?}");
            format!("err:{}", s.split(['(', ' ', '{']).next().unwrap_or("?"))
        }
        Err(_) => "panic".into(),
    }
}

fn gen_value(c: &mut Case) -> (f64, f64) {
    let v = match c.rng.below(4) {
        0 => 0.0,
        1 => c.rng.f64_range(-1e-3, 1e-3),
        2 => c.rng.f64_range(-10.0, 10.0),
        _ => c.rng.log_uniform(1e-9, 1e3) * if c.rng.bool() { 1.0 } else { -1.0 },
    };
    let u = match c.rng.below(6) {
        0 => 0.0,
        _ => c.rng.log_uniform(1e-9, 1e-2),
    };
    (v, u)
}

// ------------------------------------------------------------------------------------------------
// layer 1: EstimatorState
// ------------------------------------------------------------------------------------------------

fn run_estimator<S: KalmanStorageBase>(c: &mut Case, storage: &'static str, max_ops: usize) {
    let mut m = Mon { c, layer: "estimator", storage, script: vec![] };
    let mut t = ts(1_000_000 + m.c.rng.below(1000), m.c.rng.below(1_000_000_000) as u32);
    let mut st: EstimatorState<S> = EstimatorState::empty(t);
    let mut internal: Vec<ClockId> = vec![];
    let mut external: Vec<ClockId> = vec![];
    let mut links: Vec<LinkId> = vec![];
    let mut retired_links: Vec<LinkId> = vec![];
    let n_ops = m.c.rng.usize(5, max_ops);
    for _ in 0..n_ops {
        let before_snap = snap_est(&st, &internal);
        let t0 = est_probe::time(&st);
        let (nc, nl) = (internal.len(), links.len());
        let pick_known = |c: &mut Case, a: &Vec<ClockId>, b: &Vec<ClockId>| -> Option<ClockId> {
            let n = a.len() + b.len();
            if n == 0 {
                return None;
            }
            let i = c.rng.below(n as u64) as usize;
            Some(if i < a.len() { a[i] } else { b[i - a.len()] })
        };
        match m.c.rng.below(16) {
            0 | 1 | 2 => {
                // add internal clock: fresh / duplicate of an internal / duplicate of an external id
                let (id, why) = match m.c.rng.below(6) {
                    0 if !internal.is_empty() => (*m.c.rng.pick(&internal), "duplicate-internal"),
                    1 if !external.is_empty() => (*m.c.rng.pick(&external), "duplicate-external"),
                    _ => (ClockId::new(), "fresh"),
                };
                if why == "fresh" && internal.len() >= 12 {
                    continue;
                }
                let (ov, ou) = gen_value(m.c);
                let (fv, fu) = (m.c.rng.f64_range(-1e-4, 1e-4), m.c.rng.log_uniform(1e-9, 1e-3));
                let w = m.c.rng.log_uniform(1e-12, 1e-6);
                m.script.push(format!("add_clock({id:?} [{why}], offset {ov:e}+-{ou:e}, freq {fv:e}+-{fu:e}, wander {w:e})"));
                let r = guard(|| st.clone().add_clock(id, (ov, ou).into(), (fv, fu).into(), w));
                m.shape("add_clock", &format!("{why}/{}", res_name(&r)), nc, nl);
                match r {
                    Err(_) => m.c.inc("capacity_panics"),
                    Ok(r) => {
                        if why != "fresh" {
                            m.expect_rejected("add_clock", why, &r);
                        }
                        if let Ok(new) = r {
                            let after = snap_est(&new, &internal);
                            m.compare_others("add_clock", &before_snap, &after, &[Key::Clock(id)]);
                            m.time_check("add_clock", t0, est_probe::time(&new));
                            st = new;
                            if why == "fresh" {
                                internal.push(id);
                            }
                        }
                    }
                }
            }
            3 => {
                let (id, why) = match m.c.rng.below(4) {
                    0 if !internal.is_empty() => (*m.c.rng.pick(&internal), "duplicate-internal"),
                    1 if !external.is_empty() => (*m.c.rng.pick(&external), "duplicate-external"),
                    _ => (ClockId::new(), "fresh"),
                };
                m.script.push(format!("add_external_clock({id:?} [{why}])"));
                let r = guard(|| st.clone().add_external_clock(id));
                m.shape("add_external_clock", &format!("{why}/{}", res_name(&r)), nc, nl);
                match r {
                    Err(_) => m.c.inc("capacity_panics"),
                    Ok(r) => {
                        if why != "fresh" {
                            m.expect_rejected("add_external_clock", why, &r);
                        }
                        if let Ok(new) = r {
                            let after = snap_est(&new, &internal);
                            m.compare_others("add_external_clock", &before_snap, &after, &[]);
                            m.time_check("add_external_clock", t0, est_probe::time(&new));
                            st = new;
                            if why == "fresh" {
                                external.push(id);
                            }
                        }
                    }
                }
            }
            4 | 5 => {
                // remove internal clock: known / unknown / an external id
                let (id, why) = match m.c.rng.below(6) {
                    0 => (ClockId::new(), "unknown"),
                    1 if !external.is_empty() => (*m.c.rng.pick(&external), "external-id"),
                    _ if !internal.is_empty() => (*m.c.rng.pick(&internal), "known"),
                    _ => (ClockId::new(), "unknown"),
                };
                m.script.push(format!("remove_clock({id:?} [{why}])"));
                let r = guard(|| st.clone().remove_clock(id));
                m.shape("remove_clock", &format!("{why}/{}", res_name(&r)), nc, nl);
                if let Ok(r) = r {
                    if why != "known" {
                        m.expect_rejected("remove_clock", why, &r);
                    }
                    if let Ok(new) = r {
                        let remaining: Vec<ClockId> = internal.iter().copied().filter(|x| *x != id).collect();
                        let after = snap_est(&new, &remaining);
                        m.compare_others("remove_clock", &before_snap, &after, &[Key::Clock(id)]);
                        m.time_check("remove_clock", t0, est_probe::time(&new));
                        st = new;
                        internal = remaining;
                    }
                }
            }
            6 => {
                let (id, why) = match m.c.rng.below(4) {
                    0 => (ClockId::new(), "unknown"),
                    1 if !internal.is_empty() => (*m.c.rng.pick(&internal), "internal-id"),
                    _ if !external.is_empty() => (*m.c.rng.pick(&external), "known"),
                    _ => (ClockId::new(), "unknown"),
                };
                m.script.push(format!("remove_external_clock({id:?} [{why}])"));
                let r = guard(|| st.clone().remove_external_clock(id));
                m.shape("remove_external_clock", &format!("{why}/{}", res_name(&r)), nc, nl);
                if let Ok(r) = r {
                    if why != "known" {
                        m.expect_rejected("remove_external_clock", why, &r);
                    }
                    if let Ok(new) = r {
                        let after = snap_est(&new, &internal);
                        m.compare_others("remove_external_clock", &before_snap, &after, &[]);
                        st = new;
                        external.retain(|x| *x != id);
                    }
                }
            }
            7 | 8 => {
                // add link: fresh between known clocks / duplicate id / unknown clock
                let (id, why) = match m.c.rng.below(5) {
                    0 if !links.is_empty() => (*m.c.rng.pick(&links), "duplicate"),
                    1 => {
                        let a = pick_known(m.c, &internal, &external).unwrap_or_else(ClockId::new);
                        (LinkId::new(a, ClockId::new()).unwrap(), "unknown-clock")
                    }
                    _ => {
                        let (Some(a), Some(b)) = (pick_known(m.c, &internal, &external), pick_known(m.c, &internal, &external)) else { continue };
                        let Some(l) = LinkId::new(a, b) else { continue };
                        (l, "fresh")
                    }
                };
                if why == "fresh" && links.len() >= 20 {
                    continue;
                }
                let (dv, du) = (m.c.rng.log_uniform(1e-6, 1e-1), m.c.rng.log_uniform(1e-8, 1e-2));
                let decay = m.c.rng.log_uniform(1e-4, 1e-1);
                m.script.push(format!("add_link({id:?} [{why}], delay {dv:e}+-{du:e}, decay {decay:e})"));
                let r = guard(|| st.clone().add_link(id, (dv, du).into(), decay));
                m.shape("add_link", &format!("{why}/{}", res_name(&r)), nc, nl);
                match r {
                    Err(_) => m.c.inc("capacity_panics"),
                    Ok(r) => {
                        if why != "fresh" {
                            m.expect_rejected("add_link", why, &r);
                        }
                        if let Ok(new) = r {
                            let after = snap_est(&new, &internal);
                            m.compare_others("add_link", &before_snap, &after, &[Key::Link(id)]);
                            m.time_check("add_link", t0, est_probe::time(&new));
                            st = new;
                            if why == "fresh" {
                                links.push(id);
                            }
                        }
                    }
                }
            }
            9 => {
                let (id, why) = match m.c.rng.below(4) {
                    0 => match retired_links.last() {
                        Some(l) => (*l, "unknown"),
                        None => {
                            let (a, b) = (ClockId::new(), ClockId::new());
                            (LinkId::new(a, b).unwrap(), "unknown")
                        }
                    },
                    _ if !links.is_empty() => (*m.c.rng.pick(&links), "known"),
                    _ => (LinkId::new(ClockId::new(), ClockId::new()).unwrap(), "unknown"),
                };
                m.script.push(format!("remove_link({id:?} [{why}])"));
                let r = guard(|| st.clone().remove_link(id));
                m.shape("remove_link", &format!("{why}/{}", res_name(&r)), nc, nl);
                if let Ok(r) = r {
                    if why != "known" {
                        m.expect_rejected("remove_link", why, &r);
                    }
                    if let Ok(new) = r {
                        let after = snap_est(&new, &internal);
                        m.compare_others("remove_link", &before_snap, &after, &[Key::Link(id)]);
                        m.time_check("remove_link", t0, est_probe::time(&new));
                        st = new;
                        links.retain(|x| *x != id);
                        retired_links.push(id);
                    }
                }
            }
            10 | 11 | 12 => {
                // measurement on a known link (or between arbitrary clocks without delay state)
                let (lid, delay_link) = if !links.is_empty() && m.c.rng.chance(3, 4) {
                    (*m.c.rng.pick(&links), m.c.rng.chance(3, 4))
                } else {
                    let (Some(a), Some(b)) = (pick_known(m.c, &internal, &external), pick_known(m.c, &internal, &external)) else { continue };
                    let Some(l) = LinkId::new(a, b) else { continue };
                    (l, false)
                };
                let dir = if m.c.rng.bool() { lid.forward() } else { lid.reverse() };
                let (v, u) = gen_value(m.c);
                m.script.push(format!("measurement({dir:?}, {v:e}+-{u:e}, delay_link={delay_link})"));
                let r = guard(|| st.clone().measurement(dir, (v, u).into(), delay_link));
                m.shape("measurement", &res_name(&r), nc, nl);
                if let Ok(Ok(new)) = r {
                    m.time_check("measurement", t0, est_probe::time(&new));
                    st = new;
                }
            }
            _ => {
                // time progression: forwards, equal, backwards
                let (to, why) = match m.c.rng.below(6) {
                    0 => (t, "equal"),
                    1 => (t - Duration::from_f64_seconds(m.c.rng.log_uniform(1e-9, 1e3)), "backwards"),
                    2 => (t + Duration::from_seconds_nanos(0, 1), "forwards"),
                    _ => (t + Duration::from_f64_seconds(m.c.rng.log_uniform(1e-6, 1e3)), "forwards"),
                };
                m.script.push(format!("progress_time({to:?} [{why}])"));
                let r = guard(|| st.clone().progress_time(to));
                m.shape("progress_time", &format!("{why}/{}", res_name(&r)), nc, nl);
                if let Ok(r) = r {
                    match r {
                        Ok(new) => {
                            let t1 = est_probe::time(&new);
                            m.time_check("progress_time", t0, t1);
                            if why == "equal" {
                                // nothing may change when no time passes
                                let after = snap_est(&new, &internal);
                                m.compare_others("progress_time-equal", &before_snap, &after, &[]);
                            }
                            st = new;
                            t = t1;
                        }
                        Err(_) => {
                            if why == "backwards" {
                                m.c.inc("backward_time_rejected");
                            }
                        }
                    }
                }
            }
        }
    }
}

// ------------------------------------------------------------------------------------------------
// layer 2: LinkFilter
// ------------------------------------------------------------------------------------------------

fn filter_config(c: &mut Case) -> LinkFilterConfig {
    LinkFilterConfig {
        select_offset_uncertainty_window: 2.0,
        select_link_uncertainty_window: 2.0,
        select_delay_uncertainty_window: 0.7,
        select_max_window_size: *c.rng.pick(&[1.0, 1.0, 100.0]),
        minimum_agreeing_sources: *c.rng.pick(&[1usize, 1, 2, 3]),
    }
}

fn snap_filter<S: KalmanStorageBase>(f: &LinkFilter<S>, clocks: &[ClockId]) -> Snap {
    let mut s = Snap::new();
    for &id in clocks {
        let o = uv(f.clock_offset(id));
        let q = uv(f.clock_frequency(id));
        s.insert(Key::Clock(id), [o[0], o[1], q[0], q[1]]);
    }
    let est = flt_probe::estimator(f);
    est_probe::for_each_link(est, |id| {
        let d = uv(est_probe::link_delay(est, id));
        s.insert(Key::Link(id), [d[0], d[1], 0, 0]);
    });
    s
}

#[derive(Clone, Copy)]
struct FLink {
    id: LinkId,
    tracked: bool,
}

fn run_filter<S: KalmanStorageBase>(c: &mut Case, storage: &'static str, max_ops: usize) {
    let cfg = filter_config(c);
    let mut m = Mon { c, layer: "filter", storage, script: vec![] };
    let mut t = ts(2_000_000 + m.c.rng.below(1000), 0);
    let mut f: LinkFilter<S> = LinkFilter::empty(t);
    let mut internal: Vec<ClockId> = vec![];
    let mut external: Vec<ClockId> = vec![];
    let mut links: Vec<FLink> = vec![];
    let n_ops = m.c.rng.usize(5, max_ops);
    let time_of = |f: &LinkFilter<S>| est_probe::time(flt_probe::estimator(f));
    for _ in 0..n_ops {
        let before_snap = snap_filter(&f, &internal);
        let t0 = time_of(&f);
        let nl = before_snap.keys().filter(|k| matches!(k, Key::Link(_))).count();
        let nc = internal.len();
        let any_clock = |c: &mut Case, internal: &Vec<ClockId>, external: &Vec<ClockId>| -> Option<ClockId> {
            let n = internal.len() + external.len();
            if n == 0 {
                return None;
            }
            let i = c.rng.below(n as u64) as usize;
            Some(if i < internal.len() { internal[i] } else { external[i - internal.len()] })
        };
        match m.c.rng.below(20) {
            0 | 1 => {
                if internal.len() >= 12 {
                    continue;
                }
                let (ov, ou) = gen_value(m.c);
                let w = m.c.rng.log_uniform(1e-12, 1e-6);
                m.script.push(format!("add_clock(offset {ov:e}+-{ou:e}, wander {w:e})"));
                let r = guard(|| f.clone().add_clock((ov, ou).into(), (0.0, 1e-4).into(), w));
                m.shape("add_clock", &res_name(&r), nc, nl);
                match r {
                    Err(_) => m.c.inc("capacity_panics"),
                    Ok(Ok((new, id))) => {
                        let after = snap_filter(&new, &internal);
                        m.compare_others("add_clock", &before_snap, &after, &[Key::Clock(id)]);
                        m.time_check("add_clock", t0, time_of(&new));
                        f = new;
                        internal.push(id);
                    }
                    Ok(Err(_)) => {}
                }
            }
            2 => {
                if external.len() >= 8 {
                    continue;
                }
                m.script.push("add_external_clock()".into());
                let r = guard(|| f.clone().add_external_clock());
                m.shape("add_external_clock", &res_name(&r), nc, nl);
                match r {
                    Err(_) => m.c.inc("capacity_panics"),
                    Ok(Ok((new, id))) => {
                        let after = snap_filter(&new, &internal);
                        m.compare_others("add_external_clock", &before_snap, &after, &[]);
                        m.time_check("add_external_clock", t0, time_of(&new));
                        f = new;
                        external.push(id);
                    }
                    Ok(Err(_)) => {}
                }
            }
            3 | 4 => {
                let (id, why) = match m.c.rng.below(6) {
                    0 => (ClockId::new(), "unknown"),
                    1 if !external.is_empty() => (*m.c.rng.pick(&external), "external-id"),
                    _ if !internal.is_empty() => {
                        let id = *m.c.rng.pick(&internal);
                        (id, if links.iter().any(|l| l.id.contains_clock(id)) { "in-use" } else { "known" })
                    }
                    _ => (ClockId::new(), "unknown"),
                };
                m.script.push(format!("remove_clock({id:?} [{why}])"));
                let r = guard(|| f.clone().remove_clock(id));
                m.shape("remove_clock", &format!("{why}/{}", res_name(&r)), nc, nl);
                if let Ok(r) = r {
                    if why == "unknown" || why == "external-id" {
                        m.expect_rejected("remove_clock", why, &r);
                    }
                    if let Ok(new) = r {
                        let remaining: Vec<ClockId> = internal.iter().copied().filter(|x| *x != id).collect();
                        let after = snap_filter(&new, &remaining);
                        // links of the removed clock are related to it, everything else is not
                        let subj: Vec<Key> = std::iter::once(Key::Clock(id))
                            .chain(before_snap.keys().filter(|k| matches!(k, Key::Link(l) if l.contains_clock(id))).copied())
                            .collect();
                        m.compare_others("remove_clock", &before_snap, &after, &subj);
                        m.time_check("remove_clock", t0, time_of(&new));
                        f = new;
                        internal = remaining;
                    }
                }
            }
            5 => {
                let (id, why) = match m.c.rng.below(4) {
                    0 => (ClockId::new(), "unknown"),
                    1 if !internal.is_empty() => (*m.c.rng.pick(&internal), "internal-id"),
                    _ if !external.is_empty() => (*m.c.rng.pick(&external), "known"),
                    _ => (ClockId::new(), "unknown"),
                };
                m.script.push(format!("remove_external_clock({id:?} [{why}])"));
                let r = guard(|| f.clone().remove_external_clock(id));
                m.shape("remove_external_clock", &format!("{why}/{}", res_name(&r)), nc, nl);
                if let Ok(r) = r {
                    if why != "known" {
                        m.expect_rejected("remove_external_clock", why, &r);
                    }
                    if let Ok(new) = r {
                        let after = snap_filter(&new, &internal);
                        let subj: Vec<Key> = before_snap.keys().filter(|k| matches!(k, Key::Link(l) if l.contains_clock(id))).copied().collect();
                        m.compare_others("remove_external_clock", &before_snap, &after, &subj);
                        m.time_check("remove_external_clock", t0, time_of(&new));
                        f = new;
                        external.retain(|x| *x != id);
                    }
                }
            }
            6 | 7 | 8 => {
                // add link: valid / unknown clock / both external / equal
                let tracked = m.c.rng.chance(2, 3);
                let (a, b, why) = match m.c.rng.below(8) {
                    0 => (any_clock(m.c, &internal, &external).unwrap_or_else(ClockId::new), ClockId::new(), "unknown-clock"),
                    1 if external.len() >= 2 => (external[0], external[external.len() - 1], "both-external"),
                    2 if !internal.is_empty() => (internal[0], internal[0], "equal-clocks"),
                    _ => {
                        let Some(a) = (if internal.is_empty() { None } else { Some(*m.c.rng.pick(&internal)) }) else { continue };
                        let Some(b) = any_clock(m.c, &internal, &external) else { continue };
                        if a == b {
                            continue;
                        }
                        if m.c.rng.bool() { (a, b, "valid") } else { (b, a, "valid") }
                    }
                };
                if why == "valid" && links.len() >= 20 {
                    continue;
                }
                let decay = m.c.rng.log_uniform(1e-4, 1e-1);
                m.script.push(format!("add_{}_link({a:?}, {b:?} [{why}])", if tracked { "tracked" } else { "untracked" }));
                let r = guard(|| if tracked { f.clone().add_tracked_link(a, b, decay) } else { f.clone().add_untracked_link(a, b) });
                m.shape(if tracked { "add_tracked_link" } else { "add_untracked_link" }, &format!("{why}/{}", res_name(&r)), nc, nl);
                match r {
                    Err(_) => m.c.inc("capacity_panics"),
                    Ok(r) => {
                        if why == "unknown-clock" {
                            m.expect_rejected("add_link", why, &r.as_ref().map(|_| ()).map_err(|e| e.clone()));
                        }
                        if let Ok((new, id)) = r {
                            let after = snap_filter(&new, &internal);
                            m.compare_others("add_link", &before_snap, &after, &[Key::Link(id)]);
                            m.time_check("add_link", t0, time_of(&new));
                            f = new;
                            links.push(FLink { id, tracked });
                        }
                    }
                }
            }
            9 | 10 => {
                let (id, why) = match m.c.rng.below(4) {
                    0 => (LinkId::new(ClockId::new(), ClockId::new()).unwrap(), "unknown"),
                    _ if !links.is_empty() => (m.c.rng.pick(&links).id, "known"),
                    _ => (LinkId::new(ClockId::new(), ClockId::new()).unwrap(), "unknown"),
                };
                m.script.push(format!("remove_link({id:?} [{why}])"));
                let r = guard(|| f.clone().remove_link(id));
                m.shape("remove_link", &format!("{why}/{}", res_name(&r)), nc, nl);
                if let Ok(r) = r {
                    if why != "known" {
                        m.expect_rejected("remove_link", why, &r);
                    }
                    if let Ok(new) = r {
                        let after = snap_filter(&new, &internal);
                        m.compare_others("remove_link", &before_snap, &after, &[Key::Link(id)]);
                        m.time_check("remove_link", t0, time_of(&new));
                        f = new;
                        links.retain(|l| l.id != id);
                    }
                }
            }
            11 | 12 | 13 | 14 => {
                // a burst of measurement round trips on one link (activates tracked links), or a single one
                let Some(l) = (if links.is_empty() { None } else { Some(*m.c.rng.pick(&links)) }) else { continue };
                let is_ext = external.contains(&l.id.first_clock()) || external.contains(&l.id.second_clock());
                if is_ext && m.c.rng.chance(3, 4) {
                    let usable = m.c.rng.chance(5, 6);
                    m.script.push(format!("external_data_update({:?}, usable={usable})", l.id));
                    if let Ok(Ok(new)) = guard(|| f.clone().external_data_update(l.id, 1e-3, Some(LeapStatus::None), usable)) {
                        f = new;
                    }
                }
                let rounds = if m.c.rng.chance(2, 3) { m.c.rng.usize(4, 6) } else { 1 };
                let base = m.c.rng.f64_range(-1e-2, 1e-2);
                let delay = m.c.rng.log_uniform(1e-5, 1e-2);
                let u = m.c.rng.log_uniform(1e-8, 1e-4);
                m.script.push(format!("measurement burst on {:?}: {rounds} round trips, offset {base:e}, delay {delay:e}, uncertainty {u:e}", l.id));
                for _ in 0..rounds {
                    for dir in [l.id.forward(), l.id.reverse()] {
                        let jitter = m.c.rng.f64_range(-1e-6, 1e-6);
                        let v = if dir == l.id.forward() { base + delay + jitter } else { -base + delay + jitter };
                        let tb = time_of(&f);
                        let r = guard(|| f.clone().measurement(&cfg, dir, (v, u).into()));
                        m.shape("measurement", &res_name(&r), nc, nl);
                        if let Ok(Ok(new)) = r {
                            m.time_check("measurement", tb, time_of(&new));
                            f = new;
                        }
                    }
                    // a little time between round trips
                    let to = t + Duration::from_f64_seconds(m.c.rng.f64_range(0.0, 0.3));
                    if let Ok(Ok(new)) = guard(|| f.clone().progress_time(to)) {
                        t = time_of(&new);
                        f = new;
                    }
                }
            }
            15 => {
                // measurement / external update on an unknown link
                let id = LinkId::new(ClockId::new(), ClockId::new()).unwrap();
                m.script.push(format!("measurement on unknown link {id:?}"));
                let r = guard(|| f.clone().measurement(&cfg, id.forward(), (0.0, 1e-6).into()));
                m.shape("measurement-unknown-link", &res_name(&r), nc, nl);
                if let Ok(r) = r {
                    m.expect_rejected("measurement", "unknown-link", &r);
                }
                let r = guard(|| f.clone().external_data_update(id, 0.0, None, true));
                if let Ok(r) = r {
                    m.expect_rejected("external_data_update", "unknown-link", &r);
                }
            }
            _ => {
                let (to, why) = match m.c.rng.below(6) {
                    0 => (t, "equal"),
                    1 => (t - Duration::from_f64_seconds(m.c.rng.log_uniform(1e-9, 1e3)), "backwards"),
                    _ => (t + Duration::from_f64_seconds(m.c.rng.log_uniform(1e-6, 1e2)), "forwards"),
                };
                m.script.push(format!("progress_time({to:?} [{why}])"));
                let r = guard(|| f.clone().progress_time(to));
                m.shape("progress_time", &format!("{why}/{}", res_name(&r)), nc, nl);
                if let Ok(r) = r {
                    match r {
                        Ok(new) => {
                            let t1 = time_of(&new);
                            m.time_check("progress_time", t0, t1);
                            if why == "equal" {
                                let after = snap_filter(&new, &internal);
                                m.compare_others("progress_time-equal", &before_snap, &after, &[]);
                            }
                            f = new;
                            t = t1;
                        }
                        Err(_) => {
                            if why == "backwards" {
                                m.c.inc("backward_time_rejected");
                            }
                        }
                    }
                }
            }
        }
    }
}

// ------------------------------------------------------------------------------------------------
// layer 3: KalmanController with recording clocks
// ------------------------------------------------------------------------------------------------

struct World {
    now: Timestamp<TAI>,
}

#[derive(Clone)]
struct MockClock {
    world: Arc<Mutex<World>>,
    inner: Arc<Mutex<MockInner>>,
}
struct MockInner {
    stepped: Duration,
    freq: f64,
    max_freq: f64,
    steps: u64,
}

impl MockClock {
    fn new(world: &Arc<Mutex<World>>, max_freq: f64) -> MockClock {
        MockClock { world: world.clone(), inner: Arc::new(Mutex::new(MockInner { stepped: Duration::ZERO, freq: 0.0, max_freq, steps: 0 })) }
    }
    fn read(&self) -> Timestamp<TAI> {
        self.world.lock().unwrap().now + self.inner.lock().unwrap().stepped
    }
}

impl Clock for MockClock {
    fn now(&self) -> Result<Timestamp<TAI>, ClockError> {
        Ok(self.read())
    }
    fn set_frequency(&self, freq: f64) -> Result<Timestamp<TAI>, ClockError> {
        self.inner.lock().unwrap().freq = freq;
        Ok(self.read())
    }
    fn get_frequency(&self) -> Result<f64, ClockError> {
        Ok(self.inner.lock().unwrap().freq)
    }
    fn max_frequency(&self) -> Result<f64, ClockError> {
        Ok(self.inner.lock().unwrap().max_freq)
    }
    fn step_clock(&self, offset: Duration) -> Result<Timestamp<TAI>, ClockError> {
        {
            let mut i = self.inner.lock().unwrap();
            i.stepped = i.stepped + offset;
            i.steps += 1;
        }
        Ok(self.read())
    }
    fn error_estimate_update(&self, _e: Duration, _m: Duration) -> Result<(), ClockError> {
        Ok(())
    }
    fn leap_update(&self, _l: LeapStatus) -> Result<(), ClockError> {
        Ok(())
    }
    fn synchronization_update(&self, _s: bool) -> Result<(), ClockError> {
        Ok(())
    }
}

struct CtlRef<S: KalmanStorage<MockClock>>(Arc<KalmanController<S, MockClock>>);
impl<S: KalmanStorage<MockClock>> AsRef<KalmanController<S, MockClock>> for CtlRef<S> {
    fn as_ref(&self) -> &KalmanController<S, MockClock> {
        &self.0
    }
}

fn snap_ctl<S: KalmanStorage<MockClock>>(ctl: &KalmanController<S, MockClock>, clocks: &[ClockId]) -> (Snap, Timestamp<TAI>) {
    ctl::with_filter(ctl, |f, _| (snap_filter(f, clocks), est_probe::time(flt_probe::estimator(f))))
}

fn run_controller<S: KalmanStorage<MockClock>>(c: &mut Case, storage: &'static str, max_ops: usize, interior_survives_panic: bool) {
    let cfg = filter_config(c);
    let mut m = Mon { c, layer: "controller", storage, script: vec![] };
    let world = Arc::new(Mutex::new(World { now: ts(3_000_000 + m.c.rng.below(1000), 0) }));
    let sys = MockClock::new(&world, 1e-4);
    let Ok(Ok((ctl, sys_id))) = guard(|| KalmanController::<S, MockClock>::new(sys.clone(), 1e-8, cfg.clone())) else {
        m.c.inc("capacity_panics");
        return;
    };
    let ctl = Arc::new(ctl);
    let mut internal: Vec<ClockId> = vec![sys_id];
    let mut clock_of: Vec<(ClockId, MockClock)> = vec![(sys_id, sys.clone())];
    let mut external: Vec<ClockId> = vec![];
    let mut links: Vec<KalmanLink<CtlRef<S>, S, MockClock>> = vec![];
    let n_ops = m.c.rng.usize(5, max_ops);
    let mut poisoned = false;
    for _ in 0..n_ops {
        if poisoned {
            break;
        }
        let Ok((before_snap, t0)) = guard(|| snap_ctl(&ctl, &internal)) else { break };
        let nl = before_snap.keys().filter(|k| matches!(k, Key::Link(_))).count();
        let nc = internal.len();
        let sys_steps_before = sys.inner.lock().unwrap().steps;
        // what to do after the operation, common to all add/remove style operations
        macro_rules! settle {
            ($op:expr, $r:expr, $subject:expr, $clocks_after:expr, $judge_err:expr) => {{
                match &$r {
                    Err(_) => {
                        m.c.inc("capacity_panics");
                        if !interior_survives_panic {
                            poisoned = true;
                        } else if let Ok((after, t1)) = guard(|| snap_ctl(&ctl, &internal)) {
                            // a panicking addition must not have touched the other estimates either
                            m.compare_others(&format!("{}-panicked", $op), &before_snap, &after, $subject);
                            m.time_check($op, t0, t1);
                        }
                    }
                    Ok(Err(_)) => {
                        if $judge_err {
                            if let Ok((after, t1)) = guard(|| snap_ctl(&ctl, &internal)) {
                                m.compare_all($op, &before_snap, &after, t0, t1);
                            }
                        }
                    }
                    Ok(Ok(_)) => {
                        if let Ok((after, t1)) = guard(|| snap_ctl(&ctl, $clocks_after)) {
                            m.compare_others($op, &before_snap, &after, $subject);
                            m.time_check($op, t0, t1);
                            if t1 != t0 {
                                let d = m.detail(json!({"operation": $op}));
                                m.c.violation(format!("time-changed-by-add-remove/controller/{}", $op), format!("{} changed the estimator time", $op), d);
                            }
                        }
                    }
                }
            }};
        }
        match m.c.rng.below(20) {
            0 | 1 => {
                if internal.len() >= 12 {
                    continue;
                }
                let clk = MockClock::new(&world, *m.c.rng.pick(&[1e-4, 5e-5, 1e-3]));
                let w = m.c.rng.log_uniform(1e-12, 1e-6);
                m.script.push(format!("add_clock(wander {w:e})"));
                let r = guard(|| ctl.add_clock(clk.clone(), w));
                m.shape("add_clock", &res_name(&r), nc, nl);
                let new_id = if let Ok(Ok(id)) = &r { Some(*id) } else { None };
                let mut after_clocks = internal.clone();
                if let Some(id) = new_id {
                    after_clocks.push(id);
                }
                let subj: Vec<Key> = new_id.map(Key::Clock).into_iter().collect();
                settle!("add_clock", r, &subj, &after_clocks, true);
                if let Some(id) = new_id {
                    internal.push(id);
                    clock_of.push((id, clk));
                }
            }
            2 => {
                if external.len() >= 8 {
                    continue;
                }
                m.script.push("add_external_clock()".into());
                let r = guard(|| ctl.add_external_clock());
                m.shape("add_external_clock", &res_name(&r), nc, nl);
                let new_id = if let Ok(Ok(id)) = &r { Some(*id) } else { None };
                settle!("add_external_clock", r, &[], &internal, true);
                if let Some(id) = new_id {
                    external.push(id);
                }
            }
            3 | 4 => {
                let in_use = |id: ClockId| links.iter().any(|l| ctl::link_id(l).contains_clock(id));
                let (id, why) = match m.c.rng.below(8) {
                    0 => (ClockId::new(), "unknown"),
                    1 => (sys_id, "system"),
                    2 if !external.is_empty() => (*m.c.rng.pick(&external), "external-id"),
                    _ if internal.len() > 1 => {
                        let id = internal[m.c.rng.usize(1, internal.len() - 1)];
                        (id, if in_use(id) { "in-use" } else { "known" })
                    }
                    _ => (ClockId::new(), "unknown"),
                };
                m.script.push(format!("remove_clock({id:?} [{why}])"));
                let r = guard(|| ctl.remove_clock(id));
                m.shape("remove_clock", &format!("{why}/{}", res_name(&r)), nc, nl);
                if let Ok(rr) = &r {
                    if why == "unknown" || why == "external-id" {
                        m.expect_rejected("remove_clock", why, rr);
                    }
                }
                let removed = matches!(r, Ok(Ok(())));
                let remaining: Vec<ClockId> = internal.iter().copied().filter(|x| !(removed && *x == id)).collect();
                settle!("remove_clock", r, &[Key::Clock(id)], &remaining, true);
                if removed {
                    internal = remaining;
                    clock_of.retain(|(i, _)| *i != id);
                }
            }
            5 => {
                let (id, why) = match m.c.rng.below(4) {
                    0 => (ClockId::new(), "unknown"),
                    1 => (*m.c.rng.pick(&internal), "internal-id"),
                    _ if !external.is_empty() => (*m.c.rng.pick(&external), "known"),
                    _ => (ClockId::new(), "unknown"),
                };
                m.script.push(format!("remove_external_clock({id:?} [{why}])"));
                let r = guard(|| ctl.remove_external_clock(id));
                m.shape("remove_external_clock", &format!("{why}/{}", res_name(&r)), nc, nl);
                if let Ok(rr) = &r {
                    if why != "known" {
                        m.expect_rejected("remove_external_clock", why, rr);
                    }
                }
                let removed = matches!(r, Ok(Ok(())));
                let subj: Vec<Key> = before_snap.keys().filter(|k| matches!(k, Key::Link(l) if l.contains_clock(id))).copied().collect();
                settle!("remove_external_clock", r, &subj, &internal, true);
                if removed {
                    external.retain(|x| *x != id);
                }
            }
            6 | 7 | 8 => {
                let tracked = m.c.rng.chance(2, 3);
                let (a, b, why) = match m.c.rng.below(8) {
                    0 => (*m.c.rng.pick(&internal), ClockId::new(), "unknown-clock"),
                    1 if external.len() >= 2 => (external[0], external[external.len() - 1], "both-external"),
                    2 => (internal[0], internal[0], "equal-clocks"),
                    _ => {
                        let a = *m.c.rng.pick(&internal);
                        let n = internal.len() + external.len();
                        let i = m.c.rng.below(n as u64) as usize;
                        let b = if i < internal.len() { internal[i] } else { external[i - internal.len()] };
                        if a == b {
                            continue;
                        }
                        if m.c.rng.bool() { (a, b, "valid") } else { (b, a, "valid") }
                    }
                };
                if links.len() >= 20 {
                    continue;
                }
                let decay = m.c.rng.log_uniform(1e-4, 1e-1);
                m.script.push(format!("create_{}_link({a:?}, {b:?} [{why}])", if tracked { "tracked" } else { "untracked" }));
                let r = guard(|| {
                    if tracked {
                        KalmanController::create_tracked_link(CtlRef(ctl.clone()), a, b, decay)
                    } else {
                        KalmanController::create_untracked_link(CtlRef(ctl.clone()), a, b)
                    }
                });
                m.shape(if tracked { "create_tracked_link" } else { "create_untracked_link" }, &format!("{why}/{}", res_name(&r)), nc, nl);
                let r2 = match &r {
                    Ok(Ok(_)) => Ok(Ok(())),
                    Ok(Err(e)) => Ok(Err(e.clone())),
                    Err(_) => Err(()),
                };
                if let Ok(rr) = &r2 {
                    if why != "valid" {
                        m.expect_rejected("create_link", why, rr);
                    }
                }
                let subj: Vec<Key> = if let Ok(Ok(l)) = &r { vec![Key::Link(ctl::link_id(l))] } else { vec![] };
                settle!("create_link", r2, &subj, &internal, true);
                if let Ok(Ok(l)) = r {
                    links.push(l);
                }
            }
            9 | 10 => {
                if links.is_empty() {
                    continue;
                }
                let i = m.c.rng.below(links.len() as u64) as usize;
                let l = links.swap_remove(i);
                let id = ctl::link_id(&l);
                m.script.push(format!("drop link {id:?}"));
                let r: Result<Result<(), AlgoError>, _> = guard(|| {
                    drop(l);
                    Ok(())
                });
                m.shape("drop_link", &res_name(&r), nc, nl);
                settle!("drop_link", r, &[Key::Link(id)], &internal, false);
            }
            11 | 12 | 13 | 14 | 15 => {
                // measurement burst through a link (steers the clocks)
                if links.is_empty() {
                    continue;
                }
                let li = m.c.rng.below(links.len() as u64) as usize;
                let id = ctl::link_id(&links[li]);
                let is_ext = external.contains(&id.first_clock()) || external.contains(&id.second_clock());
                if is_ext && m.c.rng.chance(3, 4) {
                    let usable = m.c.rng.chance(5, 6);
                    m.script.push(format!("external_data_update({id:?}, usable={usable})"));
                    let _ = guard(|| links[li].external_data_update(Duration::from_f64_seconds(1e-3), Some(LeapStatus::None), usable));
                }
                let rounds = if m.c.rng.chance(2, 3) { m.c.rng.usize(4, 6) } else { 1 };
                let base = m.c.rng.f64_range(-1e-2, 1e-2);
                let delay = m.c.rng.log_uniform(1e-5, 1e-2);
                let u = m.c.rng.log_uniform(1e-8, 1e-4);
                m.script.push(format!("measurement burst on {id:?}: {rounds} round trips, offset {base:e}, delay {delay:e}, uncertainty {u:e}"));
                'burst: for _ in 0..rounds {
                    for dir in [Direction::Forward, Direction::Reverse] {
                        let v = if dir == Direction::Forward { base + delay } else { -base + delay };
                        let send = sys.read();
                        let meas = Measurement { send_timestamp: send, recv_timestamp: send + Duration::from_f64_seconds(v), uncertainty: Duration::from_f64_seconds(u) };
                        let Ok((b_snap, tb)) = guard(|| snap_ctl(&ctl, &internal)) else { break 'burst };
                        let still = sys.read() == tb;
                        let steps0 = sys.inner.lock().unwrap().steps;
                        let r = guard(|| links[li].measurement(meas, dir));
                        m.shape("link_measurement", &res_name(&r), nc, nl);
                        match r {
                            Err(_) => {
                                m.c.inc("controller_measurement_panicked");
                                if !interior_survives_panic {
                                    poisoned = true;
                                    break 'burst;
                                }
                            }
                            Ok(Err(_)) => {
                                if still {
                                    if let Ok((after, t1)) = guard(|| snap_ctl(&ctl, &internal)) {
                                        m.compare_all("link_measurement", &b_snap, &after, tb, t1);
                                    }
                                }
                            }
                            Ok(Ok(())) => {
                                if sys.inner.lock().unwrap().steps == steps0 {
                                    if let Ok((_, t1)) = guard(|| snap_ctl(&ctl, &internal)) {
                                        m.time_check("link_measurement", tb, t1);
                                    }
                                }
                            }
                        }
                    }
                    let dt = m.c.rng.f64_range(0.0, 0.3);
                    let mut w = world.lock().unwrap();
                    w.now = w.now + Duration::from_f64_seconds(dt);
                }
            }
            _ => {
                // the world moves on: forwards mostly, sometimes backwards (the next measurement must then be refused)
                let d = match m.c.rng.below(5) {
                    0 => -m.c.rng.log_uniform(1e-6, 1e2),
                    1 => 0.0,
                    _ => m.c.rng.log_uniform(1e-6, 1e2),
                };
                m.script.push(format!("world time += {d:e} s"));
                {
                    let mut w = world.lock().unwrap();
                    w.now = w.now + Duration::from_f64_seconds(d);
                }
                if d < 0.0 && !links.is_empty() {
                    let li = m.c.rng.below(links.len() as u64) as usize;
                    let send = sys.read();
                    if before(send, t0) {
                        let meas = Measurement { send_timestamp: send, recv_timestamp: send, uncertainty: Duration::from_f64_seconds(1e-6) };
                        m.script.push("measurement while the system clock reads less than the estimator time".into());
                        let r = guard(|| links[li].measurement(meas, Direction::Forward));
                        m.shape("link_measurement-backwards", &res_name(&r), nc, nl);
                        if let Ok(rr) = r {
                            if let Ok((after, t1)) = guard(|| snap_ctl(&ctl, &internal)) {
                                m.time_check("link_measurement-backwards", t0, t1);
                                if rr.is_err() {
                                    m.c.inc("backward_time_rejected");
                                    m.compare_all("link_measurement-backwards", &before_snap, &after, t0, t1);
                                }
                            }
                        }
                    }
                }
            }
        }
        let _ = sys_steps_before;
    }
    // links borrow the controller: drop them before it
    let _ = guard(move || drop(links));
}

fn run(c: &mut Case) {
    // the largest fixed-capacity storage is a large by-value type: give those cases a generous stack
    if (c.idx / 3) % 5 != 4 {
        return run_inner(c);
    }
    std::thread::scope(|sc| {
        let h = std::thread::Builder::new().stack_size(256 << 20).spawn_scoped(sc, || run_inner(c));
        match h {
            Ok(h) => {
                if let Err(e) = h.join() {
                    std::panic::resume_unwind(e);
                }
            }
            Err(_) => {}
        }
    });
}

fn run_inner(c: &mut Case) {
    let layer = c.idx % 3;
    let storage = (c.idx / 3) % 5;
    let max_ops = 60;
    if storage == 0 {
        c.inc("std_scripts");
    } else {
        c.inc("noalloc_scripts");
    }
    match (layer, storage) {
        (0, 0) => run_estimator::<StdKalmanStorage<MockClock>>(c, "Std", max_ops),
        (0, 1) => run_estimator::<NoAllocKalmanStorage<MockClock, 16>>(c, "NoAlloc<16>", max_ops),
        (0, 2) => run_estimator::<NoAllocKalmanStorage<MockClock, 36>>(c, "NoAlloc<36>", max_ops),
        (0, 3) => run_estimator::<NoAllocKalmanStorage<MockClock, 144>>(c, "NoAlloc<144>", max_ops),
        (0, _) => run_estimator::<NoAllocKalmanStorage<MockClock, 400>>(c, "NoAlloc<400>", max_ops),
        (1, 0) => run_filter::<StdKalmanStorage<MockClock>>(c, "Std", max_ops),
        (1, 1) => run_filter::<NoAllocKalmanStorage<MockClock, 16>>(c, "NoAlloc<16>", max_ops),
        (1, 2) => run_filter::<NoAllocKalmanStorage<MockClock, 36>>(c, "NoAlloc<36>", max_ops),
        (1, 3) => run_filter::<NoAllocKalmanStorage<MockClock, 144>>(c, "NoAlloc<144>", max_ops),
        (1, _) => run_filter::<NoAllocKalmanStorage<MockClock, 400>>(c, "NoAlloc<400>", max_ops),
        (_, 0) => run_controller::<StdKalmanStorage<MockClock>>(c, "Std", max_ops, false),
        (_, 1) => run_controller::<NoAllocKalmanStorage<MockClock, 16>>(c, "NoAlloc<16>", max_ops, true),
        (_, 2) => run_controller::<NoAllocKalmanStorage<MockClock, 36>>(c, "NoAlloc<36>", max_ops, true),
        (_, 3) => run_controller::<NoAllocKalmanStorage<MockClock, 144>>(c, "NoAlloc<144>", max_ops, true),
        (_, _) => run_controller::<NoAllocKalmanStorage<MockClock, 400>>(c, "NoAlloc<400>", max_ops, true),
    }
}
