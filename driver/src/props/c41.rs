//! C41 — PTP wire messages survive a serialise/parse round trip; the parser is total.
//!
//! Events: `Message::serialize`, `Message::deserialize`, `TlvSet::tlvs()` of statime-wire (public API only).
//! Oracle (own model of what was generated + own byte comparison, nothing derived from the library):
//!   A. structured message -> serialize -> parse must give an equal message (PartialEq) and the same TLV list;
//!   B. any byte string: parse never panics; when it parses, re-serialising gives exactly the first
//!      `messageLength` bytes of the input (reserved header/body fields excepted, see `rule`) and
//!      re-parsing that output gives the same message.

use crate::common::ptpsim::{self, RawMsg, RawTlv};
use crate::core::{Case, Profiles, Prop, Tier, guard, hex};
use serde_json::json;
use statime_wire::{
    AnnounceMessage, ClockAccuracy, ClockIdentity, ClockQuality, DelayReqMessage, DelayRespMessage, FollowUpMessage, Header,
    ManagementAction, ManagementMessage, Message, MessageBody, PDelayReqMessage, PDelayRespFollowUpMessage, PDelayRespMessage,
    PortIdentity, PtpVersion, SdoId, SignalingMessage, SyncMessage, TimeInterval, TimeSource, Timestamp, Tlv, TlvSetBuilder,
    TlvType,
};

pub static PROP: Prop = Prop {
    id: "C41",
    level: "exploration",
    rule: "case = (A) one structured message: random header (every flag, sdoId 0..0xfff, version nibbles, correction/sequence edge values), \
           one of the 10 bodies (timestamps at 0, 2^48-1, 999999999 ns; every enum class), 0-8 TLVs of every type class with even-length \
           values including EMPTY ones, serialised into a dirty buffer and parsed back; plus (B) one byte string <= 4096 bytes (uniform \
           bytes, raw-encoded messages with reserved bits set / odd, short, empty, overlong TLVs, and 8 kinds of mutation) that is parsed, \
           and when it parses re-serialised and compared with the first messageLength input bytes. Not compared in B (narrowed reading): \
           fields IEEE 1588 declares reserved/ignored-on-receipt which the Message type does not represent (flagField bits 3,4,7 / 15, \
           messageTypeSpecific, controlField, Announce byte 12, Pdelay_Req bytes 10-19, Management byte 10 and the high nibble of the \
           action byte). Non-trivial = the shape signature (direction, message type, number of TLVs, empty/last-empty TLV, mutation kind, \
           parse outcome); distinct signatures are counted.",
    assumptions: &[
        "odd-length TLV values and enum payloads outside their variant's value range are outside the library's precondition and are not generated for serialise=>parse",
        "equality is the library's PartialEq on Message plus an element-wise comparison of the iterated TLVs with the generated ones",
    ],
    profiles: Profiles::Both,
    cases: |t| t.pick(150_000, 6_000_000),
    budget_s: |t| t.pick(30, 300),
    run,
    min_nontrivial: 150,
    required_counters: &["ser_parse_checked", "tlvs_compared", "raw_parsed", "raw_rejected", "reserialise_checked", "empty_tlv_generated"],
    exhaustive: false,
    crash_is_violation: true,
};

fn gen_ts(c: &mut Case) -> Timestamp {
    let s = match c.rng.below(6) {
        0 => 0,
        1 => (1u64 << 48) - 1,
        2 => (1u64 << 32) + c.rng.below(3),
        3 => c.rng.below(1 << 48),
        4 => 1_700_000_000 + c.rng.below(1_000_000),
        _ => c.rng.below(1 << 20),
    };
    let n = match c.rng.below(4) {
        0 => 0,
        1 => 999_999_999,
        _ => c.rng.below(1_000_000_000) as u32,
    };
    Timestamp::new(s, n).expect("harness: timestamp in range")
}

fn gen_port(c: &mut Case) -> PortIdentity {
    let mut id = [0u8; 8];
    match c.rng.below(3) {
        0 => {}
        1 => id = [0xff; 8],
        _ => c.rng.fill(&mut id),
    }
    PortIdentity { clock_identity: ClockIdentity(id), port_number: c.rng.edge_u64() as u16 }
}

/// canonical enum values only: the value a variant stands for is one the variant is defined for
fn gen_accuracy(c: &mut Case) -> ClockAccuracy {
    use ClockAccuracy::*;
    const NAMED: [ClockAccuracy; 29] = [
        Reserved, PS1, PS2_5, PS10, PS25, PS100, PS250, NS1, NS2_5, NS10, NS25, NS100, NS250, US1, US2_5, US10, US25, US100, US250, MS1, MS2_5,
        MS10, MS25, MS100, MS250, S1, S10, SGT10, Unknown,
    ];
    if c.rng.chance(1, 4) {
        // 0x80..=0xfd are the profile specific values: payload 0..=0x7d
        ProfileSpecific(*c.rng.pick(&[0u8, 1, 0x7c, 0x7d, 0x40]))
    } else {
        *c.rng.pick(&NAMED)
    }
}

fn gen_time_source(c: &mut Case) -> TimeSource {
    use TimeSource::*;
    match c.rng.below(4) {
        0 => *c.rng.pick(&[AtomicClock, Gnss, TerrestrialRadio, SerialTimeCode, Ptp, Ntp, HandSet, Other, InternalOscillator]),
        1 => ProfileSpecific(c.rng.range(0xf0, 0xfe) as u8),
        _ => {
            // a value that is not assigned and not profile specific
            loop {
                let v = c.rng.u8();
                if ![0x10, 0x20, 0x30, 0x39, 0x40, 0x50, 0x60, 0x90, 0xa0].contains(&v) && !(0xf0..=0xfe).contains(&v) {
                    return Reserved(v);
                }
            }
        }
    }
}

/// TLV types of every class of IEEE 1588-2019 table 52 (+ the three CSPTP types); payload-carrying
/// variants only with values inside the ranges the table gives for that class.
fn gen_tlv_type(c: &mut Case) -> (TlvType, u16) {
    use TlvType::*;
    const NAMED: [(TlvType, u16); 24] = [
        (Management, 0x0001),
        (ManagementErrorStatus, 0x0002),
        (OrganizationExtension, 0x0003),
        (RequestUnicastTransmission, 0x0004),
        (GrantUnicastTransmission, 0x0005),
        (CancelUnicastTransmission, 0x0006),
        (AcknowledgeCancelUnicastTransmission, 0x0007),
        (PathTrace, 0x0008),
        (AlternateTimeOffsetIndicator, 0x0009),
        (OrganizationExtensionPropagate, 0x4000),
        (EnhancedAccuracyMetrics, 0x4001),
        (OrganizationExtensionDoNotPropagate, 0x8000),
        (L1Sync, 0x8001),
        (PortCommunicationAvailability, 0x8002),
        (ProtocolAddress, 0x8003),
        (SlaveRxSyncTimingData, 0x8004),
        (SlaveRxSyncComputedData, 0x8005),
        (SlaveTxEventTimestamps, 0x8006),
        (CumulativeRateRatio, 0x8007),
        (Pad, 0x8008),
        (Authentication, 0x8009),
        (CsptpStatus, 0xf002),
        (CsptpRequest, 0xff00),
        (CsptpResponse, 0xff01),
    ];
    match c.rng.below(6) {
        0 | 1 | 2 => *c.rng.pick(&NAMED),
        3 => {
            let v = c.rng.range(0x2000, 0x2003) as u16;
            (Legacy(v), v)
        }
        4 => {
            let v = if c.rng.bool() { c.rng.range(0x2004, 0x202f) } else { c.rng.range(0x7f00, 0x7fff) } as u16;
            (Experimental(v), v)
        }
        _ => {
            let (lo, hi) = *c.rng.pick(&[
                (0x0000u16, 0x0000u16),
                (0x000a, 0x1fff),
                (0x2030, 0x3fff),
                (0x4002, 0x7eff),
                (0x800a, 0xf001),
                (0xf003, 0xfeff),
                (0xff02, 0xffef),
                (0xfff0, 0xffff),
            ]);
            let v = match c.rng.below(3) {
                0 => lo,
                1 => hi,
                _ => c.rng.range(lo as i64, hi as i64) as u16,
            };
            (Reserved(v), v)
        }
    }
}

fn gen_header(c: &mut Case) -> Header {
    let mut h = Header::new(c.rng.below(16) as u8);
    h.sdo_id = SdoId::try_from(match c.rng.below(4) {
        0 => 0,
        1 => 0xfff,
        2 => 0x300,
        _ => c.rng.below(0x1000) as u16,
    })
    .expect("harness: sdo id in range");
    h.version = PtpVersion::new(c.rng.below(16) as u8, c.rng.below(16) as u8).expect("harness: version nibbles");
    h.domain_number = c.rng.u8();
    let bits = match c.rng.below(4) {
        0 => 0u32,
        1 => u32::MAX,
        2 => 1 << c.rng.below(12),
        _ => c.rng.u32(),
    };
    h.alternate_master_flag = bits & 1 != 0;
    h.two_step_flag = bits & 2 != 0;
    h.unicast_flag = bits & 4 != 0;
    h.ptp_profile_specific_1 = bits & 8 != 0;
    h.ptp_profile_specific_2 = bits & 16 != 0;
    h.leap61 = bits & 32 != 0;
    h.leap59 = bits & 64 != 0;
    h.current_utc_offset_valid = bits & 128 != 0;
    h.ptp_timescale = bits & 256 != 0;
    h.time_tracable = bits & 512 != 0;
    h.frequency_tracable = bits & 1024 != 0;
    h.synchronization_uncertain = bits & 2048 != 0;
    h.correction_field = TimeInterval(c.rng.edge_i64());
    h.source_port_identity = gen_port(c);
    h.sequence_id = c.rng.edge_u64() as u16;
    h.log_message_interval = c.rng.edge_i64() as i8;
    h
}

fn gen_body(c: &mut Case, kind: u64) -> MessageBody {
    match kind {
        0 => MessageBody::Sync(SyncMessage { origin_timestamp: gen_ts(c) }),
        1 => MessageBody::DelayReq(DelayReqMessage { origin_timestamp: gen_ts(c) }),
        2 => MessageBody::PDelayReq(PDelayReqMessage { origin_timestamp: gen_ts(c) }),
        3 => MessageBody::PDelayResp(PDelayRespMessage { request_receive_timestamp: gen_ts(c), requesting_port_identity: gen_port(c) }),
        4 => MessageBody::FollowUp(FollowUpMessage { precise_origin_timestamp: gen_ts(c) }),
        5 => MessageBody::DelayResp(DelayRespMessage { receive_timestamp: gen_ts(c), requesting_port_identity: gen_port(c) }),
        6 => MessageBody::PDelayRespFollowUp(PDelayRespFollowUpMessage {
            response_origin_timestamp: gen_ts(c),
            requesting_port_identity: gen_port(c),
        }),
        7 => MessageBody::Announce(AnnounceMessage {
            origin_timestamp: gen_ts(c),
            current_utc_offset: c.rng.edge_i64() as i16,
            grandmaster_priority_1: c.rng.u8(),
            grandmaster_clock_quality: ClockQuality {
                clock_class: c.rng.u8(),
                clock_accuracy: gen_accuracy(c),
                offset_scaled_log_variance: c.rng.edge_u64() as u16,
            },
            grandmaster_priority_2: c.rng.u8(),
            grandmaster_identity: gen_port(c).clock_identity,
            steps_removed: c.rng.edge_u64() as u16,
            time_source: gen_time_source(c),
        }),
        8 => MessageBody::Signaling(SignalingMessage { target_port_identity: gen_port(c) }),
        _ => MessageBody::Management(ManagementMessage {
            target_port_identity: gen_port(c),
            starting_boundary_hops: c.rng.u8(),
            boundary_hops: c.rng.u8(),
            action: *c.rng.pick(&[
                ManagementAction::GET,
                ManagementAction::SET,
                ManagementAction::RESPONSE,
                ManagementAction::COMMAND,
                ManagementAction::ACKNOWLEDGE,
                ManagementAction::Reserved,
            ]),
        }),
    }
}

fn err_name(e: &statime_wire::Error) -> &'static str {
    match e {
        statime_wire::Error::BufferTooShort => "BufferTooShort",
        statime_wire::Error::Invalid => "Invalid",
    }
}

/// Direction A: structured message -> bytes -> message.
fn structured(c: &mut Case) {
    let kind = c.rng.below(10);
    let header = gen_header(c);
    let body = gen_body(c, kind);
    let n_tlvs = match c.rng.below(4) {
        0 => 0,
        1 => 1,
        _ => c.rng.usize(0, 8),
    };
    let mut tlvs: Vec<(TlvType, u16, Vec<u8>)> = Vec::new();
    for _ in 0..n_tlvs {
        let (t, prim) = gen_tlv_type(c);
        let len = 2 * match c.rng.below(6) {
            0 | 1 => 0usize,
            2 => 1,
            3 => c.rng.usize(1, 12),
            4 => c.rng.usize(1, 60),
            _ => c.rng.usize(1, 220),
        };
        tlvs.push((t, prim, c.rng.bytes(len)));
    }
    let has_empty = tlvs.iter().any(|t| t.2.is_empty());
    let last_empty = tlvs.last().map(|t| t.2.is_empty()).unwrap_or(false);
    if has_empty {
        c.inc("empty_tlv_generated");
    }
    let total: usize = tlvs.iter().map(|t| 4 + t.2.len()).sum();
    let mut store = vec![0x5au8; total + if c.rng.bool() { 0 } else { c.rng.usize(1, 16) }];
    let mut builder = TlvSetBuilder::new(&mut store);
    for (t, _, v) in &tlvs {
        if let Err(e) = builder.add(&Tlv { tlv_type: *t, value: v.as_slice().into() }) {
            c.harness_error(format!("TlvSetBuilder::add failed with {} although the buffer is large enough", err_name(&e)));
            return;
        }
    }
    let msg = Message { header, body, suffix: builder.build() };
    let body_len = [10usize, 10, 20, 20, 10, 20, 20, 30, 10, 14][kind as usize];
    let expect_len = 34 + body_len + total;
    let extra = if c.rng.bool() { 0 } else { c.rng.usize(1, 32) };
    let mut out = vec![0xa5u8; expect_len + extra];
    let tlv_desc: Vec<serde_json::Value> = tlvs.iter().map(|(_, p, v)| json!({"type": format!("{p:#06x}"), "value": hex(v)})).collect();
    let msg_dbg = format!("{:?} / {:?}", msg.header, msg.body);
    let n = match guard(|| msg.serialize(&mut out)) {
        Err(_) => {
            // the statement is about messages the library *can* serialise
            c.inc("serialize_panicked");
            return;
        }
        Ok(Err(_)) => {
            c.inc("serialize_rejected");
            return;
        }
        Ok(Ok(n)) => n.min(out.len()),
    };
    let wire = out[..n].to_vec();
    let detail = || json!({"message": msg_dbg, "tlvs": tlv_desc, "serialised": hex(&wire)});
    c.inc("ser_parse_checked");
    c.sig_of(&("A", kind, n_tlvs, has_empty, last_empty, extra == 0));
    let Some(parsed) = c.no_panic("parse-own-output", detail, || Message::deserialize(&wire)) else {
        return;
    };
    match parsed {
        Err(e) => {
            let class = if last_empty { "last-tlv-empty" } else if has_empty { "some-tlv-empty" } else { "no-empty-tlv" };
            c.violation(
                format!("ser-parse/rejected/{}/{class}", err_name(&e)),
                format!(
                    "a message the library serialised ({n} bytes, {n_tlvs} TLVs, last TLV value {} bytes) is rejected by Message::deserialize with {}",
                    tlvs.last().map(|t| t.2.len()).unwrap_or(0),
                    err_name(&e)
                ),
                detail(),
            );
        }
        Ok(back) => {
            if back != msg {
                let part = if back.header != msg.header {
                    "header"
                } else if back.body != msg.body {
                    "body"
                } else {
                    "suffix"
                };
                c.violation(
                    format!("ser-parse/unequal/{part}/type{kind}"),
                    format!("serialise=>parse gives a different {part}: got {:?} / {:?}", back.header, back.body),
                    detail(),
                );
            }
            // the TLVs the parsed message iterates over are the generated ones
            let it = c.no_panic("tlv-iterate-parsed", detail, || back.suffix.tlvs().map(|t| (t.tlv_type, t.value.to_vec())).collect::<Vec<_>>());
            if let Some(list) = it {
                c.inc("tlvs_compared");
                let want: Vec<(TlvType, Vec<u8>)> = tlvs.iter().map(|(t, _, v)| (*t, v.clone())).collect();
                if list != want {
                    c.violation(
                        format!("ser-parse/tlv-list/{}", if last_empty { "last-tlv-empty" } else { "other" }),
                        format!("the parsed message iterates {} TLVs, {} were serialised (or types/values differ)", list.len(), want.len()),
                        detail(),
                    );
                }
            }
        }
    }
    c.sample(|| detail());
}

// ------------------------------------------------------------------------------------------
// Direction B: bytes -> message -> bytes
// ------------------------------------------------------------------------------------------

fn gen_raw(c: &mut Case) -> (Vec<u8>, &'static str, &'static str) {
    let kind = c.rng.below(10);
    if kind == 0 {
        let n = match c.rng.below(4) {
            0 => c.rng.usize(0, 40),
            1 => c.rng.usize(30, 120),
            2 => 4096,
            _ => c.rng.usize(0, 4096),
        };
        return (c.rng.bytes(n), "uniform", "-");
    }
    if kind == 1 {
        // uniform bytes with a valid type nibble and a consistent length field
        let n = c.rng.usize(34, 300);
        let mut d = c.rng.bytes(n);
        d[0] = (d[0] & 0xf0) | *c.rng.pick(&ptpsim::ALL_TYPES);
        let l = if c.rng.bool() { n } else { c.rng.usize(30, n) };
        d[2..4].copy_from_slice(&(l as u16).to_be_bytes());
        return (d, "uniform-typed", "-");
    }
    let t = *c.rng.pick(&ptpsim::ALL_TYPES);
    let mut m = RawMsg::new(t);
    m.major_sdo = c.rng.below(16) as u8;
    m.minor_sdo = c.rng.u8();
    m.version = c.rng.u8();
    m.domain = c.rng.u8();
    let reserved_set = c.rng.chance(1, 3);
    m.flags = [c.rng.u8(), c.rng.u8()];
    if !reserved_set {
        m.flags[0] &= 0x67;
        m.flags[1] &= 0x7f;
    }
    m.correction = c.rng.edge_i64();
    if reserved_set {
        c.rng.fill(&mut m.type_specific);
        m.control = c.rng.u8();
    }
    c.rng.fill(&mut m.port_identity);
    m.sequence_id = c.rng.u16();
    m.log_interval = c.rng.u8();
    let bl = m.body.len();
    m.body = if reserved_set { c.rng.bytes(bl) } else { vec![0; bl] };
    // plausible timestamps (nanoseconds below, at and above 10^9) at the start of every timestamped body
    if t != ptpsim::T_SIGNALING && t != ptpsim::T_MANAGEMENT {
        let ns = match c.rng.below(5) {
            0 => 1_000_000_000,
            1 => 999_999_999,
            2 => 1_000_000_001,
            3 => c.rng.u32(),
            _ => c.rng.below(1_000_000_000) as u32,
        };
        let s = if c.rng.bool() { (1 << 48) - 1 } else { c.rng.below(1 << 48) };
        m.body[..10].copy_from_slice(&ptpsim::ts_bytes(s, ns));
    }
    if t == ptpsim::T_ANNOUNCE {
        m.body[15] = c.rng.u8(); // clock accuracy: every byte value
        m.body[29] = c.rng.u8(); // time source
        if !reserved_set {
            m.body[12] = 0;
        }
    }
    if t == ptpsim::T_MANAGEMENT {
        m.body[13] = if c.rng.bool() { c.rng.below(5) as u8 } else { c.rng.u8() };
        c.rng.fill(&mut m.body[..10]);
    }
    let n_tlvs = match c.rng.below(3) {
        0 => 0,
        _ => c.rng.usize(0, 8),
    };
    let tlv_style = c.rng.below(6);
    for i in 0..n_tlvs {
        let typ = match c.rng.below(3) {
            0 => *c.rng.pick(&[1u16, 3, 8, 9, 0x4000, 0x8000, 0x8008, 0xf002, 0xff00, 0xff01]),
            _ => c.rng.u16(),
        };
        let mut len = 2 * match c.rng.below(4) {
            0 => 0usize,
            1 => 1,
            _ => c.rng.usize(0, 40),
        };
        if tlv_style == 0 && c.rng.chance(1, 3) {
            len += 1; // odd length
        }
        let mut tlv = RawTlv::new(typ, c.rng.bytes(len));
        if tlv_style == 1 && i + 1 == n_tlvs {
            // last TLV claims more / less than is there
            tlv.len_override = Some((len as u16).wrapping_add(*c.rng.pick(&[1u16, 2, 4, 0xfffe, 0xffff])));
        }
        m.tlvs.push(tlv);
    }
    if tlv_style == 2 {
        let k = c.rng.usize(1, 5);
        m.trailer = c.rng.bytes(k);
    }
    let mut d = m.encode();
    let style = ["odd-tlv", "tlv-len-lie", "trailer", "clean", "clean", "clean"][tlv_style as usize];
    if kind >= 6 {
        let mu = ptpsim::mutate(&mut c.rng, &mut d);
        d.truncate(4096);
        return (d, style, mu);
    }
    if kind == 5 {
        // datagram longer than the message (padding must be ignored)
        let k = c.rng.usize(1, 64);
        let extra = c.rng.bytes(k);
        d.extend_from_slice(&extra);
        return (d, style, "padding");
    }
    (d, style, "-")
}

/// mask of the bits compared between input and re-serialised output
fn compare_mask(msg_type: u8, off: usize) -> u8 {
    match off {
        6 => !0x98,
        7 => !0x80,
        16..=19 | 32 => 0,
        _ => {
            let b = off.wrapping_sub(34);
            match (msg_type, b) {
                (ptpsim::T_ANNOUNCE, 12) => 0,
                (ptpsim::T_PDELAY_REQ, 10..=19) => 0,
                (ptpsim::T_MANAGEMENT, 10) => 0,
                (ptpsim::T_MANAGEMENT, 13) => 0x0f,
                _ => 0xff,
            }
        }
    }
}

fn region(msg_type: u8, off: usize) -> String {
    match off {
        0 => "hdr-type-majorsdo".into(),
        1 => "hdr-version".into(),
        2 | 3 => "hdr-length".into(),
        4 => "hdr-domain".into(),
        5 => "hdr-minorsdo".into(),
        6 | 7 => "hdr-flags".into(),
        8..=15 => "hdr-correction".into(),
        16..=19 => "hdr-type-specific".into(),
        20..=29 => "hdr-port-identity".into(),
        30 | 31 => "hdr-sequence".into(),
        32 => "hdr-control".into(),
        33 => "hdr-log-interval".into(),
        _ => {
            let b = off - 34;
            match ptpsim::body_len(msg_type) {
                Some(bl) if b < bl => match (msg_type, b) {
                    (ptpsim::T_ANNOUNCE, 15) => "lossy/announce-clock-accuracy".into(),
                    (ptpsim::T_MANAGEMENT, 13) => "lossy/management-action".into(),
                    _ => format!("body/type{msg_type:x}+{b}"),
                },
                _ => "tlv-area".into(),
            }
        }
    }
}

fn raw(c: &mut Case) {
    let (input, style, mutation) = gen_raw(c);
    raw_check(c, input, style, mutation);
}

/// byte-driven entry (libFuzzer tier / `verif-driver bytes C41 <file>`)
pub fn fuzz_bytes(c: &mut Case, data: &[u8]) {
    if data.len() <= 4096 {
        raw_check(c, data.to_vec(), "fuzz", "none");
    }
}

fn raw_check(c: &mut Case, input: Vec<u8>, style: &'static str, mutation: &'static str) {
    let detail = || json!({"input": hex(&input), "generator": style, "mutation": mutation});
    let Some(r) = c.no_panic("parse", detail, || Message::deserialize(&input)) else {
        c.sig_of(&("B", style, mutation, "panic"));
        return;
    };
    let msg = match r {
        Err(e) => {
            c.inc("raw_rejected");
            c.sig_of(&("B", style, mutation, err_name(&e), input.first().map(|b| b & 0xf), input.len() >= 34));
            return;
        }
        Ok(m) => m,
    };
    c.inc("raw_parsed");
    let msg_type = input[0] & 0x0f;
    let mlen = u16::from_be_bytes([input[2], input[3]]) as usize;
    // iterating the TLVs of a parsed message is part of parsing it
    let n_tlvs = c.no_panic("tlv-iterate-parsed", detail, || msg.suffix.tlvs().map(|t| 4 + t.value.len()).collect::<Vec<_>>());
    let n_tlv = n_tlvs.as_ref().map(|v| v.len()).unwrap_or(99);
    c.sig_of(&("B", style, mutation, "ok", msg_type, n_tlv.min(9)));
    if let (Some(sizes), Some(bl)) = (&n_tlvs, ptpsim::body_len(msg_type)) {
        // what the iterator yields must cover the TLV area exactly (no TLV silently dropped)
        let covered: usize = sizes.iter().sum();
        if mlen >= 34 + bl && covered != mlen - 34 - bl {
            c.violation(
                "parse/tlv-iteration-incomplete",
                format!("the TLV iterator of a parsed message covers {covered} of the {} TLV bytes", mlen - 34 - bl),
                detail(),
            );
        }
    }
    // re-serialise
    let mut out = vec![0u8; mlen.max(34) + 64];
    let res = guard(|| msg.serialize(&mut out));
    c.inc("reserialise_checked");
    let n = match res {
        Err(p) => {
            c.violation(
                format!("parse-ser/serialize-panicked/{}/{}", c.profile, p.site()),
                format!("a message produced by Message::deserialize cannot be re-serialised: panic at {}: {}", p.location, p.message),
                detail(),
            );
            return;
        }
        Ok(Err(e)) => {
            c.violation(
                format!("parse-ser/serialize-rejected/{}", err_name(&e)),
                "a message produced by Message::deserialize is rejected by Message::serialize".to_string(),
                detail(),
            );
            return;
        }
        Ok(Ok(n)) => n,
    };
    if n != mlen || mlen > input.len() {
        c.violation(
            "parse-ser/length",
            format!("parsed prefix is {mlen} bytes (messageLength), re-serialised message is {n} bytes, input {} bytes", input.len()),
            detail(),
        );
        return;
    }
    let mut reserved_dropped = false;
    for off in 0..n {
        let (a, b) = (input[off], out[off]);
        if a == b {
            continue;
        }
        let mask = compare_mask(msg_type, off);
        if (a ^ b) & mask != 0 {
            let reg = region(msg_type, off);
            c.violation(
                format!("parse-ser/bytes-differ/{reg}"),
                format!("re-serialising the parsed message changes byte {off} ({reg}): input {a:#04x}, output {b:#04x}"),
                json!({"input": hex(&input), "output": hex(&out[..n]), "offset": off, "generator": style, "mutation": mutation}),
            );
            break;
        } else {
            reserved_dropped = true;
        }
    }
    if reserved_dropped {
        c.inc("reserved_bits_not_preserved");
    }
    // and what was written parses back to the same message
    let out_n = out[..n].to_vec();
    if let Some(again) = c.no_panic("reparse", detail, || Message::deserialize(&out_n).map(|m| m == msg)) {
        match again {
            Ok(true) => {}
            Ok(false) => c.violation("parse-ser/reparse-unequal", "parse(serialize(parse(x))) != parse(x)".to_string(), detail()),
            Err(e) => c.violation(
                format!("parse-ser/reparse-rejected/{}", err_name(&e)),
                "the re-serialised form of a parsed message is rejected".to_string(),
                detail(),
            ),
        }
    }
}

fn run(c: &mut Case) {
    structured(c);
    raw(c);
}
