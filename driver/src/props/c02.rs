//! C02 — frequency corrections stay within the configured maximum.
//!
//! Events: every `NtpClock::set_frequency(f)` of the recording clock; after every controller
//! call the hooked `desired_freq` (extra frequency of the running slew) and `freq_offset`.
//! Oracle: `f` finite and `|f| <= maximum_frequency_steer`; `|desired_freq| <=
//! slew_maximum_frequency_offset`; in direct drive (slew started from a frequency that is itself
//! within the limit) the extra frequency recovered from consecutive clock values,
//! `(1+f)/(1+f0) - 1`, obeys the slew bound up to a few ulp of 1.0.

use crate::common::clksim::{self as sim, Direct, Poll, Sim, Spec, Thr, What};
use crate::core::{Case, Profiles, Prop, Rng, Tier, guard};
use ntp_proto::AlgorithmConfig;
use serde_json::{Value, json};

pub static PROP: Prop = Prop {
    id: "C02",
    level: "exploration",
    rule: "case = one execution of the real KalmanClockController against the simulating clock with all panic thresholds \
           infinite: (closed loop) 1-5 sources with drifts/ramps up to 1e-2, alternating offsets at short spacing, hardware \
           drift beyond the steering limit, initial kernel frequency in {0, +-max, +-10 max, +-0.1, tiny}, limits \
           maximum-frequency-steer / slew-maximum-frequency-offset / slew-minimum-duration log-uniform over 1e-9..0.3 / \
           1e-9..0.3 / 1e-3..1e4; or (direct) a script of slews, slew ends and frequency steers with corrections from 1e-12 to \
           1e300 of both signs. Non-trivial = at least one set_frequency call observed; shape signature = (mode, initial \
           frequency class, limit classes, whether the clamp was hit high/low, bucketed number of slews, sources).",
    assumptions: &[
        "the kernel clock is replaced by a recording/simulating NtpClock",
        "desired_freq/freq_offset are read through the guarded hook kalman_a1.rs (read only)",
        "limits are positive finite numbers below 0.3 (the statement quantifies over positive limits)",
    ],
    profiles: Profiles::Both,
    cases: |t| t.pick(16_000, 200_000),
    budget_s: |t| t.pick(30, 300),
    run,
    min_nontrivial: 100,
    required_counters: &["set_frequency_calls", "desired_freq_checks", "slews_started", "clamp_hits", "direct_slew_extra_checked"],
    exhaustive: false,
    crash_is_violation: false,
};

fn class_limit(x: f64) -> i8 {
    x.log10().floor() as i8
}

fn class_freq(f: f64, max: f64) -> u8 {
    if f == 0.0 {
        0
    } else if f.abs() < max * 0.5 {
        1
    } else if f.abs() <= max {
        2
    } else if f.abs() <= 20.0 * max {
        3
    } else {
        4
    }
}

struct Judge {
    max: f64,
    slew_max: f64,
    hi: bool,
    lo: bool,
    n_set: u64,
    slews: u64,
    prev_desired: f64,
}

impl Judge {
    fn set_frequency(&mut self, c: &mut Case, mode: &str, f: f64, detail: &dyn Fn() -> Value) {
        c.inc("set_frequency_calls");
        self.n_set += 1;
        if !f.is_finite() {
            c.violation(
                format!("{mode}/set-frequency-not-finite/{}", c.profile),
                format!("set_frequency({f}) is not a finite number"),
                json!({"f": format!("{f}"), "case": detail()}),
            );
        } else if f.abs() > self.max {
            let side = if f > 0.0 { "high" } else { "low" };
            c.violation(
                format!("{mode}/set-frequency-beyond-maximum/{side}/{}", c.profile),
                format!("set_frequency({f:e}) exceeds maximum-frequency-steer {:e}", self.max),
                json!({"f": f, "f_bits": format!("{:#018x}", f.to_bits()), "maximum_frequency_steer": self.max, "case": detail()}),
            );
        }
        if f == self.max {
            self.hi = true;
            c.inc("clamp_hits");
        }
        if f == -self.max {
            self.lo = true;
            c.inc("clamp_hits");
        }
    }
    fn desired(&mut self, c: &mut Case, mode: &str, d: f64, detail: &dyn Fn() -> Value) {
        c.inc("desired_freq_checks");
        if !(d.abs() <= self.slew_max) {
            c.violation(
                format!("{mode}/slew-frequency-beyond-maximum/{}", c.profile),
                format!("a slew uses extra frequency {d:e}, beyond slew-maximum-frequency-offset {:e}", self.slew_max),
                json!({"desired_freq": format!("{d:e}"), "slew_maximum_frequency_offset": self.slew_max, "case": detail()}),
            );
        }
        if d != 0.0 && d != self.prev_desired {
            self.slews += 1;
            c.inc("slews_started");
        }
        self.prev_desired = d;
    }
}

fn bucket(n: u64) -> u8 {
    match n {
        0 => 0,
        1 => 1,
        2..=5 => 2,
        6..=30 => 3,
        _ => 4,
    }
}

// ------------------------------------------------------------------ closed loop

fn run_closed(c: &mut Case) {
    let spec = sim::gen_freq_stress_spec(&mut c.rng, c.tier.pick(400, 1500));
    let mut j = Judge {
        max: spec.algo.maximum_frequency_steer,
        slew_max: spec.algo.slew_maximum_frequency_offset,
        hi: false,
        lo: false,
        n_set: 0,
        slews: 0,
        prev_desired: 0.0,
    };
    let shape = (
        "closed",
        class_freq(spec.kernel_freq, j.max),
        class_limit(j.max),
        class_limit(j.slew_max),
        spec.sources.len(),
    );
    let mut s = Sim::new(spec);
    c.inc("closed_cases");
    while let Some(info) = s.step() {
        let detail = || s.describe();
        for call in s.core.clock.log_from(info.log_from) {
            if let What::SetFrequency(f) = call.what {
                j.set_frequency(c, "closed", f, &detail);
            }
        }
        if info.call_no.is_some() {
            j.desired(c, "closed", info.desired_freq, &detail);
        }
        if let Some((w, p)) = &info.panic {
            // not judged here (C06 judges panics); kept visible in the evidence
            c.inc("cut_short_by_panic");
            c.inc(&format!("panic_not_judged:{w}:{}", p.site()));
        }
    }
    c.count("closed_measurements", s.core.n_meas);
    if j.n_set > 0 {
        c.sig_of(&(shape, j.hi, j.lo, bucket(j.slews), bucket(j.n_set)));
    }
    c.sample(|| json!({"spec": s.core.spec.to_json(), "set_frequency_calls": j.n_set, "slews": j.slews, "clamp_high": j.hi, "clamp_low": j.lo}));
}

// ------------------------------------------------------------------ direct drive

#[derive(Clone, Debug)]
enum DOp {
    Slew(f64),
    EndSlew,
    Freq(f64),
    Step(f64),
}

fn gen_direct_ops(rng: &mut Rng, a: &AlgorithmConfig) -> Vec<DOp> {
    let n = rng.usize(1, 14);
    let mut v = Vec::new();
    for _ in 0..n {
        let s = if rng.bool() { 1.0 } else { -1.0 };
        match rng.below(8) {
            0..=2 => {
                let natural = a.slew_maximum_frequency_offset * a.slew_minimum_duration;
                let mag = match rng.below(4) {
                    0 => natural * *rng.pick(&[0.5, 0.999999, 1.0, 1.000001, 2.0, 1e3]),
                    1 => a.step_threshold * *rng.pick(&[1.0, 0.999, 0.5]),
                    _ => rng.log_uniform(1e-12, a.step_threshold.max(1e-11)),
                };
                v.push(DOp::Slew(s * mag.min(a.step_threshold)));
                if rng.chance(2, 3) {
                    v.push(DOp::EndSlew);
                }
            }
            3..=5 => {
                let mag = match rng.below(6) {
                    0 => a.maximum_frequency_steer * *rng.pick(&[0.5, 0.999999, 1.0, 1.000001, 2.0, 10.0]),
                    1 => *rng.pick(&[1.0, 2.0, 0.5, 0.999999, 10.0, 1e6, 1e300]),
                    2 => rng.log_uniform(1e-15, 1e-6),
                    _ => rng.log_uniform(1e-9, 1.0),
                };
                v.push(DOp::Freq(s * mag));
            }
            6 => v.push(DOp::EndSlew),
            _ => v.push(DOp::Step(s * a.step_threshold * *rng.pick(&[1.5, 10.0, 1e3]))),
        }
    }
    v
}

fn run_direct(c: &mut Case) {
    let mut algo = AlgorithmConfig::default();
    sim::gen_limits(&mut c.rng, &mut algo);
    algo.step_threshold = *c.rng.pick(&[0.01, 10.0, 1e6]);
    let kernel = sim::gen_kernel_freq(&mut c.rng, algo.maximum_frequency_steer);
    let with_source = c.rng.bool();
    let ops = gen_direct_ops(&mut c.rng, &algo);
    let local_start = c.rng.u64();
    let spec = Spec::basic(0, &mut Rng::new(1));
    let mut d = Direct::new(spec.sync_config(), algo, kernel, local_start);
    let mut j = Judge {
        max: algo.maximum_frequency_steer,
        slew_max: algo.slew_maximum_frequency_offset,
        hi: false,
        lo: false,
        n_set: 0,
        slews: 0,
        prev_desired: 0.0,
    };
    let detail = || {
        json!({"mode": "direct", "algo": sim::algo_json(&algo), "kernel_freq": kernel, "with_source": with_source,
               "ops": ops.iter().map(|o| match o {
                   DOp::Slew(x) => json!({"slew": x, "bits": format!("{:#018x}", x.to_bits())}),
                   DOp::EndSlew => json!("end-slew"),
                   DOp::Freq(x) => json!({"steer_frequency": format!("{x:e}"), "bits": format!("{:#018x}", x.to_bits())}),
                   DOp::Step(x) => json!({"step": x}),
               }).collect::<Vec<_>>()})
    };
    c.inc("direct_cases");
    if with_source && !d.leave_startup() {
        c.harness_error("direct drive: benign first update did not report used sources");
        return;
    }
    // frequency the clock runs at before the next call, as far as the monitor has seen it
    let mut f_clock = kernel;
    for (k, op) in ops.iter().enumerate() {
        d.advance(1.0);
        let from = d.clock.log_len();
        let r = match op {
            DOp::Slew(x) | DOp::Step(x) => guard(|| d.steer_offset(*x, 0.0)).map(|_| ()),
            DOp::EndSlew => guard(|| d.time_update()).map(|_| ()),
            DOp::Freq(x) => guard(|| d.steer_frequency(*x)).map(|_| ()),
        };
        if let Err(p) = &r {
            c.inc("cut_short_by_panic");
            c.inc(&format!("panic_not_judged:direct:{}", p.site()));
            break;
        }
        let before = f_clock;
        for call in d.clock.log_from(from) {
            if let What::SetFrequency(f) = call.what {
                j.set_frequency(c, "direct", f, &detail);
                f_clock = f;
            }
        }
        let desired = ntp_proto::verif::clk::probe::desired_freq(&d.ctl);
        let was_idle = j.prev_desired == 0.0;
        j.desired(c, "direct", desired, &detail);
        if let DOp::Slew(_) = op {
            // a slew started from rest, from a clock frequency that is itself within the limit
            if was_idle && before.abs() <= j.max && f_clock.is_finite() {
                c.inc("direct_slew_extra_checked");
                let extra = (1.0 + f_clock) / (1.0 + before) - 1.0;
                let tol = j.slew_max * 1e-9 + 8.0 * f64::EPSILON;
                if extra.abs() > j.slew_max + tol {
                    c.violation(
                        format!("direct/slew-extra-frequency-beyond-maximum/{}", c.profile),
                        format!("op #{k}: the slew changed the clock frequency from {before:e} to {f_clock:e}, an extra frequency of {extra:e} > slew-maximum-frequency-offset {:e}", j.slew_max),
                        json!({"op_index": k, "f_before": before, "f_after": f_clock, "extra": extra, "case": detail()}),
                    );
                }
            }
        }
    }
    if j.n_set > 0 {
        c.sig_of(&("direct", class_freq(kernel, j.max), class_limit(j.max), class_limit(j.slew_max), with_source, j.hi, j.lo, bucket(j.slews), bucket(j.n_set)));
    }
    c.sample(|| json!({"case": detail(), "set_frequency_calls": j.n_set, "slews": j.slews}));
}

fn run(c: &mut Case) {
    if c.idx % 4 == 0 {
        run_closed(c);
    } else {
        run_direct(c);
    }
}
