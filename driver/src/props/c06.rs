//! C06 — filter output stays finite and well-formed.
//!
//! Events: after every measurement the source's `observe()` (raw fixed point) and the f64 view
//! of the snapshot it forwards (hook kalman_a1.rs); every argument of every clock call; every
//! `TimeSnapshot` returned by the controller and the root dispersion derived from it at the
//! current local time (what servers and ntp-ctl publish); panics in any filter/controller call.
//! Oracle: offsets/delays finite, offset variance finite and >= 0 (so the reported uncertainty is
//! a finite non-negative number), `set_frequency` argument finite, variance handed to
//! `error_estimate_update` finite and >= 0, `TimeSnapshot` f64 fields finite, root dispersion
//! polynomial finite and >= 0 at publication time, no panic. The `strict` build turns a NaN that
//! reaches the fixed-point conversion into a panic; the `ship` build hides it, hence the f64 views.

use crate::common::clksim::{self as sim, Op, Poll, Sim, Spec, SrcKind, SrcSpec, StepInfo, Thr, UNIT, What};
use crate::core::{Case, Profiles, Prop, Rng, Tier, guard};
use ntp_proto::TimeSnapshot;
use ntp_proto::verif::misc::ts_to_u64;
use serde_json::{Value, json};

pub static PROP: Prop = Prop {
    id: "C06",
    level: "exploration",
    rule: "case = one closed-loop history (all panic thresholds infinite so it is never cut short) of 1-6 simulated sources fed \
           to the real Kalman source filters and clock controller, every two measurements >= 1.2 ms and <= 2^17 s apart, offsets \
           and delays finite within +-2^31 s, steering fed back. Scenario families: exactly constant (zero-noise) histories, \
           alternating extremes, huge-then-tiny spacings and bursts, remote steps, delay outliers, zero/negative/huge delays, \
           offsets at the edge of the representable range, periodic one-way sources, many sources of mixed quality, local \
           clock meddling (filter resets), random mixes, the frequency-stress family of C02; default and perturbed algorithm configurations. Non-trivial = at \
           least one source message reached the controller; shape signature = (scenario, sources, spacing class, config \
           variant, which events occurred: steps, slews, filter resets, outliers ignored, leap changes, sync reached).",
    assumptions: &[
        "the kernel clock is replaced by a recording/simulating NtpClock; measurements are injected as InternalMeasurement, the way the source wrappers do",
        "private snapshot types are viewed as plain numbers through the guarded hook kalman_a1.rs",
        "leap indicator 'unsynchronized' is never fed (filtered by the source layer before the controller)",
        "periodic sources are fed offsets within a few periods (period wrapping loops are linear in offset/period)",
    ],
    profiles: Profiles::Both,
    cases: |t| t.pick(12_000, 150_000),
    budget_s: |t| t.pick(45, 480),
    run,
    min_nontrivial: 100,
    required_counters: &["measurements", "source_messages", "observe_checked", "clock_args_checked", "snapshots_checked", "root_dispersion_checked", "set_frequency_checked", "steps_seen", "error_estimates_checked"],
    exhaustive: false,
    crash_is_violation: true,
};

fn gen_spec(rng: &mut Rng, tier: Tier) -> (Spec, u8, u8) {
    let scenario = rng.below(14) as u8;
    if scenario >= 12 {
        // the frequency-stress family of C02: limits/kernel frequency/hardware drift of all magnitudes, ramps,
        // alternating offsets at 1.5 ms spacing, saw-tooth remote steps
        return (sim::gen_freq_stress_spec(rng, tier.pick(300, 1200)), 12, 0);
    }
    let n = match scenario {
        9 => rng.usize(3, 6),
        _ => rng.usize(1, 4),
    };
    let mut spec = Spec::basic(0, rng);
    spec.min_agree = rng.usize(1, n.min(3));
    spec.startup = Thr::INF;
    spec.single = Thr::INF;
    spec.accumulated = None;
    let x0 = match rng.below(4) {
        0 => 0.0,
        1 => rng.f64_range(-1.0, 1.0),
        2 => rng.f64_range(-1.0, 1.0) * rng.log_uniform(1.0, 1e6),
        _ => rng.f64_range(-0.005, 0.005),
    };
    spec.sources = sim::gen_agreeing_sources(rng, n, x0, 2e-4);
    spec.hw_drift = *rng.pick(&[0.0, 0.0, 1e-6, -3e-5, 2e-4]);
    spec.kernel_freq = *rng.pick(&[0.0, 0.0, 1e-5, -4e-4]);
    // configuration variant
    let variant = rng.below(8) as u8;
    match variant {
        1 => spec.algo.step_threshold = 1e9, // never step: everything is slewed
        2 => {
            spec.algo.steer_offset_threshold = 0.0;
            spec.algo.steer_offset_leftover = 0.0;
        }
        3 => spec.algo.ignore_server_dispersion = true,
        4 => {
            spec.algo.initial_wander = *rng.pick(&[1e-12, 1e-6, 1e-3]);
            spec.algo.initial_frequency_uncertainty = *rng.pick(&[1e-9, 1e-2]);
        }
        5 => {
            spec.algo.precision_hysteresis = 1;
            spec.algo.poll_interval_hysteresis = 1;
        }
        6 => {
            spec.algo.maximum_source_uncertainty = 1e9;
            spec.algo.delay_outlier_threshold = *rng.pick(&[0.0, 1.0, 100.0]);
        }
        _ => {}
    }
    let spacing = |rng: &mut Rng| -> Poll {
        match rng.below(6) {
            0 => Poll::Fixed(*rng.pick(&[0.0012, 0.01, 1.0, 16.0, 1024.0, 131072.0])),
            1 => Poll::Desired,
            2 => Poll::LogUniform(0.0012, 131072.0),
            3 => Poll::Burst { n: rng.below(12) as u32 + 1, tiny: *rng.pick(&[0.0012, 0.002, 0.1]), huge: *rng.pick(&[64.0, 4096.0, 131072.0]) },
            4 => Poll::LogUniform(0.5, 64.0),
            _ => Poll::Fixed(rng.log_uniform(0.0012, 131072.0)),
        }
    };
    match scenario {
        0 => {
            // exactly constant histories: no noise, no jitter, no drift
            for s in spec.sources.iter_mut() {
                s.noise_kind = 3;
                s.delay_jitter = 0.0;
                s.drift = 0.0;
                s.poll = spacing(rng);
            }
            spec.hw_drift = 0.0;
        }
        1 => {
            // alternating extremes
            let amp = rng.log_uniform(1e-6, 1e9);
            for s in spec.sources.iter_mut() {
                s.noise_kind = 1;
                s.noise = amp * rng.f64_range(0.5, 1.0);
                s.poll = spacing(rng);
            }
        }
        2 => {
            // huge then tiny spacings
            for s in spec.sources.iter_mut() {
                s.poll = Poll::Burst { n: rng.below(20) as u32 + 1, tiny: 0.0012, huge: *rng.pick(&[1000.0, 65536.0, 131072.0]) };
            }
        }
        3 => {
            // remote steps, small to enormous, common or individual
            let common = rng.bool();
            let amounts: Vec<(f64, f64)> = (0..rng.usize(1, 5))
                .map(|k| (30.0 + 80.0 * k as f64, rng.f64_range(-1.0, 1.0) * rng.log_uniform(1e-3, 2e9)))
                .collect();
            for s in spec.sources.iter_mut() {
                s.poll = Poll::Fixed(rng.f64_range(0.5, 8.0));
                if common || rng.bool() {
                    s.steps = amounts.clone();
                }
            }
        }
        4 => {
            // delay outliers and heavy-tailed noise
            for s in spec.sources.iter_mut() {
                s.outlier_pm = *rng.pick(&[20, 100, 500]);
                s.outlier = rng.log_uniform(1e-3, 1e3);
                s.noise_kind = 2;
                s.poll = spacing(rng);
            }
        }
        5 => {
            // periodic one-way (PPS-like) sources next to ordinary ones
            let k = rng.usize(1, n);
            for s in spec.sources.iter_mut().take(k) {
                let period = *rng.pick(&[1.0, 1.0, 0.5, 2.0, 0.001]);
                s.kind = SrcKind::OneWay { noise: rng.log_uniform(1e-14, 1e-6), accuracy: rng.log_uniform(1e-9, 1e-3), period: Some(period) };
                s.noise = rng.log_uniform(1e-9, 1e-4);
                s.poll = Poll::Fixed(*rng.pick(&[1.0, 1.0, 16.0]));
            }
            // keep the common offset within a few periods (see assumptions)
            let small = rng.f64_range(-3.0, 3.0) * 0.001;
            for s in spec.sources.iter_mut() {
                s.offset = small + rng.f64_range(-1e-4, 1e-4);
            }
            spec.algo.step_threshold = spec.algo.step_threshold.min(0.01);
        }
        6 => {
            // edge of the representable range: offsets near +-2^31 s, delays zero / negative / enormous
            let big = *rng.pick(&[2147483647.0, 2147483648.5, 2.0e9, 1.0e9, 4.0e9]) * if rng.bool() { 1.0 } else { -1.0 };
            let all = rng.bool();
            for (k, s) in spec.sources.iter_mut().enumerate() {
                if all || k == 0 {
                    s.offset = big + rng.f64_range(-1e-3, 1e-3);
                }
                s.delay = *rng.pick(&[0.0, -0.001, -1000.0, 1e-9, 1.0, 1e3, 2.0e9, 0.01]);
                s.delay_jitter = s.delay.abs() * rng.f64_range(0.0, 0.5);
                s.poll = spacing(rng);
            }
        }
        7 => {
            // someone else sets the clock: filter resets
            let mut t = rng.f64_range(20.0, 100.0);
            for _ in 0..rng.usize(1, 5) {
                let amount = rng.f64_range(-1.0, 1.0) * rng.log_uniform(1.0, 1e5);
                spec.ops.push((t, Op::Meddle(sim::ref_raw(amount))));
                t += rng.f64_range(1.0, 200.0);
            }
            for s in spec.sources.iter_mut() {
                s.poll = Poll::Fixed(rng.f64_range(0.5, 16.0));
            }
        }
        8 => {
            // one-way source without period (GPS-like) with tiny fixed noise
            for s in spec.sources.iter_mut() {
                s.kind = SrcKind::OneWay { noise: *rng.pick(&[1e-30, 1e-18, 1e-12, 1e-4, 1e6]), accuracy: *rng.pick(&[0.0, 1e-9, 1e-3, 10.0]), period: None };
                s.poll = spacing(rng);
            }
        }
        9 => {
            // many sources of mixed quality, large drifts, usability toggles, removal, leap changes
            for s in spec.sources.iter_mut() {
                s.drift = rng.f64_range(-1.0, 1.0) * rng.log_uniform(1e-8, 1e-2);
                s.noise = rng.log_uniform(1e-7, 1.0);
                s.delay = rng.log_uniform(1e-5, 2.0);
                s.poll = spacing(rng);
                s.leap0 = rng.below(4) as u8;
                s.leaps = vec![(rng.f64_range(10.0, 500.0), rng.below(4) as u8)];
                s.usable = vec![(s.start, true), (rng.f64_range(20.0, 300.0), false), (rng.f64_range(300.0, 600.0), true)];
                if rng.chance(1, 4) {
                    s.stop = Some(rng.f64_range(50.0, 1000.0));
                }
                s.outages = vec![(rng.f64_range(10.0, 100.0), rng.f64_range(100.0, 50000.0))];
            }
        }
        10 => {
            // zero noise but drifting remote / drifting local clock: perfectly linear ramps
            let d = rng.f64_range(-1.0, 1.0) * rng.log_uniform(1e-9, 1e-2);
            for s in spec.sources.iter_mut() {
                s.noise_kind = 3;
                s.delay_jitter = 0.0;
                s.drift = d;
                s.poll = spacing(rng);
            }
        }
        _ => {
            // random mix
            for s in spec.sources.iter_mut() {
                s.noise = rng.log_uniform(1e-9, 10.0);
                s.noise_kind = rng.below(4) as u8;
                s.delay = rng.log_uniform(1e-7, 10.0);
                s.delay_jitter = s.delay * rng.f64_range(0.0, 2.0);
                s.drift = rng.f64_range(-1.0, 1.0) * rng.log_uniform(1e-9, 1e-3);
                s.root_disp = rng.log_uniform(1e-6, 10.0);
                s.root_delay = rng.log_uniform(1e-6, 10.0);
                s.poll = spacing(rng);
            }
        }
    }
    spec.max_meas = tier.pick(300, 1200);
    spec.duration = 1e12;
    (spec, scenario, variant)
}

fn poll_class(p: &Poll) -> u8 {
    match p {
        Poll::Fixed(x) if *x < 0.1 => 0,
        Poll::Fixed(x) if *x < 100.0 => 1,
        Poll::Fixed(_) => 2,
        Poll::Desired => 3,
        Poll::LogUniform(..) => 4,
        Poll::Burst { .. } => 5,
    }
}

macro_rules! flag {
    ($c:expr, $s:expr, $seen:expr, $cond:expr, $sig:expr, $what:expr, $extra:expr) => {
        if !($cond) {
            let sig: String = $sig.into();
            let class = if $seen.const_delay { "some source has constant/clamped delays (zero measurement-noise estimate possible)" } else { "all sources have varying delays" };
            let ic = $seen.input_class();
            $c.violation(format!("{}/{}/{}", sig, ic, $c.profile), $what, json!({"observed": $extra, "input_class": ic, "delay_class": class, "history": $s.describe()}));
        }
    };
}

/// independent evaluation of the root-dispersion polynomial of a snapshot at local time `now`
fn root_variance_at(t: &TimeSnapshot, now: u64) -> (f64, f64) {
    let dt = now.wrapping_sub(ts_to_u64(t.root_variance_base_time)) as i64 as f64 / UNIT;
    let v = t.root_variance_base + dt * t.root_variance_linear + dt * dt * t.root_variance_quadratic + dt * dt * dt * t.root_variance_cubic;
    (dt, v)
}

fn snapshot_json(t: &TimeSnapshot) -> Value {
    json!({"root_variance_base": format!("{:e}", t.root_variance_base), "root_variance_linear": format!("{:e}", t.root_variance_linear),
           "root_variance_quadratic": format!("{:e}", t.root_variance_quadratic), "root_variance_cubic": format!("{:e}", t.root_variance_cubic),
           "root_variance_base_time": format!("{:#018x}", ts_to_u64(t.root_variance_base_time))})
}

#[derive(Default)]
struct Seen {
    steps: bool,
    slews: bool,
    resets: bool,
    ignored: bool,
    synced: bool,
    leap: bool,
    backward_pub: bool,
    /// input class used in violation signatures: does any source have exactly constant delays / (near) zero configured noise
    const_delay: bool,
    /// per source: the most recent offsets (raw) as measured
    recent_offsets: std::collections::HashMap<usize, std::collections::VecDeque<i64>>,
    /// sticky: some source delivered 8 consecutive bit-identical offsets (e.g. offsets saturated at the edge of
    /// the representable range): the sample variance the filter starts from is then exactly zero
    degenerate_offsets: bool,
}

impl Seen {
    /// Input class that is part of every violation signature, so that a finding on the degenerate class
    /// (bit-identical offsets) cannot hide a violation on ordinary inputs.
    fn input_class(&self) -> &'static str {
        if self.degenerate_offsets { "bit-identical-offsets" } else { "general-input" }
    }
    fn note_measurement(&mut self, src: usize, offset_raw: i64) {
        let q = self.recent_offsets.entry(src).or_default();
        q.push_back(offset_raw);
        if q.len() > 8 {
            q.pop_front();
        }
        if q.len() == 8 && q.iter().all(|o| *o == q[0]) {
            self.degenerate_offsets = true;
        }
    }
}

fn check_published(c: &mut Case, s: &Sim, snap: &TimeSnapshot, now: ntp_proto::NtpTimestamp, seen: &mut Seen) {
    c.inc("root_dispersion_checked");
    let (dt, v_raw) = root_variance_at(snap, ts_to_u64(now));
    if dt < 0.0 {
        seen.backward_pub = true;
        c.inc("root_dispersion_before_base_time");
    }
    if !(v_raw >= 0.0) {
        // the raw polynomial is negative / NaN here (evaluation before the base time after a backward
        // step, or a variance that rounding left a hair below zero): counted, and it is exactly the
        // situation in which the real conversion below must not produce a NaN
        c.inc("root_dispersion_raw_polynomial_negative");
    }
    let when = if dt >= 0.0 { "at-or-after-base-time" } else { "before-base-time" };
    // What is published is the value returned by the real conversion. A NaN inside it is invisible in
    // the fixed-point result of the ship build (it becomes 0) but trips the debug assertion of
    // NtpDuration::from_seconds in the strict build, which runs the same cases: no_panic catches it there.
    // Independently of the build, the radicand the documented formula uses (time since the base clamped
    // at zero, variance clamped at zero) must be a finite number, i.e. no snapshot field is NaN/inf.
    let t = dt.max(0.0);
    let v = (snap.root_variance_base + t * snap.root_variance_linear + t * t * snap.root_variance_quadratic + t * t * t * snap.root_variance_cubic).max(0.0);
    flag!(
        c,
        s,
        seen,
        v.is_finite(),
        format!("publish/root-dispersion-not-finite/{when}"),
        format!("root dispersion published {dt} s after the snapshot's base time is sqrt({v:e}): not a finite number"),
        json!({"dt": dt, "variance": format!("{v:e}"), "snapshot": snapshot_json(snap)})
    );
    let snap = *snap;
    let label = format!("TimeSnapshot::root_dispersion/{when}/{}", seen.input_class());
    let got = c.no_panic(&label, || json!({"dt": dt, "snapshot": snapshot_json(&snap), "history": s.describe()}), || snap.root_dispersion(now));
    if let Some(d) = got {
        // the published dispersion is a standard deviation: never negative, and not zero while the
        // (clamped) variance is clearly positive (a NaN squashed to 0 by the fixed-point cast in ship)
        let raw = ntp_proto::verif::misc::dur_to_i64(d);
        let hidden_nan = raw == 0 && v.is_finite() && v.sqrt() * UNIT >= 2.0;
        flag!(
            c,
            s,
            seen,
            raw >= 0 && !hidden_nan,
            format!("publish/root-dispersion-wrong/{when}"),
            format!("published root dispersion is {raw} units while the variance is {v:e} (expected about {:e} units)", v.sqrt() * UNIT),
            json!({"dt": dt, "raw": raw, "variance": format!("{v:e}"), "snapshot": snapshot_json(&snap)})
        );
    }
}

fn judge(c: &mut Case, s: &Sim, info: &StepInfo, seen: &mut Seen) {
    if let Some(m) = &info.meas {
        seen.note_measurement(m.src, m.offset_raw);
    }
    if let Some((w, p)) = &info.panic {
        c.violation(
            format!("panic/{w}/{}/{}/{}", seen.input_class(), c.profile, p.site()),
            format!("panic in {w} at {}: {}", p.location, p.message),
            json!({"history": s.describe()}),
        );
    }
    if info.meas.is_some() {
        c.inc("measurements");
        if info.msg.is_none() {
            seen.ignored = true;
        }
    }
    if let Some(m) = &info.msg {
        c.inc("source_messages");
        if c.replaying && std::env::var("VERIF_TRACE").is_ok() {
            eprintln!("TRACE meas={:?} offset={:e} freq={:e} var=[{:e} {:e} {:e} {:e}] delay={:e} wander={:e}", info.meas.as_ref().map(|m| (m.src, m.offset_raw, m.delay_raw, m.t)), m.offset, m.frequency, m.var00, m.var01, m.var10, m.var11, m.delay, m.wander);
        }
        let view = || json!({"offset": format!("{:e}", m.offset), "frequency": format!("{:e}", m.frequency), "var00": format!("{:e}", m.var00), "var01": format!("{:e}", m.var01), "var10": format!("{:e}", m.var10), "var11": format!("{:e}", m.var11), "delay": format!("{:e}", m.delay), "wander": format!("{:e}", m.wander)});
        flag!(c, s, seen, m.offset.is_finite(), "source/offset-not-finite", format!("per-source offset estimate is {}", m.offset), view());
        flag!(c, s, seen, m.var00.is_finite() && m.var00 >= 0.0, "source/offset-variance-negative-or-not-finite", format!("per-source offset variance is {:e}: the reported uncertainty sqrt(.) is not a finite non-negative number", m.var00), view());
        flag!(c, s, seen, m.delay.is_finite(), "source/delay-not-finite", format!("per-source delay estimate is {}", m.delay), view());
        if !(m.var11.is_finite() && m.var11 >= 0.0) {
            // not a reported quantity: recorded for the evidence, not judged
            c.inc("note_frequency_variance_negative_or_not_finite");
        }
    }
    if let Some(o) = &info.observe {
        c.inc("observe_checked");
        flag!(c, s, seen, o.uncertainty >= 0, "observe/uncertainty-negative", format!("observe() reports uncertainty {} units", o.uncertainty), json!({"uncertainty_raw": o.uncertainty, "offset_raw": o.offset, "delay_raw": o.delay}));
    }
    for call in s.core.clock.log_from(info.log_from) {
        c.inc("clock_args_checked");
        match call.what {
            What::SetFrequency(f) => {
                c.inc("set_frequency_checked");
                flag!(c, s, seen, f.is_finite(), "clock/set-frequency-not-finite", format!("set_frequency({f})"), json!({"f": format!("{f}")}));
            }
            What::Step(_) => {
                seen.steps = true;
                c.inc("steps_seen");
            }
            What::ErrorEstimate(_, _) => {
                // the estimate handed over is sqrt(root_variance_base) of the snapshot returned by this call
                c.inc("error_estimates_checked");
                // The argument is a fixed-point duration: a NaN computed on the way is invisible in the ship
                // build (it becomes 0) and panics in the strict build (caught as panic/... above). What can be
                // judged in both builds: the value handed over is not negative, and it is not zero while the
                // snapshot's variance (clamped at zero, as the published dispersion is) is clearly positive.
                if let (What::ErrorEstimate(est, _), Some(t)) = (&call.what, info.update.as_ref().and_then(|u| u.snapshot)) {
                    let v = t.root_variance_base;
                    if !(v >= 0.0) {
                        c.inc("note_root_variance_base_negative_or_nan");
                    }
                    let vc = v.max(0.0);
                    let hidden_nan = *est == 0 && vc.is_finite() && vc.sqrt() * UNIT >= 2.0;
                    flag!(c, s, seen, vc.is_finite() && *est >= 0 && !hidden_nan, "clock/error-estimate-not-finite", format!("error_estimate_update received {est} units for a variance of {v:e}"), snapshot_json(&t));
                }
            }
            What::Status(_) => seen.leap = true,
            _ => {}
        }
    }
    if let Some(u) = &info.update {
        if u.next_update.is_some() {
            seen.slews = true;
            c.inc("slews_seen");
        }
        if u.used.is_some() {
            seen.synced = true;
        }
        if let Some(t) = &u.snapshot {
            c.inc("snapshots_checked");
            let ok = t.root_variance_base.is_finite() && t.root_variance_linear.is_finite() && t.root_variance_quadratic.is_finite() && t.root_variance_cubic.is_finite();
            flag!(c, s, seen, ok, "publish/snapshot-field-not-finite", "a TimeSnapshot f64 field is not finite".to_string(), snapshot_json(t));
        }
    }
    // what a server / ntp-ctl would publish right now from the current snapshot
    if info.meas.is_some() || info.update.is_some() {
        if let Some(t) = s.core.last_snapshot {
            if t.root_variance_base_time != ntp_proto::NtpTimestamp::default() {
                check_published(c, s, &t, info.local_now, seen);
            }
        }
    }
}

fn run(c: &mut Case) {
    let (spec, scenario, variant) = gen_spec(&mut c.rng, c.tier);
    let shape = (scenario, variant, spec.sources.len(), spec.sources.first().map(|s| poll_class(&s.poll)));
    let mut seen = Seen::default();
    seen.const_delay = spec.sources.iter().any(|s| match &s.kind {
        // constant delays, or delays at/below the filter's MIN_DELAY clamp (2^-18 s): the delay variance, hence the
        // measurement-noise estimate, can be exactly zero
        SrcKind::TwoWay => (s.delay_jitter == 0.0 && s.outlier_pm == 0) || s.delay < 3.9e-6,
        SrcKind::OneWay { noise, .. } => *noise < 1e-20,
    });
    let mut s = Sim::new(spec);
    let mut msgs = 0u64;
    loop {
        // the simulator itself must not panic; code under test is guarded inside it
        let info = match guard(|| s.step()) {
            Ok(Some(i)) => i,
            Ok(None) => break,
            Err(p) => {
                c.harness_error(format!("simulator panicked at {}: {}", p.location, p.message));
                break;
            }
        };
        if info.msg.is_some() {
            msgs += 1;
        }
        if let sim::Ev::Meddle(_) = info.ev {
            seen.resets = true;
        }
        if c.replaying && std::env::var("VERIF_C06_TRACE").is_ok() {
            eprintln!("t={:.3} ev={:?} msg={:?} upd={:?}", info.t, info.ev, info.msg.as_ref().map(|m| (m.offset, m.var00, m.var01, m.var11, m.delay, m.wander)), info.update.as_ref().map(|u| (u.used.as_ref().map(|v| v.len()), u.message, u.snapshot.map(|t| (t.root_variance_base, t.root_variance_linear, t.root_variance_quadratic)))));
        }
        judge(c, &s, &info, &mut seen);
    }
    if msgs > 0 {
        c.sig_of(&(shape, seen.steps, seen.slews, seen.resets, seen.ignored, seen.synced, seen.leap, seen.backward_pub));
    }
    c.sample(|| json!({"scenario": scenario, "config_variant": variant, "spec": s.core.spec.to_json(), "measurements": s.core.n_meas, "source_messages": msgs,
                       "steps": seen.steps, "slews": seen.slews, "synced": seen.synced}));
}
