//! C04 — leap-second announcements follow a strict majority of the selected sources.
//!
//! Events: `status_update(l)` calls of the recording clock during each update of
//! the REAL `KalmanClockController`, `TimeSnapshot.leap_indicator` of every returned
//! update, the `used_sources` it reports, and the leap flag of the last snapshot
//! the monitor forwarded for each source.
//! Oracle: the monitor's own vote over the *used* sources' last forwarded flags
//! (unknown ignored; strict majority of the rest): majority x => the indicator in
//! force after the update is x; no majority or no selection => it is the previous one;
//! published indicator == indicator in force.

use crate::common::selsim::{self, leap_name, ClockCall, Rig, Syn, UpdateObs, Weights, UNIT};
use crate::core::{guard, Case, Profiles, Prop, Tier};
use ntp_proto::verif::kalman::a2 as hook;
use serde_json::{json, Value};
use std::collections::HashMap;

/// multisets over {none, 61, 59, unknown} of size 1..=7
const N_MULTISETS: u64 = 329;
const N_PREV: u64 = 4;
const N_DECOY: u64 = 4;
const EXHAUSTIVE: u64 = N_MULTISETS * N_PREV * N_DECOY;

pub static PROP: Prop = Prop {
    id: "C04",
    level: "exploration",
    rule: "indices 0..5263 enumerate every multiset of leap flags {none, 61, 59, unknown} over 1..7 selected sources x previous \
           indicator {none, 61, 59, unknown} x decoy pattern {none; more unusable sources inside the cluster voting the opposite; more \
           too-uncertain/periodic sources voting the opposite; unselected far-away voters and removed sources voting the opposite} (complete for \
           that sub-space); the other indices are random histories of 3..6 rounds over up to 9 selected sources with flags, usability and \
           decoys changing over time, some of them steering. Every update (each delivery of one synthetic snapshot to the real controller) is \
           judged, as is every direct call of the private vote on a given selection. Non-trivial = an update that reports used sources; \
           distinct = (vote counts over the used sources, previous indicator, resulting indicator, decoy pattern) signatures.",
    assumptions: &[
        "snapshots are injected as synthetic source messages through a guarded hook (real source filters are not in the loop)",
        "the set of selected sources is taken from the controller's own used_sources report (its correctness is C03's subject)",
        "reading: with a strict majority for x among the used sources the indicator in force after the update must be x (not merely 'if announced then x')",
    ],
    profiles: Profiles::Strict,
    cases: |t| t.pick(200_000, 4_000_000),
    budget_s: |t| t.pick(40, 300),
    run,
    min_nontrivial: 300,
    required_counters: &[
        "updates_with_used",
        "updates_without_used",
        "majority_announced",
        "no_majority_kept",
        "unknown_votes_ignored",
        "exact_half_kept",
        "decoys_present_with_opposite_vote",
        "published_checked",
        "direct_vote_calls",
    ],
    exhaustive: false,
    crash_is_violation: false,
};

fn majority(leaps: &[u8]) -> Option<u8> {
    let mut cnt = [0usize; 5];
    for l in leaps {
        cnt[(*l).min(4) as usize] += 1;
    }
    let known = leaps.len() - cnt[3];
    (0..3u8).find(|x| 2 * cnt[*x as usize] > known)
}

fn nth_multiset(mut k: u64) -> [usize; 4] {
    for s in 1..=7usize {
        for a in 0..=s {
            for b in 0..=(s - a) {
                for d in 0..=(s - a - b) {
                    let e = s - a - b - d;
                    if k == 0 {
                        return [a, b, d, e];
                    }
                    k -= 1;
                }
            }
        }
    }
    [1, 0, 0, 0]
}

struct Mon {
    /// indicator in force (last value handed to the clock; Unknown initially)
    indicator: u8,
    last_leap: HashMap<u64, u8>,
    decoy_pattern: u64,
    script: Vec<String>,
}

const W: Weights = Weights { stat_q: 8, delay_q: 1, max_q: 4096 };

fn cluster_source(id: u64, center: i64, leap: u8, freq: i64) -> Syn {
    Syn { id, center, sigma: 4, delay: 4, usable: true, leap, period: None, freq, one_way: false }
}

fn judge(c: &mut Case, mon: &mut Mon, obs: &UpdateObs, srcs: &[Syn]) {
    let before = mon.indicator;
    let status: Vec<u8> = obs
        .calls
        .iter()
        .filter_map(|x| if let ClockCall::Status(l) = x { Some(selsim::leap_code(*l)) } else { None })
        .collect();
    let after = status.last().copied().unwrap_or(before);
    let detail = |mon: &Mon, extra: Value| {
        json!({
            "script": mon.script,
            "sources": srcs.iter().map(|s| json!({"id": s.id, "center_s": s.center as f64 * UNIT, "radius_s": s.radius_q(&W) as f64 / 4.0 * UNIT,
                "usable": s.usable, "leap_last_forwarded": mon.last_leap.get(&s.id).map(|l| leap_name(*l)), "periodic": s.period.is_some()})).collect::<Vec<_>>(),
            "used_sources": obs.used, "status_update_calls": status.iter().map(|l| leap_name(*l)).collect::<Vec<_>>(),
            "indicator_before": leap_name(before), "indicator_after": leap_name(after),
            "published": obs.snapshot_leap.map(leap_name), "info": extra,
        })
    };
    match &obs.used {
        Some(used) if !used.is_empty() => {
            c.inc("updates_with_used");
            let leaps: Option<Vec<u8>> = used.iter().map(|u| mon.last_leap.get(u).copied()).collect();
            match leaps {
                None => c.inc("used_source_without_forwarded_snapshot_not_judged"),
                Some(leaps) if leaps.iter().any(|l| *l == 4) => c.inc("unsynchronised_used_not_judged"),
                Some(leaps) => {
                    let mut cnt = [0usize; 4];
                    for l in &leaps {
                        cnt[*l as usize] += 1;
                    }
                    let maj = majority(&leaps);
                    c.sig_of(&(cnt, before, after, mon.decoy_pattern));
                    let known = leaps.len() - cnt[3];
                    if cnt[3] > 0 && maj.is_some() && 2 * cnt[maj.unwrap() as usize] <= leaps.len() {
                        // majority only because unknown votes are ignored
                        c.inc("unknown_votes_ignored");
                    }
                    if known > 0 && known % 2 == 0 && (0..3).any(|x| 2 * cnt[x] == known) {
                        c.inc("exact_half_kept");
                    }
                    // do unselected sources carry a different vote?
                    let unselected_votes: Vec<u8> = mon
                        .last_leap
                        .iter()
                        .filter(|(id, l)| !used.contains(id) && **l < 3)
                        .map(|(_, l)| *l)
                        .collect();
                    if unselected_votes.iter().any(|l| Some(*l) != maj) {
                        c.inc("decoys_present_with_opposite_vote");
                    }
                    match maj {
                        Some(x) => {
                            if after == x {
                                c.inc("majority_announced");
                            } else if after == before {
                                c.violation(
                                    "C04/majority-not-announced",
                                    format!(
                                        "a strict majority of the used sources (ignoring unknown) reports {} but the indicator stays {}",
                                        leap_name(x),
                                        leap_name(before)
                                    ),
                                    detail(mon, json!({"votes_none_61_59_unknown": cnt})),
                                );
                            } else {
                                c.violation(
                                    "C04/announced-without-majority",
                                    format!(
                                        "indicator {} announced although the strict majority of the used sources reports {}",
                                        leap_name(after),
                                        leap_name(x)
                                    ),
                                    detail(mon, json!({"votes_none_61_59_unknown": cnt})),
                                );
                            }
                        }
                        None => {
                            if after == before {
                                c.inc("no_majority_kept");
                            } else {
                                c.violation(
                                    "C04/announced-without-majority",
                                    format!(
                                        "indicator changed from {} to {} although no flag has a strict majority among the used sources",
                                        leap_name(before),
                                        leap_name(after)
                                    ),
                                    detail(mon, json!({"votes_none_61_59_unknown": cnt})),
                                );
                            }
                        }
                    }
                }
            }
        }
        _ => {
            c.inc("updates_without_used");
            if after != before {
                c.violation(
                    "C04/changed-without-selection",
                    format!(
                        "indicator changed from {} to {} by an update that selected no source",
                        leap_name(before),
                        leap_name(after)
                    ),
                    detail(mon, json!(null)),
                );
            }
        }
    }
    mon.indicator = after;
    if let Some(p) = obs.snapshot_leap {
        c.inc("published_checked");
        if p != mon.indicator {
            c.violation(
                "C04/published-differs-from-announced",
                format!(
                    "TimeSnapshot.leap_indicator is {} but the indicator handed to the clock is {}",
                    leap_name(p),
                    leap_name(mon.indicator)
                ),
                detail(mon, json!(null)),
            );
        }
    }
}

fn deliver(c: &mut Case, rig: &mut Rig, mon: &mut Mon, srcs: &mut Vec<Syn>, i: usize, registered: bool) -> bool {
    mon.script.push(format!("message {} leap={} center={}", srcs[i].id, leap_name(srcs[i].leap), srcs[i].center));
    let r = guard(|| rig.inject(&srcs[i]));
    if registered {
        mon.last_leap.insert(srcs[i].id, srcs[i].leap);
    }
    match r {
        Ok(obs) => {
            judge(c, mon, &obs, srcs);
            // a step moves every source's offset and (if forward) the filters' time: follow it so
            // that later snapshots are still consistent with the stepped clock and not "in the past"
            for call in &obs.calls {
                if let ClockCall::Step(raw) = call {
                    let units = raw >> 20;
                    for s in srcs.iter_mut() {
                        s.center -= units;
                    }
                    rig.advance_seconds(4 + (raw.unsigned_abs() >> 32));
                    mon.script.push(format!("(clock stepped by {} s; time advanced)", *raw as f64 / 4294967296.0));
                }
            }
            true
        }
        Err(p) => {
            c.harness_error(format!("panic in source_message: {} {}", p.location, p.message));
            false
        }
    }
}

fn direct_vote(c: &mut Case, leaps: &[u8]) {
    // the private vote on a given selection (identical intervals)
    let time = 3_900_000_000u64 << 32;
    let sel: Vec<_> = leaps.iter().enumerate().map(|(i, l)| cluster_source(i as u64 + 1, 0, *l, 1).snap(time)).collect();
    let algo = selsim::algo_config(&W);
    c.inc("direct_vote_calls");
    match guard(|| hook::combine_direct(&algo, &sel)) {
        Ok(Some((_, got))) => {
            let got = got.map(selsim::leap_code);
            let want = majority(leaps);
            if got != want {
                let sig = if got.is_some() { "C04/direct-vote/announced-without-majority" } else { "C04/direct-vote/majority-not-announced" };
                c.violation(
                    sig,
                    format!("vote over {:?} gives {:?}, strict majority ignoring unknown is {:?}", leaps.iter().map(|l| leap_name(*l)).collect::<Vec<_>>(), got.map(leap_name), want.map(leap_name)),
                    json!({"selection_leaps": leaps.iter().map(|l| leap_name(*l)).collect::<Vec<_>>() }),
                );
            }
        }
        Ok(None) => {}
        Err(p) => c.harness_error(format!("panic in combine: {} {}", p.location, p.message)),
    }
}

fn add_decoys(c: &mut Case, pattern: u64, s: usize, opp: u8, center: i64, next_id: &mut u64, out: &mut Vec<(Syn, bool)>) {
    // (source, remove_after_first_delivery)
    let mut id = || {
        *next_id += 1;
        *next_id
    };
    match pattern {
        1 => {
            for _ in 0..s + 1 {
                let mut d = cluster_source(id(), center, opp, 1);
                d.usable = false;
                out.push((d, false));
            }
        }
        2 => {
            for k in 0..s + 1 {
                let mut d = cluster_source(id(), center, opp, 1);
                if k % 2 == 0 {
                    // too uncertain: radius > maximum
                    d.sigma = 600;
                } else {
                    // periodic source far outside the intersection
                    d.period = Some(1 << 16);
                    d.center = center + 20_000;
                    d.one_way = true;
                }
                out.push((d, false));
            }
            // an unsynchronised source inside the cluster (no vote at all, never selected)
            out.push((cluster_source(id(), center, 4, 1), false));
        }
        3 => {
            // far-away singletons: genuine voters that are not selected (cluster keeps the strict majority)
            for k in 0..s.saturating_sub(1) {
                let d = cluster_source(id(), center + 3000 * (k as i64 + 1) * if k % 2 == 0 { 1 } else { -1 }, opp, 1);
                out.push((d, false));
            }
            // removed sources that had delivered the opposite vote
            for _ in 0..s + 1 {
                out.push((cluster_source(id(), center, opp, 1), true));
            }
        }
        _ => {}
    }
}

fn run(c: &mut Case) {
    let time = (3_900_000_000u64 << 32) + c.rng.below(1 << 40);
    let mut rig = Rig::new(selsim::sync_config(1), selsim::algo_config(&W), time);
    let mut mon = Mon { indicator: 3, last_leap: HashMap::new(), decoy_pattern: 0, script: Vec::new() };
    if c.idx < EXHAUSTIVE {
        let ms = nth_multiset(c.idx % N_MULTISETS);
        let prev = ((c.idx / N_MULTISETS) % N_PREV) as u8;
        let pattern = c.idx / (N_MULTISETS * N_PREV);
        mon.decoy_pattern = pattern;
        let mut leaps: Vec<u8> = Vec::new();
        for (l, n) in ms.iter().enumerate() {
            for _ in 0..*n {
                leaps.push(l as u8);
            }
        }
        c.rng.shuffle(&mut leaps);
        let s = leaps.len();
        direct_vote(c, &leaps);
        let maj = majority(&leaps);
        // the opposite vote: a known flag different from the majority (or, without majority, different from prev)
        let opp = (0..3u8).find(|x| Some(*x) != maj && *x != prev).unwrap_or(0);
        if c.rng.bool() {
            rig.take_control();
            mon.script.push("take_control".into());
        }
        let mut next_id = 100u64;
        let mut decoys: Vec<(Syn, bool)> = Vec::new();
        add_decoys(c, pattern, s, opp, 0, &mut next_id, &mut decoys);
        let mut srcs: Vec<Syn> = (0..s).map(|i| cluster_source(i as u64 + 1, 0, if prev == 3 { 3 } else { prev }, 0)).collect();
        let ncl = srcs.len();
        srcs.extend(decoys.iter().map(|d| d.0.clone()));
        for s_ in &srcs {
            rig.add(s_);
            if s_.usable {
                rig.set_usable(s_.id, true);
            }
            mon.script.push(format!("add {} usable={}", s_.id, s_.usable));
        }
        // round 1: everybody delivers (cluster votes `prev`, decoys vote the opposite); decoys first or last
        let mut order: Vec<usize> = (0..srcs.len()).collect();
        if c.rng.bool() {
            order.rotate_left(ncl);
        }
        for i in order {
            if !deliver(c, &mut rig, &mut mon, &mut srcs, i, true) {
                return;
            }
            if i >= ncl && decoys[i - ncl].1 {
                rig.remove(srcs[i].id);
                mon.script.push(format!("remove {}", srcs[i].id));
            }
        }
        // round 2: the cluster changes to the multiset, one source at a time
        for i in 0..ncl {
            srcs[i].leap = leaps[i];
            if !deliver(c, &mut rig, &mut mon, &mut srcs, i, true) {
                return;
            }
        }
        // late data of a removed decoy must not matter either
        for i in ncl..srcs.len() {
            if decoys[i - ncl].1 && c.rng.chance(1, 3) {
                if !deliver(c, &mut rig, &mut mon, &mut srcs, i, false) {
                    return;
                }
            }
        }
        if c.wants_sample() && c.idx % 977 == 5 {
            c.sample(|| json!({"multiset_none_61_59_unknown": ms, "previous": leap_name(prev), "decoy_pattern": pattern, "final_indicator": leap_name(mon.indicator), "script": mon.script}));
        }
        return;
    }

    // random histories
    let s = c.rng.range(1, 9) as usize;
    let center = if c.rng.chance(1, 3) { c.rng.range(-400, 400) } else { 0 };
    let freq = if c.rng.chance(1, 3) { c.rng.range(1, 64) } else { 0 };
    let pattern = c.rng.below(N_DECOY);
    mon.decoy_pattern = 4 + pattern;
    if c.rng.bool() {
        rig.take_control();
        mon.script.push("take_control".into());
    }
    let weights: [u64; 4] = [c.rng.below(4) + 1, c.rng.below(3), c.rng.below(3), c.rng.below(3)];
    let mut draw = |c: &mut Case| -> u8 {
        let tot: u64 = weights.iter().sum();
        let mut r = c.rng.below(tot);
        for (l, w_) in weights.iter().enumerate() {
            if r < *w_ {
                return l as u8;
            }
            r -= *w_;
        }
        0
    };
    let mut srcs: Vec<Syn> = (0..s).map(|i| cluster_source(i as u64 + 1, center, 0, freq)).collect();
    for x in srcs.iter_mut() {
        x.leap = draw(c);
    }
    let ncl = s;
    let mut decoys: Vec<(Syn, bool)> = Vec::new();
    let mut next_id = 100u64;
    let opp = c.rng.below(3) as u8;
    add_decoys(c, pattern, s, opp, center, &mut next_id, &mut decoys);
    srcs.extend(decoys.iter().map(|d| d.0.clone()));
    let mut registered = vec![true; srcs.len()];
    for s_ in &srcs {
        rig.add(s_);
        if s_.usable {
            rig.set_usable(s_.id, true);
        }
        mon.script.push(format!("add {} usable={}", s_.id, s_.usable));
    }
    let rounds = c.rng.range(3, 6);
    for round in 0..rounds {
        let mut order: Vec<usize> = (0..srcs.len()).collect();
        c.rng.shuffle(&mut order);
        for i in order {
            if !registered[i] && !c.rng.chance(1, 4) {
                continue;
            }
            if i < ncl {
                if round > 0 && c.rng.chance(1, 2) {
                    srcs[i].leap = draw(c);
                }
                if c.rng.chance(1, 10) {
                    srcs[i].usable = !srcs[i].usable;
                    rig.set_usable(srcs[i].id, srcs[i].usable);
                    mon.script.push(format!("usable {} {}", srcs[i].id, srcs[i].usable));
                }
                if c.rng.chance(1, 40) {
                    // becomes unsynchronised for a while
                    srcs[i].leap = 4;
                }
            } else if round > 0 && c.rng.chance(1, 3) {
                srcs[i].leap = c.rng.below(3) as u8;
            }
            if !deliver(c, &mut rig, &mut mon, &mut srcs, i, registered[i]) {
                return;
            }
            if i >= ncl && decoys[i - ncl].1 && registered[i] {
                rig.remove(srcs[i].id);
                registered[i] = false;
                mon.last_leap.remove(&srcs[i].id);
                mon.script.push(format!("remove {}", srcs[i].id));
            }
        }
        if c.rng.chance(1, 4) {
            // slew-end timer update: must not touch the indicator
            let r = guard(|| rig.time_update());
            mon.script.push("time_update".into());
            if let Ok(obs) = r {
                judge(c, &mut mon, &obs, &srcs);
            }
        }
    }
}
