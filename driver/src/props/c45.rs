//! C45 — CSPTP servers answer only requests, with correct echoes.
//!
//! Events: every datagram the real `statime_csptp::serve` passes to `send_event` / `send_general` of a
//! scripted `ServerSocket`, tagged with the input datagram it was handling.
//! Oracle: the harness's own byte-level decoder (common/ptpsim.rs) classifies the input and decodes the
//! answers; echoes are compared with what the script put in (domain, sequence id, correction field,
//! reception timestamp handed over by the socket, send timestamp returned by the socket).

use std::cell::RefCell;
use std::collections::VecDeque;
use std::rc::Rc;

use crate::common::ptpsim::{self, Flag, RawMsg, RawTlv, Sim};
use crate::core::{Case, Profiles, Prop, Tier, guard, hex};
use ntp_proto::NtpLeapIndicator;
use serde_json::json;
use statime_csptp::{CsptpConfig, CsptpManager, CsptpState, InternalState, ServerRecvResult, ServerSocket, serve};
use statime_wire::{ClockAccuracy, ClockIdentity, ClockQuality, Timestamp};

pub static PROP: Prop = Prop {
    id: "C45",
    level: "exploration",
    rule: "case = one server (leap state of its snapshot one of NoWarning/Leap61/Leap59/Unknown/Unsynchronized, random CSPTP state incl. \
           stepsRemoved 65535) fed a script of 1-12 datagrams: canonical requests over all header fields (domain, sequence id, correction \
           incl. +-2^63, every flag, status bit on/off), request variants (extra/duplicate/empty/odd TLVs, wrong sdoId/version, padding, \
           >512 bytes), responses and follow-ups replayed at the server, all other PTP message types (also carrying a request TLV), \
           mutated requests, garbage, receive errors; send_event/send_general fail on script. Every send is attributed to the datagram \
           being handled. Non-trivial = shape signature (input class, answered?, send-error pattern, leap state); distinct signatures \
           are counted.",
    assumptions: &[
        "an input counts as a request for the 'answers only requests' clause when the harness decoder sees a PTP Sync message (34-byte header, messageLength within the datagram, 10-byte body) carrying exactly one CSPTP request TLV (0xff00) and no CSPTP response TLV; sdoId/version/TLV-shape strictness is counted, not judged",
        "whether every valid request is answered is counted (canonical_unanswered), not judged: the statement only constrains answers",
    ],
    profiles: Profiles::Both,
    cases: |t| t.pick(150_000, 2_000_000),
    budget_s: |t| t.pick(30, 300),
    run,
    min_nontrivial: 60,
    required_counters: &["inputs", "requests_answered", "non_requests_silent", "event_echo_checked", "follow_up_checked", "send_error_injected"],
    exhaustive: false,
    crash_is_violation: false,
};

#[derive(Clone)]
struct Input {
    class: &'static str,
    /// None = the socket reports a receive error
    bytes: Option<Vec<u8>>,
    rx: (u64, u32),
    remote: u32,
    local: u32,
    /// result of send_event while handling this input: Some(ts) = Ok(ts)
    send_event: Option<(u64, u32)>,
    send_general_ok: bool,
}

#[derive(Clone, Debug)]
enum Sent {
    Event { input: usize, bytes: Vec<u8>, from: u32, to: u32 },
    General { input: usize, bytes: Vec<u8>, from: u32, to: u32 },
}

struct Shared {
    script: VecDeque<Input>,
    current: usize, // index of the input being handled (1-based count of recv returns) - 1
    started: bool,
    sent: Vec<Sent>,
    done: Rc<std::cell::Cell<bool>>,
    seen: Vec<Vec<u8>>, // what the server saw (after truncation to its buffer)
}

struct Sock(Rc<RefCell<Shared>>);

impl ServerSocket for Sock {
    type Addr = u32;
    type Error = ();

    async fn recv(&mut self, buf: &mut [u8]) -> Result<ServerRecvResult<u32>, ()> {
        let next = {
            let mut s = self.0.borrow_mut();
            match s.script.pop_front() {
                Some(i) => {
                    if s.started {
                        s.current += 1;
                    }
                    s.started = true;
                    Some(i)
                }
                None => {
                    s.done.set(true);
                    None
                }
            }
        };
        let Some(i) = next else {
            ptpsim::Never.await;
            unreachable!()
        };
        match i.bytes {
            None => {
                self.0.borrow_mut().seen.push(vec![]);
                Err(())
            }
            Some(b) => {
                let n = b.len().min(buf.len());
                buf[..n].copy_from_slice(&b[..n]);
                self.0.borrow_mut().seen.push(b[..n].to_vec());
                Ok(ServerRecvResult {
                    bytes_read: n,
                    remote_addr: i.remote,
                    local_addr: i.local,
                    timestamp: Timestamp::new(i.rx.0, i.rx.1).expect("harness: rx timestamp in range"),
                })
            }
        }
    }

    async fn send_event(&mut self, buf: &[u8], from: u32, to: u32) -> Result<Timestamp, ()> {
        let mut s = self.0.borrow_mut();
        let input = s.current;
        s.sent.push(Sent::Event { input, bytes: buf.to_vec(), from, to });
        // the script entry of the current input was popped; its send results were copied to `results`
        drop(s);
        let r = RESULTS.with(|r| r.borrow().get(input).cloned());
        match r.and_then(|r| r.0) {
            Some((sec, ns)) => Ok(Timestamp::new(sec, ns).expect("harness: tx timestamp in range")),
            None => Err(()),
        }
    }

    async fn send_general(&mut self, buf: &[u8], from: u32, to: u32) -> Result<(), ()> {
        let mut s = self.0.borrow_mut();
        let input = s.current;
        s.sent.push(Sent::General { input, bytes: buf.to_vec(), from, to });
        drop(s);
        let ok = RESULTS.with(|r| r.borrow().get(input).map(|r| r.1).unwrap_or(true));
        if ok { Ok(()) } else { Err(()) }
    }
}

thread_local! {
    /// per input: (send_event result, send_general ok) — read by the socket while an input is handled
    static RESULTS: RefCell<Vec<(Option<(u64, u32)>, bool)>> = const { RefCell::new(Vec::new()) };
}

fn gen_local_ts(c: &mut Case) -> (u64, u32) {
    let s = match c.rng.below(6) {
        0 => 0,
        1 => (1u64 << 48) - 1,
        2 => (1u64 << 32) - 1 + c.rng.below(3),
        _ => 1_600_000_000 + c.rng.below(500_000_000),
    };
    let n = match c.rng.below(4) {
        0 => 0,
        1 => 999_999_999,
        _ => c.rng.below(1_000_000_000) as u32,
    };
    (s, n)
}

fn canonical_request(c: &mut Case) -> RawMsg {
    let mut m = RawMsg::csptp(ptpsim::T_SYNC, c.rng.u8(), c.rng.edge_u64() as u16);
    m.correction = match c.rng.below(4) {
        0 => 0,
        1 => *c.rng.pick(&[i64::MIN, i64::MAX, -1, 1, 1 << 16, -(1 << 16)]),
        _ => c.rng.edge_i64(),
    };
    if c.rng.chance(1, 3) {
        // every defined flag bit is fair game in a request
        m.flags = [c.rng.u8() & 0x67, c.rng.u8() & 0x7f];
    }
    if c.rng.chance(1, 3) {
        c.rng.fill(&mut m.port_identity);
    }
    if c.rng.chance(1, 4) {
        m.version = 0x02 | ((c.rng.below(16) as u8) << 4); // any minor version
    }
    if c.rng.chance(1, 4) {
        m.log_interval = c.rng.u8();
    }
    if c.rng.chance(1, 4) {
        let n = c.rng.below(1_000_000_000) as u32;
        m.body = ptpsim::ts_bytes(c.rng.below(1 << 48), n).to_vec();
    }
    m.tlvs.push(ptpsim::csptp_request_tlv(c.rng.below(4) as u8));
    m
}

fn gen_input(c: &mut Case) -> Input {
    let kind = c.rng.below(20);
    let (class, bytes): (&'static str, Option<Vec<u8>>) = match kind {
        0..=6 => ("request", Some(canonical_request(c).encode())),
        7 => {
            // request with additional TLVs around the request TLV
            let mut m = canonical_request(c);
            let n = c.rng.usize(1, 3);
            for _ in 0..n {
                let l = 2 * c.rng.usize(0, 10);
                let t = RawTlv::new(*c.rng.pick(&[0x8008u16, 0x0003, 0x2004, 0x7fff, ptpsim::TLV_CSPTP_STATUS]), c.rng.bytes(l));
                if c.rng.bool() {
                    m.tlvs.insert(0, t);
                } else {
                    m.tlvs.push(t);
                }
            }
            ("request+tlvs", Some(m.encode()))
        }
        8 => {
            let mut m = canonical_request(c);
            let (cl, _) = match c.rng.below(7) {
                0 => {
                    m.tlvs[0].value.clear();
                    ("request-empty-tlv", ())
                }
                1 => {
                    let l = *c.rng.pick(&[1usize, 2, 3, 6, 40]);
                    m.tlvs[0].value = c.rng.bytes(l);
                    ("request-tlv-len", ())
                }
                2 => {
                    m.tlvs.push(ptpsim::csptp_request_tlv(1));
                    ("request-twice", ())
                }
                3 => {
                    m.tlvs.push(ptpsim::csptp_response_tlv((1, 2), 3));
                    ("request+response", ())
                }
                4 => {
                    m.major_sdo = c.rng.below(16) as u8;
                    m.minor_sdo = if c.rng.bool() { 0 } else { c.rng.u8() };
                    ("request-sdo", ())
                }
                5 => {
                    m.version = c.rng.u8();
                    ("request-version", ())
                }
                _ => {
                    let l = c.rng.usize(1, 4);
                    m.trailer = c.rng.bytes(l);
                    ("request-trailer", ())
                }
            };
            (cl, Some(m.encode()))
        }
        9 => {
            // datagram longer than the message / longer than the server's buffer
            let mut d = canonical_request(c).encode();
            let extra = if c.rng.bool() { c.rng.usize(1, 60) } else { c.rng.usize(460, 700) };
            d.extend_from_slice(&c.rng.bytes(extra));
            ("request-padded", Some(d))
        }
        10 | 11 => {
            // a response replayed at the server
            let mut m = RawMsg::csptp(ptpsim::T_SYNC, c.rng.u8(), c.rng.u16());
            if c.rng.bool() {
                m.flags[0] |= ptpsim::FLAG0_TWO_STEP;
            }
            m.tlvs.push(ptpsim::csptp_response_tlv((c.rng.below(1 << 48), c.rng.below(1_000_000_000) as u32), c.rng.edge_i64()));
            if c.rng.bool() {
                m.tlvs.push(ptpsim::csptp_status_tlv(c.rng.u8(), [248, 0xfe, 0, 0], c.rng.u8(), c.rng.u16(), 37, [7; 8]));
            }
            ("response", Some(m.encode()))
        }
        12 => {
            let mut m = RawMsg::csptp(ptpsim::T_FOLLOW_UP, c.rng.u8(), c.rng.u16());
            m.flags[0] |= ptpsim::FLAG0_TWO_STEP;
            if c.rng.chance(1, 3) {
                m.tlvs.push(ptpsim::csptp_request_tlv(1)); // a follow-up is not a request even with the TLV
            }
            ("follow-up", Some(m.encode()))
        }
        13 | 14 => {
            // other message types, half of them carrying a request TLV
            let t = *c.rng.pick(&[
                ptpsim::T_DELAY_REQ,
                ptpsim::T_PDELAY_REQ,
                ptpsim::T_PDELAY_RESP,
                ptpsim::T_DELAY_RESP,
                ptpsim::T_PDELAY_RESP_FUP,
                ptpsim::T_ANNOUNCE,
                ptpsim::T_SIGNALING,
                ptpsim::T_MANAGEMENT,
            ]);
            let mut m = RawMsg::csptp(t, c.rng.u8(), c.rng.u16());
            if c.rng.bool() {
                m.tlvs.push(ptpsim::csptp_request_tlv(1));
            }
            ("other-type", Some(m.encode()))
        }
        15 => {
            // sync without any CSPTP TLV
            let mut m = RawMsg::csptp(ptpsim::T_SYNC, c.rng.u8(), c.rng.u16());
            if c.rng.bool() {
                m.tlvs.push(RawTlv::new(0x8008, vec![0; 4]));
            }
            ("plain-sync", Some(m.encode()))
        }
        16 | 17 => {
            let mut d = canonical_request(c).encode();
            ptpsim::mutate(&mut c.rng, &mut d);
            ("mutated-request", Some(d))
        }
        18 => {
            let n = match c.rng.below(3) {
                0 => 0,
                1 => c.rng.usize(1, 60),
                _ => c.rng.usize(34, 600),
            };
            ("garbage", Some(c.rng.bytes(n)))
        }
        _ => ("recv-error", None),
    };
    let send_event = if c.rng.chance(1, 6) { None } else { Some(gen_local_ts(c)) };
    Input {
        class,
        bytes,
        rx: gen_local_ts(c),
        remote: c.rng.u32(),
        local: c.rng.u32(),
        send_event,
        send_general_ok: !c.rng.chance(1, 8),
    }
}

fn run(c: &mut Case) {
    // ---- server state ----
    let leap = *c.rng.pick(&[
        NtpLeapIndicator::NoWarning,
        NtpLeapIndicator::Leap61,
        NtpLeapIndicator::Leap59,
        NtpLeapIndicator::Unknown,
        NtpLeapIndicator::Unsynchronized,
    ]);
    let manager: CsptpManager<RefCell<InternalState>> = CsptpManager::new(CsptpConfig::default());
    statime_csptp::verif::a9::set_leap(&manager, leap);
    if c.rng.bool() {
        let mut id = [0u8; 8];
        c.rng.fill(&mut id);
        statime_csptp::verif::a9::set_csptp_state(
            &manager,
            CsptpState {
                grandmaster_identity: ClockIdentity(id),
                grandmaster_priority_1: c.rng.u8(),
                grandmaster_priority_2: c.rng.u8(),
                grandmaster_clock_quality: ClockQuality {
                    clock_class: c.rng.u8(),
                    clock_accuracy: ClockAccuracy::Unknown,
                    offset_scaled_log_variance: c.rng.u16(),
                },
                steps_removed: *c.rng.pick(&[0u16, 1, 65534, 65535]),
                ptp_timescale: c.rng.bool(),
                time_traceable: c.rng.bool(),
                frequency_traceable: c.rng.bool(),
            },
        );
    }
    // ---- script ----
    let n = c.rng.usize(1, 12);
    let script: Vec<Input> = (0..n).map(|_| gen_input(c)).collect();
    RESULTS.with(|r| *r.borrow_mut() = script.iter().map(|i| (i.send_event, i.send_general_ok)).collect());
    let done = Rc::new(std::cell::Cell::new(false));
    let shared = Rc::new(RefCell::new(Shared {
        script: script.iter().cloned().collect(),
        current: 0,
        started: false,
        sent: vec![],
        done: done.clone(),
        seen: vec![],
    }));
    let sim = Sim::new();
    let res = guard(|| sim.block_on(serve(Sock(shared.clone()), Flag(done.clone()), &manager), 10_000));
    let script_json = || {
        json!(script.iter().map(|i| json!({
            "class": i.class, "datagram": i.bytes.as_ref().map(|b| hex(b)), "rx_timestamp": [i.rx.0, i.rx.1],
            "send_event_result": i.send_event.map(|t| vec![t.0, t.1 as u64]), "send_general_ok": i.send_general_ok,
        })).collect::<Vec<_>>())
    };
    match res {
        Err(p) => {
            // a crash is not what this property is about; what was sent before it is still judged
            c.inc("serve_panicked");
            c.count(&format!("serve_panicked_at/{}", p.site()), 1);
        }
        Ok(None) => {
            c.harness_error("serve() did not finish after the script was exhausted".to_string());
            return;
        }
        Ok(Some(())) => {}
    }
    let sh = shared.borrow();
    let leap_name = format!("{leap:?}");
    for (idx, inp) in script.iter().enumerate() {
        if idx >= sh.seen.len() {
            break; // never delivered (panic before)
        }
        c.inc("inputs");
        let seen = &sh.seen[idx];
        let events: Vec<&Sent> = sh.sent.iter().filter(|s| matches!(s, Sent::Event { input, .. } | Sent::General { input, .. } if *input == idx)).collect();
        let n_event = events.iter().filter(|s| matches!(s, Sent::Event { .. })).count();
        let n_general = events.len() - n_event;
        let dec = if inp.bytes.is_some() { ptpsim::decode(seen) } else { None };
        // a datagram carrying more than one CSPTP request/response TLV (two requests, or a request and a response) is
        // contradictory and not a well-formed request
        let ambiguous = dec.as_ref().map(|m| m.count_tlv(ptpsim::TLV_CSPTP_REQUEST) + m.count_tlv(ptpsim::TLV_CSPTP_RESPONSE) >= 2).unwrap_or(false);
        if ambiguous {
            c.inc("ambiguous_csptp_tlvs_inputs");
        }
        let lenient_request = !ambiguous && dec.as_ref().map(|m| m.msg_type == ptpsim::T_SYNC && m.count_tlv(ptpsim::TLV_CSPTP_REQUEST) >= 1).unwrap_or(false);
        let strict_request = dec
            .as_ref()
            .map(|m| {
                m.msg_type == ptpsim::T_SYNC
                    && m.sdo() == 0x300
                    && ptpsim::ts_parse(&m.body[0..10]).1 <= 1_000_000_000
                    && m.version & 0x0f == 2
                    && m.trailer.is_empty()
                    && m.len_override.map(|l| l as usize) == Some(34 + 10 + m.tlvs.iter().map(|t| 4 + t.value.len()).sum::<usize>())
                    && m.count_tlv(ptpsim::TLV_CSPTP_REQUEST) == 1
                    && m.count_tlv(ptpsim::TLV_CSPTP_RESPONSE) == 0
                    && m.tlvs.iter().all(|t| t.value.len() % 2 == 0)
                    && m.find_tlv(ptpsim::TLV_CSPTP_REQUEST).map(|t| t.value.len() >= 4).unwrap_or(false)
            })
            .unwrap_or(false);
        let detail = || {
            json!({
                "input_index": idx, "input_class": inp.class, "input_as_seen_by_server": hex(seen), "leap_state": leap_name,
                "sent_for_this_input": events.iter().map(|s| match s {
                    Sent::Event { bytes, .. } => json!({"send_event": hex(bytes)}),
                    Sent::General { bytes, .. } => json!({"send_general": hex(bytes)}),
                }).collect::<Vec<_>>(),
                "script": script_json(),
            })
        };
        c.sig_of(&(inp.class, n_event.min(2), n_general.min(2), inp.send_event.is_some(), inp.send_general_ok, &leap_name, strict_request));
        if events.is_empty() {
            if lenient_request {
                if strict_request {
                    c.inc("canonical_unanswered");
                    let last_empty = dec.as_ref().and_then(|m| m.tlvs.last()).map(|t| t.value.is_empty()).unwrap_or(false);
                    c.inc(if last_empty { "canonical_unanswered/last_tlv_empty" } else { "canonical_unanswered/other" });
                } else {
                    c.inc("odd_request_unanswered");
                }
            } else {
                c.inc("non_requests_silent");
            }
            continue;
        }
        // ---- something was sent while handling this input ----
        if !lenient_request {
            c.violation(
                format!("answered-non-request/{}", inp.class),
                format!("the server sent {n_event} event and {n_general} general datagram(s) for an input that is not a CSPTP request ({})", inp.class),
                detail(),
            );
            continue;
        }
        if !strict_request {
            c.inc("odd_request_answered");
        }
        c.inc("requests_answered");
        let req = dec.expect("lenient_request implies decoded");
        if n_event != 1 {
            c.violation(
                "answer/event-count",
                format!("{n_event} event messages were sent for one request (expected exactly one)"),
                detail(),
            );
            continue;
        }
        if !matches!(events[0], Sent::Event { .. }) {
            c.violation("answer/general-before-event", "a general message was sent before the event message of the answer".to_string(), detail());
            continue;
        }
        let Sent::Event { bytes: ev, from, to, .. } = events[0] else { unreachable!() };
        if *from != inp.local || *to != inp.remote {
            c.inc("address_not_mirrored");
        }
        let Some(resp) = ptpsim::decode(ev) else {
            c.violation("answer/undecodable", "the event message sent as answer is not a decodable PTP message".to_string(), detail());
            continue;
        };
        c.inc("event_echo_checked");
        if resp.msg_type != ptpsim::T_SYNC {
            c.violation("answer/not-sync", format!("the answer has message type {:#x}, not Sync", resp.msg_type), detail());
        }
        if resp.domain != req.domain {
            c.violation("answer/domain", format!("request domain {}, answer domain {}", req.domain, resp.domain), detail());
        }
        if resp.sequence_id != req.sequence_id {
            c.violation("answer/sequence-id", format!("request sequence id {}, answer sequence id {}", req.sequence_id, resp.sequence_id), detail());
        }
        match resp.find_tlv(ptpsim::TLV_CSPTP_RESPONSE) {
            None => c.violation("answer/no-response-tlv", "the answer carries no CSPTP response TLV".to_string(), detail()),
            Some(t) if t.value.len() < 18 => c.violation("answer/short-response-tlv", "the CSPTP response TLV is shorter than 18 bytes".to_string(), detail()),
            Some(t) => {
                let got_ts = ptpsim::ts_parse(&t.value[0..10]);
                let got_corr = i64::from_be_bytes(t.value[10..18].try_into().unwrap());
                if got_ts != inp.rx {
                    c.violation(
                        "answer/ingress-timestamp",
                        format!("the request was received at {:?}, the answer reports reqIngressTimestamp {:?}", inp.rx, got_ts),
                        detail(),
                    );
                }
                if got_corr != req.correction {
                    c.violation(
                        "answer/correction-field",
                        format!("request correctionField {}, answer reqCorrectionField {}", req.correction, got_corr),
                        detail(),
                    );
                }
            }
        }
        if req.find_tlv(ptpsim::TLV_CSPTP_REQUEST).map(|t| t.value.first().map(|f| f & 1 != 0).unwrap_or(false)).unwrap_or(false)
            && resp.find_tlv(ptpsim::TLV_CSPTP_STATUS).is_none()
        {
            c.inc("status_requested_not_sent");
        }
        // ---- follow-up ----
        let generals: Vec<&Vec<u8>> = events.iter().filter_map(|s| if let Sent::General { bytes, .. } = s { Some(bytes) } else { None }).collect();
        match inp.send_event {
            None => {
                c.inc("send_error_injected");
                if !generals.is_empty() {
                    c.inc("follow_up_after_failed_send");
                }
            }
            Some(tx) => {
                if !inp.send_general_ok {
                    c.inc("send_error_injected");
                }
                if resp.two_step() {
                    if generals.len() != 1 {
                        c.violation(
                            "follow-up/count",
                            format!("a two-step answer was sent successfully but {} follow-up messages followed (expected one)", generals.len()),
                            detail(),
                        );
                        continue;
                    }
                    let Some(fu) = ptpsim::decode(generals[0]) else {
                        c.violation("follow-up/undecodable", "the general message after the answer is not a decodable PTP message".to_string(), detail());
                        continue;
                    };
                    c.inc("follow_up_checked");
                    if fu.msg_type != ptpsim::T_FOLLOW_UP {
                        c.violation("follow-up/type", format!("the message after a two-step answer has type {:#x}, not Follow_Up", fu.msg_type), detail());
                        continue;
                    }
                    if fu.domain != req.domain || fu.sequence_id != req.sequence_id {
                        c.violation(
                            "follow-up/ids",
                            format!("follow-up domain/sequence {}/{} differ from the request's {}/{}", fu.domain, fu.sequence_id, req.domain, req.sequence_id),
                            detail(),
                        );
                    }
                    let got = ptpsim::ts_parse(&fu.body[0..10]);
                    if got != tx {
                        c.violation(
                            "follow-up/send-timestamp",
                            format!("the socket reported send time {:?} for the answer, the follow-up carries {:?} (request received at {:?})", tx, got, inp.rx),
                            detail(),
                        );
                    }
                } else {
                    c.inc("one_step_answers");
                    if !generals.is_empty() {
                        c.inc("general_after_one_step");
                    }
                }
            }
        }
        c.sample(|| detail());
    }
}
