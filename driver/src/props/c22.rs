//! C22 — no datagram can crash the NTP server.
//!
//! Events: panic (caught per datagram) or worker death inside the real `Server::handle`, in the
//! release-semantics and the debug-semantics build. Oracle: none occurs.

use crate::common::srvsim as sim;
use crate::core::{Case, Profiles, Prop, Tier, hex};
use serde_json::json;

pub static PROP: Prop = Prop {
    id: "C22",
    level: "exploration",
    rule: "case = one real Server (random deny/allow lists and actions, require-nts, accepted versions, rate-limit cache, \
           synchronisation state of class normal/zero/stale/race, key set with 0-5 rotations and history 0-3) handling 24 \
           datagrams from the E-SRV generators (valid grammar v3/v4/v5 plain/upgrade/NTS with real cookies, failing NTS plans, \
           RFC-bending but parsable layouts, 14 byte-level mutations, raw bytes 0..1024) from addresses inside/outside/at the \
           edges of the lists, with the daemon's request-sized buffer (1 in 8: 0..47-byte or 8 KiB buffer). Non-trivial = the \
           datagram reached Server::handle; distinct = (generator class, layout fingerprint, outcome, registered reason, state class).",
    assumptions: &[
        "synchronisation states are physically meaningful: variances form a positive semi-definite pair, root delay >= 0; 'stale' = up to 2^31 s since the last clock update with wander <= 1e-8, 'race' = reception timestamp up to 10 s before the last update (kernel timestamp taken before a clock update/backward step)",
        "the violation signature names the panic site and build profile; the state class and the datagram are in the detail",
    ],
    profiles: Profiles::Both,
    cases: |t| t.pick(40_000, 1_500_000),
    budget_s: |t| t.pick(40, 400),
    run,
    min_nontrivial: 500,
    required_counters: &["datagrams", "answered", "ignored", "nts_time_answers", "raw_datagrams", "mutated_datagrams"],
    exhaustive: false,
    crash_is_violation: true,
};

fn run(c: &mut Case) {
    let recv = c.rng.u64();
    let cfg = sim::gen_cfg(&mut c.rng, sim::CfgOpts { lists: true, rate: sim::RateMode::Any, require_nts: true, version_subsets: true });
    let (spec, info) = sim::gen_info(&mut c.rng, recv, true);
    let keys = match sim::gen_keys(&mut c.rng, 5, 3) {
        Ok(k) => k,
        Err(e) => return c.harness_error(e),
    };
    let now = recv.wrapping_add(c.rng.below(1 << 30));
    let mut w = match sim::build_world(cfg, spec, info, keys, now) {
        Ok(w) => w,
        Err(e) => return c.harness_error(e),
    };
    let mut spy = sim::Spy::default();
    let label = "handle".to_string();
    for k in 0..24 {
        let req = match sim::gen_any(&mut c.rng, &w.keys) {
            Ok(r) => r,
            Err(e) => {
                c.harness_error(e);
                continue;
            }
        };
        // most clients are permitted so that the deep paths are reached
        let ip = if c.rng.chance(1, 3) { sim::gen_client(&mut c.rng, &w.cfg) } else { permitted_client(c, &w.cfg) };
        let buf_len = match c.rng.below(16) {
            0 => c.rng.usize(0, 47),
            1 => 8192,
            _ => req.bytes.len(),
        };
        let recv_k = recv.wrapping_add(k * 1000);
        c.inc("datagrams");
        if req.truth.class == "raw" {
            c.inc("raw_datagrams");
        }
        if req.truth.class.starts_with("mut/") {
            c.inc("mutated_datagrams");
        }
        let server = &mut w.server;
        let spy_ref = &mut spy;
        let cfgj = w.cfg.json();
        let infoj = w.info.json();
        let bytes = req.bytes.clone();
        let h = c.no_panic(
            &label,
            || json!({"datagram": hex(&bytes), "client": ip.to_string(), "buffer": buf_len, "recv_timestamp": format!("{recv_k:016x}"), "config": cfgj, "state": infoj, "class": req.truth.class}),
            || sim::handle_buf(server, spy_ref, ip, recv_k, &req.bytes, buf_len),
        );
        let Some(h) = h else {
            // the server object may be in an arbitrary state after an unwound panic: stop this case
            return;
        };
        let kind = match &h.reply {
            None => {
                c.inc("ignored");
                0u8
            }
            Some(r) => {
                c.inc("answered");
                match crate::common::refntp::parse_header(r).map(|h| sim::classify(&h)) {
                    Some(sim::ReplyKind::Time) => {
                        if req.truth.nts.is_some() {
                            c.inc("nts_time_answers");
                        }
                        1
                    }
                    Some(sim::ReplyKind::Deny) => 2,
                    Some(sim::ReplyKind::Nak) => 3,
                    _ => 4,
                }
            }
        };
        let reason = h.regs.first().map(|r| format!("{:?}", r.reason)).unwrap_or_default();
        c.sig_of(&(&req.truth.class, req.truth.shape, kind, reason, w.info.class));
        if k == 0 {
            c.sample(|| json!({"request": req.json(), "client": ip.to_string(), "config": w.cfg.json(), "state": w.info.json(), "reply": h.reply.as_ref().map(|r| hex(r))}));
        }
    }
}

fn permitted_client(c: &mut Case, cfg: &sim::CfgSpec) -> std::net::IpAddr {
    for _ in 0..20 {
        let ip = sim::gen_client(&mut c.rng, cfg);
        if sim::list_verdict(&cfg.deny, ip) == sim::ListVerdict::Out && sim::list_verdict(&cfg.allow, ip) == sim::ListVerdict::In {
            return ip;
        }
    }
    sim::gen_client(&mut c.rng, cfg)
}

struct FuzzWorld {
    w: sim::World,
    spy: sim::Spy,
}

fn fuzz_world() -> Result<FuzzWorld, String> {
    // fixed world: permissive lists, no rate limiting, all versions, fixed key set (so NTS cookies in the seed corpus stay valid)
    let mut rng = crate::core::Rng::new(0x5EED_C22);
    let cfg = sim::gen_cfg(&mut rng, sim::CfgOpts { lists: false, rate: sim::RateMode::Off, require_nts: false, version_subsets: false });
    let (spec, info) = sim::gen_info(&mut rng, 0x8000_0000_0000_0000, false);
    let keys = sim::gen_keys(&mut rng, 2, 2)?;
    let w = sim::build_world(cfg, spec, info, keys, 0x8000_0000_0000_1000)?;
    Ok(FuzzWorld { w, spy: sim::Spy::default() })
}

thread_local! {
    static FUZZ_W: std::cell::RefCell<Option<FuzzWorld>> = const { std::cell::RefCell::new(None) };
}

/// byte-driven entry (libFuzzer tier): one datagram against a fixed server with the daemon's request-sized
/// buffer. Oracles: no panic (C22), reply no longer than the request (C16), exactly one statistics entry (C21).
pub fn fuzz_bytes(c: &mut Case, data: &[u8]) {
    if data.len() > 1024 {
        return;
    }
    FUZZ_W.with(|cell| {
        let mut g = cell.borrow_mut();
        if g.is_none() {
            match fuzz_world() {
                Ok(w) => *g = Some(w),
                Err(e) => return c.harness_error(e),
            }
        }
        let fw = g.as_mut().unwrap();
        let ip: std::net::IpAddr = "192.0.2.7".parse().unwrap();
        fw.spy.regs.clear();
        let server = &mut fw.w.server;
        let spy = &mut fw.spy;
        let h = c.no_panic("handle", || json!({"datagram": hex(data), "class": "fuzz"}), || sim::handle_buf(server, spy, ip, 0x8000_0000_0000_2000, data, data.len()));
        match h {
            None => {
                // the server may be in an arbitrary state after an unwound panic
                *g = None;
            }
            Some(h) => {
                if let Some(r) = &h.reply {
                    if r.len() > data.len() {
                        c.violation("fuzz/amplify", format!("reply of {} bytes to a request of {} bytes", r.len(), data.len()), json!({"datagram": hex(data), "reply": hex(r)}));
                    }
                }
                if h.regs.len() != 1 {
                    c.violation("fuzz/stats-count", format!("{} statistics entries for one datagram", h.regs.len()), json!({"datagram": hex(data)}));
                }
            }
        }
    });
}

/// seed corpus for the fuzz tier: datagrams from the request grammar built with the fixed fuzz world's keys
pub fn fuzz_corpus(n: usize) -> Vec<Vec<u8>> {
    let mut rng = crate::core::Rng::new(0xC0FFEE22);
    let Ok(fw) = fuzz_world() else { return vec![] };
    (0..n).filter_map(|_| sim::gen_any(&mut rng, &fw.w.keys).ok().map(|r| r.bytes)).filter(|b| b.len() <= 1024).collect()
}
