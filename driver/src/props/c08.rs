//! C08 — a source only uses fresh answers to its own pending request.
//!
//! Events: spy `handle_measurement` events per delivered datagram, `unanswered_polls` before
//! and after each delivery, actions. Ground truth (harness bookkeeping + independent decoder):
//! which request a datagram echoes, its age in virtual time, version / mode / stratum bytes,
//! whether a measurement was already observed for the most recent request.
//!
//! Oracle: a measurement (or a reachability update) caused by a datagram requires that the
//! datagram echoes the identifier of the MOST RECENT request, arrived <= 5 s after that request
//! was sent, has the request's protocol version, mode 4, stratum 1..=16 (so no KISS), and that
//! no measurement was delivered for that request before. The measurement pair must be exactly
//! one outgoing + one incoming half carrying this datagram's T2/T3 and the daemon's T1/T4.
//! Not judged: arrival at exactly 5 s, v3 answers to plain v4 requests (both may or may not be
//! used), non-use of any datagram (C08 is a safety statement; C11 covers the other direction).

use std::time::Duration;

use crate::common::refntp;
use crate::common::srcasim::{self as sim, Answer, Datagram, Mangle, Mode, RealServer, Sim, Spy, Step, Tri, WINDOW};
use crate::core::{Case, Profiles, Prop, Tier, hex};
use serde_json::json;

pub static PROP: Prop = Prop {
    id: "C08",
    level: "exploration",
    rule: "case = one session of a real plain NtpSource (mode v4/v5/auto by index, poll limits from {0,2,3,4,6}) in virtual time; \
           after every request 0..5 datagrams are scheduled: the genuine answer (byte-built or from the real Server) at a delay \
           from {ms, <1 s, 5 s-1 ns, 5 s, 5 s+1 ns, several poll intervals}, duplicates, replays of earlier accepted answers, and \
           mangled copies (foreign/bit-flipped/older origin, other version, mode != 4, stratum 0/17+, KISS codes). \
           Shape signature = (mode, datagram kind, reasons the ground truth gives against use, used or not, arrival class).",
    assumptions: &[
        "plain (non-NTS) sources: no unique-identifier field is in play",
        "handle_incoming is called the way the daemon does: T1 = local clock at the last send, T4 = local clock at delivery",
    ],
    profiles: Profiles::Both,
    cases: |t| t.pick(40_000, 800_000),
    budget_s: |t| t.pick(60, 900),
    run,
    min_nontrivial: 80,
    required_counters: &[
        "datagrams_delivered",
        "accepted",
        "accepted_at_5s_minus_1ns",
        "refused_at_5s_plus_1ns",
        "refused_late",
        "refused_duplicate_or_replay",
        "refused_older_request",
        "refused_foreign_origin",
        "refused_wrong_version",
        "refused_wrong_mode",
        "refused_bad_stratum",
        "refused_kiss",
    ],
    exhaustive: false,
    crash_is_violation: false,
};

fn delay_choice(c: &mut Case, interval_s: u64) -> (Duration, &'static str) {
    match c.rng.below(10) {
        0 | 1 | 2 => (Duration::from_micros(c.rng.range(50, 900_000) as u64), "fast"),
        3 => (Duration::from_millis(c.rng.range(900, 4_900) as u64), "slow"),
        4 => (WINDOW - Duration::from_nanos(1), "5s-1ns"),
        5 => (WINDOW, "5s"),
        6 => (WINDOW + Duration::from_nanos(1), "5s+1ns"),
        7 => (WINDOW + Duration::from_millis(c.rng.range(1, 3_000) as u64), "late"),
        _ => (Duration::from_millis(c.rng.range(100, (interval_s * 3_000).max(200) as i64) as u64), "any"),
    }
}

fn run(c: &mut Case) {
    let mode = [Mode::V4, Mode::V5, Mode::Auto][(c.idx % 3) as usize];
    let min = *c.rng.pick(&[0u8, 2, 3, 3, 4, 4, 6]);
    let max = min + c.rng.below(3) as u8;
    let mut s: Sim<Spy> = Sim::with_spy(mode, (min, min, max), min as i8, c.rng.u64());
    let upgrade_server = c.rng.bool();
    let use_real = c.rng.chance(1, 4);
    let mut real = if use_real { Some(RealServer::new(c.rng.range(1, 15) as u8)) } else { None };
    let polls_target = c.rng.range(6, 16) as usize;
    // answers that were accepted earlier (for replays)
    let mut accepted_history: Vec<Vec<u8>> = Vec::new();
    let mut script: Vec<serde_json::Value> = Vec::new();
    let mut steps = 0;
    // offset of the simulated server clock
    let server_off = c.rng.range(-(1i64 << 40), 1i64 << 40) as u64;

    while let Some(step) = {
        steps += 1;
        if steps > 400 || s.sent.len() > polls_target { None } else { s.step() }
    } {
        match step {
            Step::Timer(t) => {
                if let Some(p) = &t.panicked {
                    c.harness_error(format!("handle_timer panicked: {p}"));
                    return;
                }
                script.push(json!({"at_ns": s.now.as_nanos() as u64, "ev": "timer", "acts": sim::act_names(&t.acts)}));
                if t.reset || t.demobilize {
                    break;
                }
                let Some(si) = t.sent else { continue };
                if c.rng.chance(1, 6) {
                    let dsr = *c.rng.pick(&[min, max]) as i8;
                    s.spy.as_ref().unwrap().set_desire(dsr);
                }
                let req = s.sent[si].clone();
                let interval_s = 1u64 << req.poll.min(10);
                let rx = s.local_now().wrapping_add(server_off);
                let tx = rx.wrapping_add(c.rng.below(1 << 20));
                let stratum = c.rng.range(1, 16) as u8;
                let genuine: Answer = sim::genuine(&req, stratum, rx, tx, upgrade_server, c.rng.u64());
                let genuine_bytes = match real.as_mut() {
                    Some(r) if c.rng.chance(2, 3) => r.answer(&req.bytes, rx, tx),
                    _ => None,
                };
                let n = c.rng.below(6);
                for _ in 0..n {
                    let (delay, dname) = delay_choice(c, interval_s);
                    let mut d = match c.rng.below(10) {
                        0 | 1 | 2 | 3 => match &genuine_bytes {
                            Some(b) => Datagram::new(b.clone(), "real-server"),
                            None => Datagram::new(genuine.encode(), "genuine"),
                        },
                        4 if !accepted_history.is_empty() => {
                            let k = c.rng.below(accepted_history.len() as u64) as usize;
                            Datagram::new(accepted_history[k].clone(), "replay-accepted")
                        }
                        _ => {
                            let m = sim::random_mangle(&mut c.rng, req.version);
                            sim::mangle(&mut c.rng, &s.sent, &req, &genuine, m)
                        }
                    };
                    d.tag = match dname {
                        "5s-1ns" => 1,
                        "5s" => 2,
                        "5s+1ns" => 3,
                        _ => 0,
                    };
                    // duplicates: the same bytes twice
                    if c.rng.chance(1, 5) {
                        let extra = Duration::from_micros(c.rng.below(2_000_000));
                        let mut d2 = d.clone();
                        d2.tag = 0;
                        s.schedule(delay + extra, d2);
                    }
                    s.schedule(delay, d);
                }
            }
            Step::Datagram(d, truth, out) => {
                if let Some(p) = &out.panicked {
                    // not a C08 matter (C23/C22 own "never panics"); keep going
                    c.inc("handle_incoming_panics_ignored");
                    continue;
                }
                if truth.latest.is_none() {
                    continue;
                }
                c.inc("datagrams_delivered");
                let why = truth.why_not();
                let arrival = match d.tag {
                    1 => "5s-1ns",
                    2 => "5s",
                    3 => "5s+1ns",
                    _ => "other",
                };
                c.sig_of(&(mode, d.kind, why.clone(), out.used(), arrival, truth.in_window, truth.version_expected));
                let reach_set = out.unanswered_after < out.unanswered_before;
                let detail = |script: &Vec<serde_json::Value>| {
                    json!({
                        "mode": mode.name(), "limits": [min, min, max], "datagram_hex": hex(&d.bytes), "kind": d.kind,
                        "age_ns": truth.age.map(|a| a.as_nanos() as u64), "ground_truth_against_use": why,
                        "latest_request": truth.latest.map(|i| hex(&s.sent[i].bytes)), "latest_request_idx": truth.latest,
                        "echoes_older_request": truth.matches_older,
                        "spy_events": format!("{:?}", out.spy), "unanswered_polls": [out.unanswered_before, out.unanswered_after],
                        "state_before": out.probe_before.as_ref().map(sim::probe_json), "state_after": out.probe_after.as_ref().map(sim::probe_json),
                        "script_tail": script.iter().rev().take(12).rev().collect::<Vec<_>>(),
                    })
                };
                script.push(json!({"at_ns": s.now.as_nanos() as u64, "ev": "datagram", "kind": d.kind, "used": out.used(), "why_not": truth.why_not()}));
                if out.used() || reach_set {
                    if !truth.may_use() {
                        let first = why.first().copied().unwrap_or("?");
                        let what_used = if out.used() { "measurement" } else { "reach-only" };
                        c.violation(
                            format!("used/{first}/{}/{}", mode.name(), what_used),
                            format!("a datagram that must not be used ({}) produced {}", why.join(","), if out.used() { "a measurement" } else { "a reachability update" }),
                            detail(&script),
                        );
                    }
                }
                if out.used() {
                    c.inc("accepted");
                    if d.tag == 1 {
                        c.inc("accepted_at_5s_minus_1ns");
                    }
                    if d.tag == 2 {
                        c.inc("accepted_at_exactly_5s_unjudged");
                    }
                    accepted_history.push(d.bytes.clone());
                    // exactly one pair, carrying this datagram's timestamps
                    let h = refntp::parse_header(&d.bytes);
                    let t1 = s.sent[truth.latest.unwrap()].t1;
                    let t4 = s.local_now();
                    match (out.pair(), h) {
                        (Some(((a1, a2), (a3, a4))), Some(h)) => {
                            if a1 != t1 || a2 != h.receive_ts || a3 != h.transmit_ts || a4 != t4 {
                                c.violation(
                                    format!("pair-foreign-timestamps/{}", mode.name()),
                                    format!(
                                        "measurement pair ({a1:#x},{a2:#x},{a3:#x},{a4:#x}) does not carry the used datagram's timestamps ({t1:#x},{:#x},{:#x},{t4:#x})",
                                        h.receive_ts, h.transmit_ts
                                    ),
                                    detail(&script),
                                );
                            }
                        }
                        _ => {
                            c.violation(
                                format!("pair-shape/{}", mode.name()),
                                format!("a used datagram produced {} measurement events, not one outgoing+incoming pair", out.measurements),
                                detail(&script),
                            );
                        }
                    }
                    let n = s.used.get(&truth.latest.unwrap()).copied().unwrap_or(0);
                    if n > 1 {
                        c.violation(
                            format!("two-measurements-one-request/{}", mode.name()),
                            format!("request #{} yielded {n} measurements", truth.latest.unwrap()),
                            detail(&script),
                        );
                    }
                } else {
                    if d.tag == 3 && truth.matches_latest {
                        c.inc("refused_at_5s_plus_1ns");
                    }
                    for w in &why {
                        match *w {
                            "late" => c.inc("refused_late"),
                            "request-already-answered" => c.inc("refused_duplicate_or_replay"),
                            "answers-older-request" => c.inc("refused_older_request"),
                            "foreign-origin" => c.inc("refused_foreign_origin"),
                            "wrong-version" => c.inc("refused_wrong_version"),
                            "not-server-mode" => c.inc("refused_wrong_mode"),
                            "stratum>16" => c.inc("refused_bad_stratum"),
                            "kiss/stratum0" => c.inc("refused_kiss"),
                            _ => {}
                        }
                    }
                    if why.is_empty() {
                        c.inc("usable_but_unused_unjudged");
                        if c.replaying && std::env::var("VERIF_VERBOSE").is_ok() {
                            eprintln!("usable but unused: {}", detail(&script));
                        }
                    }
                }
            }
        }
    }
    if c.wants_sample() {
        c.sample(|| json!({"mode": mode.name(), "limits": [min, min, max], "real_server": use_real, "script": script.iter().take(40).collect::<Vec<_>>()}));
    }
}
