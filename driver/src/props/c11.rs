//! C11 — unreachable sources are reset, responsive sources are kept.
//!
//! Events: actions of every `handle_timer`, `ObservableSourceState.unanswered_polls` after every
//! event, actions of every `handle_incoming`.
//! Ground truth: per poll, whether a *clearly usable* answer was delivered for it (harness
//! bookkeeping + independent decoder: echoes the most recent request, < 5 s old, request's
//! version, mode 4, stratum 1..16, first for that request); whether a matching unauthenticated
//! DENY/RSTR was delivered since the last usable answer.
//! Oracle (reference shift register):
//!   at a timer with n polls sent so far, the source must be reset iff
//!     (n >= 3 and none of polls 1..3 was usably answered) or (n >= 8 and none of the last 8 was);
//!   the action must be Demobilize when a clean matching deny was seen since the last usable
//!   answer, Reset when no deny at all was seen (either when only late / non-matching denies were);
//!   after it no timer may produce a Send; without the condition the timer must not reset;
//!   after the first usable answer, unanswered_polls == min(8, polls sent since the last usable answer).

use std::time::Duration;

use crate::common::refntp;
use crate::common::srcasim::{self as sim, Datagram, Mangle, Mode, Sim, Spy, Step, Tri, Truth, WINDOW};
use crate::core::{Case, Profiles, Prop, Tier, hex};
use serde_json::json;

const EXH_MAX_LEN: u32 = 14;
/// number of non-empty bit patterns of length 1..=14
const EXH: u64 = (1u64 << (EXH_MAX_LEN + 1)) - 2;

pub static PROP: Prop = Prop {
    id: "C11",
    level: "exploration",
    rule: "case index < 32766: the k-th answered/unanswered bit pattern of length 1..14 (all of them, in order), followed by \
           unanswered polls until the source gives up; indices 32766..65531: the same patterns with unauthenticated DENY/RSTR \
           datagrams injected at unanswered polls; above: random patterns of length 15..48 with denies. An 'unanswered' poll gets \
           nothing or unusable datagrams (late, older/foreign origin, KISS, stratum 0/17+, wrong mode/version); an 'answered' one \
           gets the genuine answer first, then possibly duplicates/junk. Mode v4/v5/auto and poll limits vary with the index. \
           Shape signature = (mode, pattern length, position and kind of the give-up, deny situation, flavours of junk used).",
    assumptions: &[
        "plain (non-NTS) sources; the daemon stops delivering datagrams once Reset/Demobilize was returned",
        "reading: a reset at a timer where neither condition of the statement holds is reported (signature reset-spurious/...)",
    ],
    profiles: Profiles::Strict,
    cases: |t| t.pick(2 * EXH + 6_000, 2 * EXH + 400_000),
    budget_s: |t| t.pick(60, 900),
    run,
    min_nontrivial: 200,
    required_counters: &[
        "timers_judged",
        "resets_expected_and_seen",
        "demobilize_expected_and_seen",
        "kept_alive_judged",
        "unanswered_polls_judged",
        "usable_answers",
        "after_giveup_timers_judged",
        "clean_denies",
    ],
    exhaustive: false,
    crash_is_violation: false,
};

#[derive(Default)]
struct Model {
    /// per poll sent: usably answered?
    polls: Vec<bool>,
    deny_clean: bool,
    deny_ambiguous: bool,
    any_usable: bool,
    tainted: bool,
}

impl Model {
    fn must_give_up(&self) -> Option<&'static str> {
        let n = self.polls.len();
        if n >= 3 && !self.polls[..3].iter().any(|b| *b) {
            return Some("first-three");
        }
        if n >= 8 && !self.polls[n - 8..].iter().any(|b| *b) {
            return Some("last-eight");
        }
        None
    }
    fn missed(&self) -> u32 {
        let since = self.polls.iter().rev().take_while(|b| !**b).count();
        since.min(8) as u32
    }
}

fn is_deny(d: &[u8]) -> bool {
    match refntp::parse_header(d) {
        Some(h) if h.stratum == 0 && h.version == 5 => h.poll == 127,
        Some(h) if h.stratum == 0 => &h.reference_id == b"DENY" || &h.reference_id == b"RSTR",
        _ => false,
    }
}

fn pattern_of(k: u64) -> (u32, u64) {
    // k-th pattern in order of length: lengths 1..=14
    let mut k = k;
    for len in 1..=EXH_MAX_LEN {
        let n = 1u64 << len;
        if k < n {
            return (len, k);
        }
        k -= n;
    }
    (EXH_MAX_LEN, k & ((1 << EXH_MAX_LEN) - 1))
}

fn run(c: &mut Case) {
    let (len, bits, with_deny, section): (u32, u64, bool, &str) = if c.idx < EXH {
        let (l, b) = pattern_of(c.idx);
        (l, b, false, "exhaustive")
    } else if c.idx < 2 * EXH {
        let (l, b) = pattern_of(c.idx - EXH);
        (l, b, true, "exhaustive+deny")
    } else {
        let l = c.rng.range(15, 48) as u32;
        // biased towards long runs
        let mut b = 0u64;
        let mut cur = c.rng.bool();
        for i in 0..l {
            if c.rng.chance(1, 4) {
                cur = !cur;
            }
            if cur {
                b |= 1 << i;
            }
        }
        (l, b, c.rng.bool(), "random")
    };
    let mode = [Mode::V4, Mode::V5, Mode::Auto][(c.rng.below(3)) as usize];
    let min = *c.rng.pick(&[0u8, 1, 2, 3, 4]);
    let max = min + c.rng.below(3) as u8;
    let mut s: Sim<Spy> = Sim::with_spy(mode, (min, min, max), min as i8, c.rng.u64());
    let upgrade_server = c.rng.bool();
    let junk_level = c.rng.below(3); // 0: silence only, 1: some junk, 2: lots
    let mut m = Model::default();
    let mut script: Vec<String> = Vec::new();
    let mut junk_kinds: u32 = 0;
    let mut gave_up: Option<(usize, &'static str, &'static str)> = None;
    let mut steps = 0u32;

    let detail = |s: &Sim<Spy>, m: &Model, script: &Vec<String>| {
        json!({
            "section": section, "mode": mode.name(), "limits": [min, min, max], "pattern_len": len, "pattern_bits_lsb_first": format!("{bits:b}"),
            "polls_answered": m.polls.iter().map(|b| if *b { '1' } else { '0' }).collect::<String>(),
            "deny_clean": m.deny_clean, "deny_ambiguous": m.deny_ambiguous,
            "state": sim::probe_json(&s.probe()), "script": script,
        })
    };

    loop {
        steps += 1;
        if steps > 3000 {
            c.harness_error("session did not end");
            return;
        }
        let Some(step) = s.step() else {
            c.harness_error("event queue ran dry without a timer");
            return;
        };
        match step {
            Step::Timer(t) => {
                if let Some(p) = &t.panicked {
                    c.violation(format!("panic/handle_timer/{}", c.profile), format!("handle_timer panicked: {p}"), detail(&s, &m, &script));
                    return;
                }
                script.push(format!("{}ns timer -> {:?}", s.now.as_nanos(), sim::act_names(&t.acts)));
                let expect = m.must_give_up();
                let did_give_up = t.reset || t.demobilize;
                if !m.tainted {
                    c.inc("timers_judged");
                    match (expect, did_give_up) {
                        (Some(why), true) => {
                            if t.sent.is_some() {
                                c.violation(format!("send-with-giveup/{}", mode.name()), "the timer that resets the source also sent a request", detail(&s, &m, &script));
                            }
                            let want = if m.deny_clean {
                                Some(true)
                            } else if m.deny_ambiguous {
                                None
                            } else {
                                Some(false)
                            };
                            match want {
                                Some(true) if !t.demobilize => c.violation(
                                    format!("reset-instead-of-demobilize/{}", mode.name()),
                                    "unreachable source with an unauthenticated deny since its last usable answer was reset, not demobilised",
                                    detail(&s, &m, &script),
                                ),
                                Some(false) if !t.reset => c.violation(
                                    format!("demobilize-instead-of-reset/{}", mode.name()),
                                    "unreachable source without any deny since its last usable answer was demobilised, not reset",
                                    detail(&s, &m, &script),
                                ),
                                _ => {}
                            }
                            if t.demobilize {
                                c.inc("demobilize_expected_and_seen");
                            } else {
                                c.inc("resets_expected_and_seen");
                            }
                            let _ = why;
                        }
                        (Some(why), false) => {
                            c.violation(
                                format!("reset-missing/{why}/{}", mode.name()),
                                format!("no usable answer in the {why} polls, but the next timer did not reset/demobilise (actions {:?})", sim::act_names(&t.acts)),
                                detail(&s, &m, &script),
                            );
                        }
                        (None, true) => {
                            let all = !m.polls.is_empty() && m.polls.iter().all(|b| *b);
                            let kind = if all { "all-answered" } else { "partial" };
                            c.violation(
                                format!("reset-spurious/{kind}/{}", mode.name()),
                                format!(
                                    "source was {} although a usable answer exists within its first three and its last eight polls",
                                    if t.reset { "reset" } else { "demobilised" }
                                ),
                                detail(&s, &m, &script),
                            );
                        }
                        (None, false) => {
                            c.inc("kept_alive_judged");
                        }
                    }
                }
                if did_give_up {
                    gave_up = Some((m.polls.len(), expect.unwrap_or("unexpected"), if t.demobilize { "demobilize" } else { "reset" }));
                    break;
                }
                let Some(si) = t.sent else {
                    c.harness_error(format!("timer produced neither a request nor a reset: {:?}", t.acts));
                    return;
                };
                m.polls.push(false);
                // --- unanswered_polls right after the poll
                if m.any_usable && !m.tainted {
                    c.inc("unanswered_polls_judged");
                    let got = s.unanswered();
                    if got != m.missed() {
                        c.violation(
                            format!("missed-polls/after-poll/{}", mode.name()),
                            format!("unanswered_polls = {got}, polls since the last usable answer = {}", m.missed()),
                            detail(&s, &m, &script),
                        );
                    }
                }
                // --- schedule this poll's traffic
                let k = m.polls.len() - 1;
                let answered = (k as u32) < len && (bits >> k) & 1 == 1;
                let req = s.sent[si].clone();
                let interval = Duration::from_secs(1u64 << req.poll.min(12));
                let limit = interval.min(WINDOW) - Duration::from_nanos(2);
                let rx = s.local_now().wrapping_add(0x1234_5678_9abc);
                let genuine = sim::genuine(&req, c.rng.range(1, 16) as u8, rx, rx.wrapping_add(4096), upgrade_server, c.rng.u64());
                if answered {
                    let d = match c.rng.below(4) {
                        0 => Duration::from_nanos(1),
                        1 => limit,
                        _ => Duration::from_nanos(c.rng.range(1, limit.as_nanos() as i64) as u64),
                    };
                    s.schedule(d, Datagram::new(genuine.encode(), "genuine"));
                    if junk_level > 0 && c.rng.chance(1, 3) {
                        // junk strictly after the genuine answer
                        let mg = sim::random_mangle(&mut c.rng, req.version);
                        let extra = Duration::from_nanos(c.rng.range(1, 3_000_000_000) as u64);
                        let dg = if c.rng.bool() { Datagram::new(genuine.encode(), "duplicate") } else { sim::mangle(&mut c.rng, &s.sent, &req, &genuine, mg) };
                        s.schedule(d + extra, dg);
                    }
                } else {
                    let n = match junk_level {
                        0 => 0,
                        1 => c.rng.below(2),
                        _ => c.rng.below(4),
                    };
                    for _ in 0..n {
                        let dg = match c.rng.below(5) {
                            0 => {
                                // the genuine answer, but too late
                                junk_kinds |= 1;
                                let late = WINDOW + Duration::from_nanos(c.rng.range(1, 4_000_000_000) as u64);
                                s.schedule(late, Datagram::new(genuine.encode(), "late-genuine"));
                                continue;
                            }
                            _ => {
                                let mut mg = sim::random_mangle(&mut c.rng, req.version);
                                // v3 answers to v4 requests and marker-carrying junk are unjudged territory: keep them out
                                if mg == Mangle::Version(3) {
                                    mg = Mangle::ForeignOrigin;
                                }
                                if !with_deny && matches!(mg, Mangle::Kiss(k) if &k == b"DENY" || &k == b"RSTR") {
                                    mg = Mangle::Kiss(*b"RATE");
                                }
                                junk_kinds |= 2 << (mg.name().len() % 8);
                                let mut g2 = genuine.clone();
                                if g2.h.version == 4 {
                                    g2.h.reference_ts = 0;
                                }
                                sim::mangle(&mut c.rng, &s.sent, &req, &g2, mg)
                            }
                        };
                        let d = Duration::from_nanos(c.rng.range(1, (2 * interval.as_nanos() as i64).max(10)) as u64);
                        s.schedule(d, dg);
                    }
                    if with_deny && c.rng.chance(1, 3) {
                        let code = if c.rng.bool() { *b"DENY" } else { *b"RSTR" };
                        let mut a = sim::kiss(&req, &code, c.rng.u64());
                        let d = match c.rng.below(6) {
                            // mostly clean: matching and in time
                            0 => WINDOW + Duration::from_nanos(c.rng.range(1, 1_000_000_000) as u64),
                            1 => {
                                a.h.origin ^= 1 << c.rng.below(64);
                                Duration::from_nanos(c.rng.range(1, limit.as_nanos() as i64) as u64)
                            }
                            _ => Duration::from_nanos(c.rng.range(1, limit.as_nanos() as i64) as u64),
                        };
                        s.schedule(d, Datagram::new(a.encode(), "deny"));
                    }
                }
            }
            Step::Datagram(d, truth, out) => {
                if out.panicked.is_some() {
                    c.inc("handle_incoming_panics_ignored");
                    m.tainted = true;
                    continue;
                }
                script.push(format!("{}ns {} used={} against={:?}", s.now.as_nanos(), d.kind, out.used(), truth.why_not()));
                if out.acts.iter().any(|a| matches!(a, sim::Act::Reset | sim::Act::Demobilize)) && !m.tainted {
                    c.violation(
                        format!("giveup-on-datagram/{}/{}", d.kind, mode.name()),
                        "a plain source was reset/demobilised by an (unauthenticated) datagram, not at a timer with the unreachability condition",
                        detail(&s, &m, &script),
                    );
                    return;
                }
                if out.acts.iter().any(|a| matches!(a, sim::Act::Send(_))) {
                    c.harness_error("handle_incoming sent a packet");
                    return;
                }
                if truth.must_use() {
                    c.inc("usable_answers");
                    if let Some(last) = m.polls.last_mut() {
                        *last = true;
                    }
                    m.any_usable = true;
                    m.deny_clean = false;
                    m.deny_ambiguous = false;
                    if !out.used() && !m.tainted {
                        c.violation(
                            format!("usable-answer-ignored/{}/{}", d.kind, mode.name()),
                            "a clearly usable answer (echoes the pending request, in time, right version, mode 4, stratum 1..16) produced no measurement",
                            json!({"datagram": hex(&d.bytes), "session": detail(&s, &m, &script)}),
                        );
                        m.tainted = true;
                    }
                } else if truth.may_use() {
                    // the statement does not say whether this one counts
                    m.tainted = true;
                    c.inc("tainted_by_unjudged_datagram");
                } else if is_deny(&d.bytes) {
                    if truth.matching() == Tri::Yes && truth.mode_server() && !truth.latest_already_used {
                        m.deny_clean = true;
                        c.inc("clean_denies");
                    } else {
                        m.deny_ambiguous = true;
                        c.inc("ambiguous_denies");
                    }
                }
                if out.used() != truth.must_use() && !truth.may_use() && out.used() {
                    // use of an unusable datagram is C08's business; here it only invalidates the model
                    m.tainted = true;
                }
                if m.any_usable && !m.tainted {
                    c.inc("unanswered_polls_judged");
                    let got = s.unanswered();
                    if got != m.missed() {
                        c.violation(
                            format!("missed-polls/after-datagram/{}", mode.name()),
                            format!("unanswered_polls = {got}, polls since the last usable answer = {}", m.missed()),
                            detail(&s, &m, &script),
                        );
                    }
                }
            }
        }
    }

    // after giving up: further timers (no datagrams: the daemon has stopped the task) must not send
    if let Some((at, why, how)) = gave_up {
        for _ in 0..3 {
            let t = s.fire_timer();
            if t.panicked.is_some() {
                break;
            }
            c.inc("after_giveup_timers_judged");
            if t.sent.is_some() && !m.tainted {
                c.violation(
                    format!("send-after-giveup/{}", mode.name()),
                    "a request was sent after the source had been reset/demobilised",
                    detail(&s, &m, &script),
                );
            }
        }
        c.sig_of(&(mode, len.min(20), at.min(40), why, how, m.deny_clean, m.deny_ambiguous, junk_level, m.tainted));
    }
    if c.wants_sample() {
        c.sample(|| detail(&s, &m, &script));
    }
}
