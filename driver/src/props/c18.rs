//! C18 — server answers echo the request correctly and reflect nothing else.
//!
//! Events: every reply of the real `Server::handle`, decoded by the reference decoder; NTS replies
//! are also opened with the session's s2c key. Oracle: field-by-field comparison with the request,
//! the reception timestamp and the synchronisation state, a whitelist of extension fields, and a
//! reflection scan: no informative 8-byte window of a non-echoable request region may occur in
//! the reply (plaintext or decrypted).

use crate::common::refntp::{self, EF_NTS_AUTH, EF_NTS_COOKIE, EF_UNIQUE_ID, EF_V5_DRAFT_ID, EF_V5_PADDING, EF_V5_REFID_REQ, EF_V5_REFID_RESP, RefField};
use crate::common::srvsim::{self as sim, NtsStatus, OpenResult, ReplyKind};
use crate::core::{Case, Profiles, Prop, Tier, hex};
use serde_json::json;

pub static PROP: Prop = Prop {
    id: "C18",
    level: "exploration",
    rule: "case = one real Server (lists with deny action / require-nts deny in a share of cases so that DENY answers occur, all \
           versions, synchronisation state normal or zero, rotated key set) and 24 datagrams (valid grammar of all flavours with every \
           non-echoable region filled with fresh random bytes: header fields, unknown fields, MACs, padding, cookies, encrypted \
           fields, trailing bytes; failing NTS plans; RFC-bending layouts; mutations; raw). Every reply is checked. Non-trivial = a \
           reply was decoded; distinct = (generator class, layout fingerprint, reply kind, field types in the reply).",
    assumptions: &[
        "echoable: transmit timestamp (v3/v4) / client cookie (v5), poll, unique-identifier values (zero-extended to the minimum field size), the v4->v5 upgrade marker in the reference timestamp (documented exception); everything else in the request is non-echoable",
        "a reflection is an 8-byte window with >= 6 distinct byte values of a non-echoable region found in the reply or its decrypted part; windows that also occur in echoable material of the same request (duplicated unique-id fields, the draft identification string) and the 6 leading bytes of cookies (key id + length, equal for all cookies of a key set) are skipped; reply windows lying entirely inside parts the field-by-field oracle accounts for (echoed origin, whole unique-id fields already matched against the request, draft id, padding, field headers) are not searched",
        "root dispersion is compared with sqrt(base + t*linear + t^2*quadratic + t^3*cubic) at the reception time within 2 units of the wire format; precision, reference timestamp and transmit timestamp are not judged (the statement does not name them)",
        "kiss answers are checked for mode, version, origin echo, stratum 0 and zero receive/transmit timestamps; poll of kiss answers is not judged",
    ],
    profiles: Profiles::Ship,
    cases: |t| t.pick(50_000, 500_000),
    budget_s: |t| t.pick(45, 400),
    run,
    min_nontrivial: 500,
    required_counters: &[
        "time_checked", "deny_checked", "nak_checked", "uid_echo_checked", "refid_resp_checked", "nts_replies_opened", "encrypted_fields_checked",
        "reflection_scans", "v5_checked", "v3_checked", "upgrade_replies", "nts_deny_checked",
    ],
    exhaustive: false,
    crash_is_violation: false,
};

fn zero_extended(reply: &[u8], request: &[u8]) -> bool {
    reply.len() >= request.len() && reply[..request.len()] == *request && reply[request.len()..].iter().all(|b| *b == 0)
}

fn run(c: &mut Case) {
    let recv0 = c.rng.u64();
    let mut cfg = sim::CfgSpec::open();
    match c.rng.below(6) {
        0 => {
            cfg.allow = vec![];
            cfg.allow_action = sim::Act::Deny;
        }
        1 => cfg.require_nts = Some(sim::Act::Deny),
        2 => {
            cfg = sim::gen_cfg(&mut c.rng, sim::CfgOpts { lists: true, rate: sim::RateMode::Off, require_nts: true, version_subsets: false });
        }
        _ => {}
    }
    let (spec, info) = sim::gen_info(&mut c.rng, recv0, false);
    let keys = match sim::gen_keys(&mut c.rng, 4, 3) {
        Ok(k) => k,
        Err(e) => return c.harness_error(e),
    };
    let now = c.rng.u64();
    let mut w = match sim::build_world(cfg, spec, info, keys, now) {
        Ok(w) => w,
        Err(e) => return c.harness_error(e),
    };
    let mut spy = sim::Spy::default();
    for k in 0..24u64 {
        let flavor = *c.rng.pick(&sim::FLAVORS);
        let req = match c.rng.below(10) {
            0..=4 => sim::gen_valid(&mut c.rng, flavor, &w.keys, sim::NtsPlan::Good),
            5 => {
                let plan = *c.rng.pick(&[sim::NtsPlan::WrongKey, sim::NtsPlan::GarbageCookie, sim::NtsPlan::ForeignCookie]);
                sim::gen_valid(&mut c.rng, flavor, &w.keys, plan)
            }
            6 | 7 => sim::gen_lenient(&mut c.rng, flavor, &w.keys),
            _ => sim::gen_any(&mut c.rng, &w.keys),
        };
        let req = match req {
            Ok(r) => r,
            Err(e) => {
                c.harness_error(e);
                continue;
            }
        };
        let ip = sim::gen_client(&mut c.rng, &w.cfg);
        // reception time: within the state's validity (a few seconds after recv0)
        let recv = recv0.wrapping_add(c.rng.below(1 << 34));
        let server = &mut w.server;
        let h = match crate::core::guard(|| sim::handle_like_daemon(server, &mut spy, ip, recv, &req.bytes)) {
            Ok(h) => h,
            Err(_) => {
                c.inc("panics_not_judged_here");
                return;
            }
        };
        let Some(reply) = h.reply else { continue };
        check_reply(c, &w, &req, &reply, recv, ip);
    }
}

fn check_reply(c: &mut Case, w: &sim::World, req: &sim::Req, reply: &[u8], recv: u64, ip: std::net::IpAddr) {
    let detail = |extra: serde_json::Value| {
        json!({"request": req.json(), "reply": hex(reply), "recv_timestamp": format!("{recv:016x}"), "client": ip.to_string(),
               "state": w.info.json(), "config": w.cfg.json(), "finding": extra})
    };
    macro_rules! bad {
        ($sig:expr, $what:expr, $extra:expr) => {
            c.violation($sig, $what, detail($extra))
        };
    }
    let Some(rp) = refntp::parse(reply) else {
        bad!("reply/undecodable", "reply shorter than an NTP header", json!(null));
        return;
    };
    if req.bytes.len() < 48 {
        bad!("reply/to-short-datagram", "a datagram shorter than a header was answered", json!(null));
        return;
    }
    let q = &req.bytes;
    let qv = (q[0] >> 3) & 7;
    let kind = sim::classify(&rp.header);
    let kname = format!("{kind:?}").to_lowercase();
    let types: Vec<u16> = rp.fields.iter().map(|f| f.type_id).collect();
    c.sig_of(&(&req.truth.class, req.truth.shape, kind, &types));
    let v5 = rp.header.version == 5;
    match rp.header.version {
        5 => c.inc("v5_checked"),
        3 => c.inc("v3_checked"),
        _ => {}
    }

    // ---- header ----
    if rp.header.mode != 4 {
        bad!(format!("header/mode/{kname}"), format!("reply mode {} instead of server (4)", rp.header.mode), json!(null));
    }
    if rp.header.version != qv {
        bad!(format!("header/version/{kname}"), format!("reply version {} to a version {} request", rp.header.version, qv), json!(null));
    }
    let want_origin = if qv == 5 { &q[24..32] } else { &q[40..48] };
    if rp.header.origin.to_be_bytes() != *want_origin {
        bad!(format!("header/origin-echo/v{qv}/{kname}"), "origin timestamp / client cookie is not the request's transmit timestamp / client cookie", json!({"want": hex(want_origin)}));
    }
    match kind {
        ReplyKind::Time => {
            c.inc("time_checked");
            if rp.header.poll != q[2] {
                bad!("header/poll-echo", format!("poll {} instead of the request's {}", rp.header.poll, q[2]), json!(null));
            }
            if rp.header.receive_ts != recv {
                bad!("header/receive-timestamp", "receive timestamp is not the reception time passed to the server", json!({"got": format!("{:016x}", rp.header.receive_ts)}));
            }
            if rp.header.stratum != w.info.stratum {
                bad!("header/stratum", format!("stratum {} instead of {}", rp.header.stratum, w.info.stratum), json!(null));
            }
            if rp.header.leap != w.info.leap_bits() {
                bad!("header/leap", format!("leap bits {} instead of {}", rp.header.leap, w.info.leap_bits()), json!(null));
            }
            let disp = w.info.dispersion_at(recv);
            if v5 {
                let want = u32::try_from(w.info.root_delay_raw >> 4).unwrap_or(u32::MAX);
                if rp.header.root_delay != want {
                    bad!("header/root-delay/v5", format!("root delay {:08x} instead of {:08x}", rp.header.root_delay, want), json!(null));
                }
                let got = rp.header.root_dispersion as f64 / (1u64 << 28) as f64;
                let ok = (got - disp).abs() <= 2.0 / (1u64 << 28) as f64 + disp * 1e-9 || (disp >= 15.999 && got >= 15.999);
                if disp.is_finite() && !ok {
                    bad!("header/root-dispersion/v5", format!("root dispersion {got} s instead of {disp} s"), json!(null));
                }
            } else {
                if rp.header.reference_id != w.info.refid.to_be_bytes() {
                    bad!("header/reference-id", "reference id is not the server's", json!({"got": hex(&rp.header.reference_id)}));
                }
                let want = ((w.info.root_delay_raw >> 16) & 0xffff_ffff) as u32;
                if rp.header.root_delay != want {
                    bad!("header/root-delay", format!("root delay {:08x} instead of {:08x}", rp.header.root_delay, want), json!(null));
                }
                let got = rp.header.root_dispersion as f64 / 65536.0;
                if disp.is_finite() && (got - disp).abs() > 2.0 / 65536.0 + disp * 1e-9 {
                    bad!("header/root-dispersion", format!("root dispersion {got} s instead of {disp} s"), json!(null));
                }
                if rp.header.reference_ts == refntp::UPGRADE_MARKER {
                    c.inc("upgrade_replies");
                    if u64::from_be_bytes(q[16..24].try_into().unwrap()) != refntp::UPGRADE_MARKER {
                        bad!("header/upgrade-marker-unasked", "the upgrade marker is offered to a request that did not carry it", json!(null));
                    }
                }
            }
        }
        ReplyKind::Deny | ReplyKind::Nak | ReplyKind::Rate | ReplyKind::OtherKiss => {
            match kind {
                ReplyKind::Deny => c.inc("deny_checked"),
                ReplyKind::Nak => c.inc("nak_checked"),
                ReplyKind::Rate => c.inc("rate_seen"),
                _ => c.inc("other_kiss_seen"),
            }
            if rp.header.receive_ts != 0 || rp.header.transmit_ts != 0 {
                bad!(format!("kiss/server-timestamps/{kname}"), "a kiss answer carries server timestamps", json!({"receive": format!("{:016x}", rp.header.receive_ts), "transmit": format!("{:016x}", rp.header.transmit_ts)}));
            }
        }
    }

    // ---- extension fields ----
    let qp = refntp::parse(q).unwrap();
    let q_uids: Vec<&RefField> = qp.fields.iter().filter(|f| f.type_id == EF_UNIQUE_ID).collect();
    let status = sim::nts_status(q, &w.keys.current());
    let mut opened_plain: Option<Vec<u8>> = None;
    let mut opened_mask: Vec<bool> = Vec::new();
    if rp.header.version == 3 && (reply.len() != 48) {
        bad!("fields/v3-extra-bytes", "an NTPv3 answer carries bytes after the header", json!(null));
    }
    if !rp.trailer.is_empty() && rp.header.version != 3 {
        bad!(format!("fields/trailing-bytes/{kname}"), format!("{} bytes after the last extension field of the reply", rp.trailer.len()), json!(null));
    }
    let check_uid = |c: &mut Case, f: &RefField, place: &str| {
        c.inc("uid_echo_checked");
        if !q_uids.iter().any(|u| zero_extended(&f.value, &u.value)) {
            c.violation(format!("fields/unique-id-not-from-request/{place}/{kname}"), "a unique identifier in the reply is not one of the request's", detail(json!({"uid": hex(&f.value)})));
        }
    };
    for f in &rp.fields {
        match f.type_id {
            EF_UNIQUE_ID => check_uid(c, f, "plain"),
            EF_V5_REFID_RESP if v5 => {
                c.inc("refid_resp_checked");
                let ok = qp.fields.iter().any(|r| {
                    r.type_id == EF_V5_REFID_REQ && r.value.len() == f.value.len() && r.value.len() >= 2 && {
                        let off = u16::from_be_bytes([r.value[0], r.value[1]]) as usize;
                        w.info.bloom.get(off..off + f.value.len()).map(|b| b == &f.value[..]).unwrap_or(false)
                    }
                });
                if !ok {
                    bad!("fields/reference-id-response", "a reference-id response does not carry the Bloom filter bytes a request field asked for", json!({"value": hex(&f.value)}));
                }
            }
            EF_V5_DRAFT_ID if v5 => {}
            EF_V5_PADDING if v5 => {}
            EF_NTS_AUTH => match &status {
                NtsStatus::Authentic { session, .. } => match sim::open_nts(reply, &rp, session.alg, &session.s2c) {
                    OpenResult::Opened(o) => {
                        c.inc("nts_replies_opened");
                        if kind == ReplyKind::Deny {
                            c.inc("nts_deny_checked");
                        }
                        for e in &o.fields {
                            c.inc("encrypted_fields_checked");
                            match e.type_id {
                                EF_NTS_COOKIE => {}
                                EF_UNIQUE_ID => check_uid(c, e, "encrypted"),
                                t => bad!(format!("fields/unexpected-encrypted-field/{kname}"), format!("encrypted field of type {t:#06x} in the reply"), json!({"value": hex(&e.value)})),
                            }
                        }
                        if o.leftover > 0 {
                            bad!("fields/encrypted-leftover", "the decrypted part of the reply does not consist of whole fields", json!({"plaintext": hex(&o.plaintext)}));
                        }
                        opened_mask = sim::explained_mask(&o.plaintext, &o.fields, false);
                        opened_plain = Some(o.plaintext);
                    }
                    _ => c.inc("nts_reply_not_opened_left_to_c19"),
                },
                _ => bad!(format!("fields/authenticator-for-unauthenticated/{kname}"), "the reply carries an NTS authenticator although the request did not authenticate", json!(null)),
            },
            t => bad!(format!("fields/unexpected-field/{kname}"), format!("field of type {t:#06x} in the reply"), json!({"value": hex(&f.value)})),
        }
    }

    // ---- reflection scan ----
    c.inc("reflection_scans");
    let mut hay: Vec<&[u8]> = vec![reply];
    let mut masks = vec![sim::explained_mask(reply, &rp.fields, true)];
    if let Some(p) = &opened_plain {
        hay.push(p);
        masks.push(opened_mask.clone());
    }
    let ranges = sim::nonechoable_ranges(q);
    let echoable = sim::echoable_material(q);
    if let Some((off, label, which)) = sim::find_reflection_masked(q, &ranges, &hay, &masks, &echoable) {
        let place = if which == 0 { "plaintext" } else { "decrypted" };
        bad!(format!("reflect/{}/{place}/{kname}", label.replace(' ', "-")), format!("8 bytes of the request's {label} (offset {off}) occur in the reply ({place})"), json!({"request_offset": off, "bytes": hex(&q[off..off + 8])}));
    }
    // what the request carried encrypted (known to the harness, or recovered with c2s)
    let enc_plain: Option<Vec<u8>> = match (&req.truth.enc_plain, &status) {
        (Some(p), _) => Some(p.clone()),
        (None, NtsStatus::Authentic { plaintext, .. }) => Some(plaintext.clone()),
        _ => None,
    };
    if let Some(p) = enc_plain {
        let (fields, _) = sim::walk_fields(&p, v5);
        let ranges: Vec<(usize, usize, &'static str)> = fields.iter().filter(|f| f.type_id != EF_UNIQUE_ID).map(|f| (f.offset + 4, f.offset + 4 + f.value.len(), "encrypted request field")).collect();
        if let Some((off, _, which)) = sim::find_reflection_masked(&p, &ranges, &hay, &masks, &echoable) {
            let place = if which == 0 { "plaintext" } else { "decrypted" };
            bad!(format!("reflect/encrypted-request-field/{place}/{kname}"), "8 bytes of an encrypted request field occur in the reply", json!({"plaintext_offset": off, "bytes": hex(&p[off..off + 8])}));
        }
    }
    c.sample(|| json!({"request": req.json(), "reply": hex(reply), "kind": kname}));
}
