//! C15 — server access policy is enforced in order.
//!
//! Events: `ServerAction` of the real `Server::handle` (request-sized buffer) and the reply decoded
//! by the reference decoder. Oracle: the monitor's own policy function written from the
//! statement (deny list -> allow list -> malformed / non-client / version -> require-nts -> answer)
//! on top of its own subnet matcher.

use crate::common::refntp;
use crate::common::srvsim::{self as sim, Act, ListVerdict, ReplyKind};
use crate::core::{Case, Profiles, Prop, Tier, hex};
use serde_json::json;

pub static PROP: Prop = Prop {
    id: "C15",
    level: "exploration",
    rule: "case = one real Server with random deny/allow lists (0-6 subnets each, IPv4/IPv6/mapped notation, any prefix length), both \
           actions, require-nts none/ignore/deny, every accepted-version subset, and 20 datagrams from clients drawn inside, outside \
           and at the edges of the subnets (IPv4, IPv6, IPv4-mapped): valid-grammar requests of all six flavours (NTS with good and \
           failing cookies), the same spoiled (wrong mode, non-existent version, cut below 48 bytes), RFC-bending layouts, mutations \
           and raw bytes. Non-trivial = the datagram reached the policy decision; distinct = (deny verdict, allow verdict, actions, \
           require-nts, generator class, version accepted?, outcome).",
    assumptions: &[
        "'well-formed' = produced by the harness's valid-request grammar (RFC 7822 field sizes, RFC 8915 NTS layout, NTPv5 draft id); only for those a time answer is demanded",
        "an IPv4/mapped client whose mapped form lies in an IPv6 subnet of a list (and in none of its IPv4 subnets) is not judged for that list",
        "rate limiting is off in 3 of 4 cases; where it is on, an answer is demanded only for the first datagram of an address (never limited by the statement of C20)",
        "'plain request' for the require-nts clause = no NTS authenticator field at top level by the reference parser",
    ],
    profiles: Profiles::Ship,
    cases: |t| t.pick(40_000, 1_000_000),
    budget_s: |t| t.pick(40, 400),
    run,
    min_nontrivial: 500,
    required_counters: &[
        "denied_clients", "unlisted_clients", "order_matters", "permitted_valid_demanded", "time_answers", "deny_answers",
        "spoiled_sent", "nonaccepted_version_sent", "plain_while_nts_required", "nts_valid_demanded", "mapped_clients",
    ],
    exhaustive: false,
    crash_is_violation: false,
};

fn run(c: &mut Case) {
    let recv = c.rng.u64();
    let rate = if c.rng.chance(1, 4) { sim::RateMode::Any } else { sim::RateMode::Off };
    let cfg = sim::gen_cfg(&mut c.rng, sim::CfgOpts { lists: true, rate, require_nts: true, version_subsets: true });
    let (spec, info) = sim::gen_info(&mut c.rng, recv, false);
    let keys = match sim::gen_keys(&mut c.rng, 4, 3) {
        Ok(k) => k,
        Err(e) => return c.harness_error(e),
    };
    let now = recv.wrapping_add(c.rng.below(1 << 30));
    let mut w = match sim::build_world(cfg, spec, info, keys, now) {
        Ok(w) => w,
        Err(e) => return c.harness_error(e),
    };
    let mut spy = sim::Spy::default();
    let mut seen: std::collections::HashSet<std::net::IpAddr> = Default::default();
    let limiter_on = w.cfg.cache_size > 0 && !w.cfg.cutoff.is_zero();
    for k in 0..20u64 {
        let flavor = *c.rng.pick(&sim::FLAVORS);
        let plan = if c.rng.chance(1, 5) {
            *c.rng.pick(&[sim::NtsPlan::WrongKey, sim::NtsPlan::GarbageCookie, sim::NtsPlan::ForeignCookie, sim::NtsPlan::ExpiredCookie])
        } else {
            sim::NtsPlan::Good
        };
        let mk = |c: &mut Case| sim::gen_valid(&mut c.rng, flavor, &w.keys, plan).or_else(|_| sim::gen_valid(&mut c.rng, flavor, &w.keys, sim::NtsPlan::Good));
        let req = match c.rng.below(10) {
            0..=4 => mk(c),
            5 | 6 => mk(c).map(|b| sim::spoil(&mut c.rng, &b)),
            7 => sim::gen_lenient(&mut c.rng, flavor, &w.keys),
            8 => mk(c).map(|b| sim::mutate(&mut c.rng, &b)),
            _ => Ok(sim::gen_raw(&mut c.rng)),
        };
        let req = match req {
            Ok(r) => r,
            Err(e) => {
                c.harness_error(e);
                continue;
            }
        };
        let ip = if c.rng.bool() { sim::gen_client_passing(&mut c.rng, &w.cfg).unwrap_or_else(|| sim::gen_client(&mut c.rng, &w.cfg)) } else { sim::gen_client(&mut c.rng, &w.cfg) };
        if matches!(ip, std::net::IpAddr::V6(a) if a.to_ipv4_mapped().is_some()) {
            c.inc("mapped_clients");
        }
        let first_from_ip = seen.insert(ip);
        let server = &mut w.server;
        let h = match crate::core::guard(|| sim::handle_like_daemon(server, &mut spy, ip, recv.wrapping_add(k), &req.bytes)) {
            Ok(h) => h,
            Err(_) => {
                c.inc("panics_not_judged_here");
                return;
            }
        };
        let kind = h.reply.as_ref().and_then(|r| refntp::parse_header(r)).map(|h| sim::classify(&h));
        if h.reply.is_some() && kind.is_none() {
            c.violation("policy/undecodable-reply", "the server sent something that is not an NTP header", json!({"reply": h.reply.as_ref().map(|r| hex(r)), "request": req.json()}));
            continue;
        }
        match kind {
            Some(ReplyKind::Time) => c.inc("time_answers"),
            Some(ReplyKind::Deny) => c.inc("deny_answers"),
            _ => {}
        }
        let dv = sim::list_verdict(&w.cfg.deny, ip);
        let av = sim::list_verdict(&w.cfg.allow, ip);
        let detail = |what: &str| {
            json!({"expected": what, "client": ip.to_string(), "deny_verdict": format!("{dv:?}"), "allow_verdict": format!("{av:?}"),
                   "config": w.cfg.json(), "request": req.json(), "reply": h.reply.as_ref().map(|r| hex(r)), "reply_kind": format!("{kind:?}"),
                   "registered": h.regs.iter().map(|r| r.json()).collect::<Vec<_>>()})
        };
        let accepted = w.cfg.versions.contains(&req.truth.version);
        let outcome = match kind {
            None => 0u8,
            Some(ReplyKind::Time) => 1,
            Some(ReplyKind::Deny) => 2,
            Some(ReplyKind::Nak) => 3,
            _ => 4,
        };
        c.sig_of(&(dv, av, w.cfg.deny_action, w.cfg.allow_action, w.cfg.require_nts, &req.truth.class, accepted, outcome));

        // --- 1/2: the lists, in that order ---
        let blocked: Option<(&str, Act)> = if dv == ListVerdict::In {
            c.inc("denied_clients");
            if av == ListVerdict::Out && w.cfg.deny_action != w.cfg.allow_action {
                c.inc("order_matters");
            }
            Some(("denied", w.cfg.deny_action))
        } else if dv == ListVerdict::Ambiguous {
            c.inc("ambiguous_not_judged");
            continue;
        } else if av == ListVerdict::Out {
            c.inc("unlisted_clients");
            Some(("unlisted", w.cfg.allow_action))
        } else if av == ListVerdict::Ambiguous {
            c.inc("ambiguous_not_judged");
            continue;
        } else {
            None
        };
        if let Some((why, act)) = blocked {
            match (act, kind) {
                (_, None) => {}
                (Act::Deny, Some(ReplyKind::Deny)) => {}
                (_, Some(ReplyKind::Time)) => c.violation(format!("policy/{why}-got-time"), format!("a {why} client received time"), detail("nothing or at most DENY")),
                (Act::Ignore, Some(_)) => c.violation(format!("policy/{why}-ignore-answered"), format!("a {why} client (action ignore) received an answer"), detail("nothing")),
                (Act::Deny, Some(_)) => c.violation(format!("policy/{why}-deny-other-answer"), format!("a {why} client (action deny) received something else than a DENY kiss"), detail("nothing or DENY")),
            }
            continue;
        }

        // --- the client passes both lists ---
        // 3: malformed / non-client / non-accepted version: never answered
        let certainly_dead = if req.truth.class.starts_with("spoil/mode/") {
            c.inc("spoiled_sent");
            Some("nonclient")
        } else if req.truth.class.starts_with("spoil/version/") {
            c.inc("spoiled_sent");
            Some("nonexistent-version")
        } else if req.truth.class.starts_with("spoil/short/") {
            c.inc("spoiled_sent");
            Some("short")
        } else if req.truth.valid && !accepted {
            c.inc("nonaccepted_version_sent");
            Some("nonaccepted-version")
        } else {
            None
        };
        if let Some(why) = certainly_dead {
            if kind.is_some() {
                let how = format!("{:?}", kind.unwrap()).to_lowercase();
                let nts = if req.truth.nts.is_some() { "nts" } else { "plain" };
                c.violation(format!("policy/{why}-answered/{how}/{nts}"), format!("a {why} datagram ({}) was answered with {how}", req.truth.class), detail("nothing"));
            }
            continue;
        }
        // 4: plain requests never receive time when NTS is required
        if w.cfg.require_nts.is_some() {
            let status = sim::nts_status(&req.bytes, &w.keys.current());
            if matches!(status, sim::NtsStatus::Plain) {
                c.inc("plain_while_nts_required");
                if kind == Some(ReplyKind::Time) {
                    c.violation("policy/plain-time-while-nts-required", "a request without NTS authenticator received time although NTS is required", detail("no time"));
                }
            }
        }
        // 5: well-formed, accepted version, permitted, not rate-limited => time
        if req.truth.valid && accepted && (!limiter_on || first_from_ip) {
            let demanded = match &req.truth.nts {
                None => w.cfg.require_nts.is_none(),
                Some(n) => n.auth_ok == Some(true),
            };
            if demanded {
                c.inc("permitted_valid_demanded");
                if req.truth.nts.is_some() {
                    c.inc("nts_valid_demanded");
                }
                if kind != Some(ReplyKind::Time) {
                    c.violation(
                        format!("policy/valid-not-answered/{}", req.truth.class),
                        format!("a well-formed {} request from a permitted client did not receive time (got {kind:?})", req.truth.class),
                        detail("a time answer"),
                    );
                }
            }
        }
        if k == 0 {
            c.sample(|| detail("sample"));
        }
    }
}
