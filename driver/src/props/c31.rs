//! C31 — IP filters match exactly the configured subnets.
//!
//! Events: `IpFilter::is_in` (through the opaque hook wrapper `pkt::Filter`) and `IpSubnet::from_str`.
//! Oracle: reference membership on canonicalised addresses (an IPv4-mapped IPv6 address is an IPv4
//! address; same family and top `mask` bits equal for some subnet), and a reference grammar for
//! subnet strings (`<addr>/<decimal mask>`, mask within the canonical family's width, mapped
//! addresses take their mask relative to 128 bits).

use std::net::{IpAddr, Ipv4Addr, Ipv6Addr};
use std::str::FromStr;

use crate::core::{Case, Profiles, Prop, Tier, guard};
use ntp_proto::IpSubnet;
use ntp_proto::verif::pkt::Filter;
use serde_json::json;

pub static PROP: Prop = Prop {
    id: "C31",
    level: "exploration",
    rule: "case kinds by idx%4: (0,1) a filter of 0-40 subnets built from subnet *strings* (nested, adjacent, overlapping, \
           complete and incomplete coverings of a parent prefix by unequal parts, /0../32, /0../128, IPv4-mapped \
           notation) inside a small universe (an IPv4 /20 or an IPv6 /116, i.e. 4096 addresses) plus some outside it; \
           every address of the universe is looked up (complete for that universe), v4 addresses also in mapped form, \
           plus first/last/+-1 edges of every subnet and random addresses; (2) the same with unrestricted random subnets \
           and edge/random addresses only; (3) IpSubnet::from_str on generated strings vs the reference grammar. \
           Distinct non-trivial = distinct (kind, family, subnet-count bucket, covering structure used, answer mix) tuples.",
    assumptions: &[
        "'the address parses' is taken to mean std::net::IpAddr::from_str accepts it (the statement names no other address grammar)",
        "mask tokens with a leading '+' (accepted by Rust's integer parser) are not judged: the statement does not say whether they are masks",
        "only filters whose subnets were produced by IpSubnet::from_str (the configuration path) are judged",
    ],
    profiles: Profiles::Both,
    cases: |t| t.pick(40_000, 400_000),
    budget_s: |t| t.pick(30, 300),
    run,
    min_nontrivial: 40,
    required_counters: &["lookups", "lookups_in", "lookups_out", "lookups_mapped", "universes_enumerated", "parse_accept", "parse_reject", "parse_mapped_accept"],
    exhaustive: false,
    crash_is_violation: true,
};

/// canonical form: (is_v4, value left-aligned in 128 bits)
fn canon(a: IpAddr) -> (bool, u128) {
    match a {
        IpAddr::V4(v) => (true, (u32::from_be_bytes(v.octets()) as u128) << 96),
        IpAddr::V6(v) => {
            let o = v.octets();
            if o[..10].iter().all(|b| *b == 0) && o[10] == 0xff && o[11] == 0xff {
                (true, (u32::from_be_bytes([o[12], o[13], o[14], o[15]]) as u128) << 96)
            } else {
                (false, u128::from_be_bytes(o))
            }
        }
    }
}

#[derive(Clone, Debug)]
struct RefSubnet {
    v4: bool,
    val: u128,
    mask: u8,
}

fn ref_contains(s: &RefSubnet, a: (bool, u128)) -> bool {
    if s.v4 != a.0 {
        return false;
    }
    if s.mask == 0 {
        return true;
    }
    let shift = 128 - s.mask as u32;
    (s.val >> shift) == (a.1 >> shift)
}

fn addr_of(v4: bool, val: u128) -> IpAddr {
    if v4 {
        IpAddr::V4(Ipv4Addr::from(((val >> 96) as u32).to_be_bytes()))
    } else {
        IpAddr::V6(Ipv6Addr::from(val.to_be_bytes()))
    }
}

fn mapped(a: Ipv4Addr) -> IpAddr {
    IpAddr::V6(a.to_ipv6_mapped())
}

/// textual form of a subnet, in one of several notations
fn subnet_string(c: &mut Case, v4: bool, val: u128, mask: u8) -> String {
    if v4 {
        let a = Ipv4Addr::from(((val >> 96) as u32).to_be_bytes());
        match c.rng.below(4) {
            0 => format!("::ffff:{a}/{}", mask as u32 + 96),
            1 => {
                let o = a.octets();
                format!("::ffff:{:02x}{:02x}:{:02x}{:02x}/{}", o[0], o[1], o[2], o[3], mask as u32 + 96)
            }
            _ => format!("{a}/{mask}"),
        }
    } else {
        let a = Ipv6Addr::from(val.to_be_bytes());
        match c.rng.below(3) {
            0 => {
                let s = a.segments();
                format!("{:x}:{:x}:{:x}:{:x}:{:x}:{:x}:{:x}:{:x}/{mask}", s[0], s[1], s[2], s[3], s[4], s[5], s[6], s[7])
            }
            1 => format!("{}/{mask}", a.to_string().to_uppercase()),
            _ => format!("{a}/{mask}"),
        }
    }
}

fn width(v4: bool) -> u8 {
    if v4 { 32 } else { 128 }
}

/// random value that is *not* an IPv4-mapped IPv6 address when v6 (those are v4 by canonicalisation)
fn random_val(c: &mut Case, v4: bool) -> u128 {
    if v4 {
        let x = match c.rng.below(4) {
            0 => *c.rng.pick(&[0u32, 1, 0x7FFF_FFFF, 0x8000_0000, 0xFFFF_FFFF, 0x0A00_0000, 0xC0A8_0000]),
            _ => c.rng.u32(),
        };
        (x as u128) << 96
    } else {
        let hi = c.rng.u64() as u128;
        let lo = c.rng.u64() as u128;
        let mut v = match c.rng.below(5) {
            0 => lo,                                  // :: prefix region (includes v4-compatible and near-mapped)
            1 => (0xffffu128 << 32) ^ (1u128 << 48) | (lo & 0xffff_ffff), // ::1:ffff:a.b.c.d – not mapped
            2 => (0x2001_0db8u128 << 96) | lo,
            3 => u128::MAX - (lo & 0xff),
            _ => (hi << 64) | lo,
        };
        if canon(IpAddr::V6(Ipv6Addr::from(v.to_be_bytes()))).0 {
            v ^= 1u128 << 127;
        }
        v
    }
}

struct Built {
    strings: Vec<String>,
    refs: Vec<RefSubnet>,
    subnets: Vec<IpSubnet>,
    structure: u32,
}

fn push_subnet(c: &mut Case, b: &mut Built, v4: bool, val: u128, mask: u8) {
    // host bits are deliberately left as they are in some cases (a configured "10.1.2.3/8")
    let keep_host_bits = c.rng.chance(1, 4);
    let w = width(v4);
    let masked = if mask == 0 { 0 } else { val >> (128 - mask as u32) << (128 - mask as u32) };
    let shown = if keep_host_bits { val >> (128 - w as u32) << (128 - w as u32) } else { masked };
    let mut shown = shown;
    if !v4 && canon(addr_of(false, shown)).0 {
        // never write a v6 subnet whose address text is a mapped address unless meant as v4
        shown = masked;
        if canon(addr_of(false, shown)).0 {
            return;
        }
    }
    let s = subnet_string(c, v4, shown, mask);
    b.strings.push(s);
    b.refs.push(RefSubnet { v4, val: masked, mask });
}

fn build_list(c: &mut Case, universe: Option<(bool, u128, u8)>) -> Built {
    let mut b = Built { strings: vec![], refs: vec![], subnets: vec![], structure: 0 };
    let target = match c.rng.below(5) {
        0 => 0,
        1 => 1,
        2 => c.rng.usize(2, 6),
        _ => c.rng.usize(2, 40),
    };
    while b.refs.len() < target {
        let (v4, base, base_mask) = match universe {
            Some(u) if c.rng.chance(5, 6) => u,
            _ => {
                let v4 = c.rng.bool();
                let m = c.rng.below(width(v4) as u64 + 1) as u8;
                (v4, random_val(c, v4), m)
            }
        };
        let w = width(v4);
        // a random sub-prefix below the base
        let inside = |c: &mut Case, m: u8| -> u128 {
            let r = random_val(c, v4);
            let keep = if base_mask == 0 { 0 } else { base >> (128 - base_mask as u32) << (128 - base_mask as u32) };
            let rest = if base_mask as u32 >= 128 { 0 } else { r << base_mask as u32 >> base_mask as u32 };
            let v = keep | rest;
            if m == 0 { 0 } else { v >> (128 - m as u32) << (128 - m as u32) }
        };
        match c.rng.below(8) {
            0 | 1 => {
                // single subnet of any mask at or below the base
                let m = c.rng.range(base_mask as i64, w as i64) as u8;
                let v = inside(c, m);
                push_subnet(c, &mut b, v4, v, m);
                b.structure |= 1;
            }
            2 => {
                // nested chain
                let mut m = c.rng.range(base_mask as i64, w as i64) as u8;
                let v = inside(c, w);
                for _ in 0..c.rng.usize(2, 4) {
                    push_subnet(c, &mut b, v4, v, m);
                    if m >= w {
                        break;
                    }
                    m = c.rng.range(m as i64 + 1, w as i64) as u8;
                }
                b.structure |= 2;
            }
            3 => {
                // adjacent siblings
                let m = c.rng.range(base_mask.max(1) as i64, w as i64) as u8;
                let v = inside(c, m);
                let step = 1u128 << (128 - m as u32);
                let k = c.rng.usize(2, 5);
                for i in 0..k {
                    push_subnet(c, &mut b, v4, v.wrapping_add(step.wrapping_mul(i as u128)), m);
                }
                b.structure |= 4;
            }
            4 | 5 => {
                // covering of a parent prefix by unequal parts: split recursively, optionally drop one part
                let pm = c.rng.range(base_mask as i64, (w - 1) as i64) as u8;
                let pv = inside(c, pm);
                let mut parts: Vec<(u128, u8)> = vec![(pv, pm)];
                let splits = c.rng.usize(1, 14);
                for _ in 0..splits {
                    let i = c.rng.below(parts.len() as u64) as usize;
                    let (v, m) = parts[i];
                    if m >= w {
                        continue;
                    }
                    parts.swap_remove(i);
                    parts.push((v, m + 1));
                    parts.push((v | (1u128 << (127 - m as u32)), m + 1));
                }
                let complete = c.rng.bool();
                if !complete {
                    let i = c.rng.below(parts.len() as u64) as usize;
                    parts.swap_remove(i);
                    b.structure |= 16;
                } else {
                    b.structure |= 8;
                }
                c.rng.shuffle(&mut parts);
                for (v, m) in parts {
                    push_subnet(c, &mut b, v4, v, m);
                }
            }
            6 => {
                // the 16 children of a nibble-aligned prefix (complete nibble covering), maybe minus one
                let pm = 4 * c.rng.range((base_mask as i64 + 3) / 4, (w as i64 - 4) / 4) as u8;
                if pm + 4 <= w {
                    let pv = inside(c, pm);
                    let skip = if c.rng.bool() { Some(c.rng.below(16)) } else { None };
                    for i in 0..16u128 {
                        if Some(i as u64) == skip {
                            continue;
                        }
                        push_subnet(c, &mut b, v4, pv | (i << (124 - pm as u32)), pm + 4);
                    }
                    b.structure |= if skip.is_some() { 64 } else { 32 };
                }
            }
            _ => {
                // overlapping neighbours with different masks around one point
                let v = inside(c, w);
                for _ in 0..c.rng.usize(2, 4) {
                    let m = c.rng.range(base_mask as i64, w as i64) as u8;
                    let delta = (c.rng.below(5) as u128).wrapping_sub(2);
                    let shifted = if m == 0 { 0 } else { v.wrapping_add(delta.wrapping_mul(1u128 << (128 - m as u32))) };
                    push_subnet(c, &mut b, v4, shifted, m);
                }
                b.structure |= 128;
            }
        }
        if b.refs.len() > 60 {
            break;
        }
    }
    b
}

fn lookup_case(c: &mut Case, exhaustive_universe: bool) {
    let universe = if exhaustive_universe {
        let v4 = c.rng.bool();
        let m = if v4 { 20 } else { 116 };
        let v = random_val(c, v4);
        Some((v4, v >> 12 + (128 - width(v4) as u32) << 12 + (128 - width(v4) as u32), m))
    } else {
        None
    };
    let mut b = build_list(c, universe);
    // the configuration path: strings -> IpSubnet
    for (i, s) in b.strings.iter().enumerate() {
        match guard(|| IpSubnet::from_str(s)) {
            Ok(Ok(sn)) => b.subnets.push(sn),
            Ok(Err(e)) => {
                c.violation(
                    format!("from_str/rejects-valid/{}", c.profile),
                    format!("a well-formed subnet string is rejected: {s:?}: {e}"),
                    json!({"string": s, "reference": format!("{:?}", b.refs[i])}),
                );
                return;
            }
            Err(p) => {
                c.violation(format!("panic/from_str/{}/{}", c.profile, p.site()), format!("IpSubnet::from_str panicked on {s:?}: {}", p.message), json!({"string": s}));
                return;
            }
        }
    }
    let strings = b.strings.clone();
    let Some(filter) = c.no_panic("IpFilter::new", || json!({"subnets": strings}), || Filter::new(&b.subnets)) else { return };

    // addresses: the whole universe, edges of every subnet, random
    let mut addrs: Vec<IpAddr> = Vec::new();
    if let Some((v4, base, _)) = universe {
        let unit_shift = 128 - width(v4) as u32;
        for i in 0..4096u128 {
            let a = addr_of(v4, base | (i << unit_shift));
            addrs.push(a);
            if let IpAddr::V4(x) = a {
                if i % 3 == 0 {
                    addrs.push(mapped(x));
                }
            }
        }
        c.inc("universes_enumerated");
    }
    for r in &b.refs {
        let w = width(r.v4);
        let unit = 1u128 << (128 - w as u32);
        let size_minus_1 = if r.mask == 0 { u128::MAX >> (128 - w as u32) << (128 - w as u32) } else { ((1u128 << (w - r.mask) as u32) - 1) << (128 - w as u32) };
        let first = r.val;
        let last = r.val | size_minus_1;
        for v in [first, last, first.wrapping_sub(unit), last.wrapping_add(unit), first.wrapping_add(unit), last.wrapping_sub(unit)] {
            let v = v >> (128 - w as u32) << (128 - w as u32);
            let a = addr_of(r.v4, v);
            addrs.push(a);
            if let IpAddr::V4(x) = a {
                if c.rng.chance(1, 2) {
                    addrs.push(mapped(x));
                }
            }
        }
    }
    for _ in 0..20 {
        let v4 = c.rng.bool();
        let v = random_val(c, v4);
        let a = addr_of(v4, v);
        addrs.push(a);
        if let IpAddr::V4(x) = a {
            addrs.push(mapped(x));
        }
    }
    let (mut n_in, mut n_out) = (0u64, 0u64);
    let mut n_mapped = 0u64;
    for a in &addrs {
        let ca = canon(*a);
        let expect = b.refs.iter().any(|s| ref_contains(s, ca));
        let strings = &b.strings;
        let got = c.no_panic("IpFilter::is_in", || json!({"subnets": strings, "address": a.to_string()}), || filter.is_in(*a));
        let Some(got) = got else { return };
        if matches!(a, IpAddr::V6(_)) && ca.0 {
            n_mapped += 1;
        }
        if expect {
            n_in += 1;
        } else {
            n_out += 1;
        }
        if got != expect {
            let fam = if ca.0 { if matches!(a, IpAddr::V6(_)) { "v4mapped" } else { "v4" } } else { "v6" };
            c.violation(
                format!("is_in/{}/{fam}/{}", if expect { "missed" } else { "spurious" }, c.profile),
                format!("IpFilter::is_in({a}) = {got}, reference membership = {expect}"),
                json!({"subnets": b.strings, "address": a.to_string()}),
            );
            return;
        }
    }
    c.count("lookups", addrs.len() as u64);
    c.count("lookups_in", n_in);
    c.count("lookups_out", n_out);
    c.count("lookups_mapped", n_mapped);
    let has4 = b.refs.iter().any(|r| r.v4);
    let has6 = b.refs.iter().any(|r| !r.v4);
    c.sig_of(&("lookup", exhaustive_universe, has4, has6, (b.refs.len() + 3) / 4, b.structure, n_in == 0, n_out == 0));
    c.sample(|| json!({"subnets": b.strings.iter().take(8).collect::<Vec<_>>(), "n_subnets": b.strings.len(), "lookups": addrs.len(), "in": n_in, "out": n_out}));
}

/// reference grammar: Some(Ok((v4, value, mask))) accept, Some(Err) reject, None not judged
fn ref_parse(s: &str) -> Option<Result<(bool, u128, u8), ()>> {
    let Some((a, m)) = s.split_once('/') else { return Some(Err(())) };
    let Ok(addr) = IpAddr::from_str(a) else { return Some(Err(())) };
    if m.starts_with('+') {
        return None;
    }
    if m.is_empty() || !m.bytes().all(|b| b.is_ascii_digit()) {
        return Some(Err(()));
    }
    // decimal value, saturating
    let mut val: u64 = 0;
    for d in m.bytes() {
        val = (val * 10 + (d - b'0') as u64).min(1_000_000);
    }
    let (v4, v) = canon(addr);
    let is_mapped = matches!(addr, IpAddr::V6(_)) && v4;
    if is_mapped {
        if !(96..=128).contains(&val) {
            return Some(Err(()));
        }
        Some(Ok((true, v, (val - 96) as u8)))
    } else {
        let w = width(v4) as u64;
        if val > w {
            return Some(Err(()));
        }
        Some(Ok((v4, v, val as u8)))
    }
}

fn parse_case(c: &mut Case) {
    let n = 24;
    for _ in 0..n {
        let v4 = c.rng.bool();
        let val = random_val(c, v4);
        let w = width(v4);
        let mask_val: u32 = match c.rng.below(8) {
            0 => c.rng.below(w as u64 + 1) as u32,
            1 => *c.rng.pick(&[0u32, 1, 31, 32, 33, 95, 96, 97, 127, 128, 129, 255, 256, 300, 1000]),
            2 => w as u32,
            3 => w as u32 + 1,
            _ => c.rng.below(140) as u32,
        };
        let class = c.rng.below(14);
        let a4 = Ipv4Addr::from(((val >> 96) as u32).to_be_bytes());
        let a6 = Ipv6Addr::from(val.to_be_bytes());
        let astr = if v4 { a4.to_string() } else { a6.to_string() };
        let s = match class {
            0 | 1 | 2 => format!("{astr}/{mask_val}"),
            3 => format!("::ffff:{a4}/{mask_val}"),
            4 => {
                let o = a4.octets();
                format!("::FFFF:{:x}{:02x}:{:x}{:02x}/{mask_val}", o[0], o[1], o[2], o[3])
            }
            5 => astr.clone(),
            6 => format!("{astr}/"),
            7 => format!("/{mask_val}"),
            8 => format!("{astr}/{mask_val}/{mask_val}"),
            9 => format!("{astr}/{}", *c.rng.pick(&["-1", "x", " 8", "8 ", "0x10", "1e1", "٣", "8.0", "", "00000000000000000000008", "008", "256", "99999999999999999999"])),
            10 => format!("{}{astr}/{mask_val}", *c.rng.pick(&[" ", "[", "x", "::ffff:"])),
            11 => format!("{astr}{}/{mask_val}", *c.rng.pick(&[" ", "]", "%eth0", ".1", ":", "::"])),
            12 => format!("0:0:0:0:0:ffff:{a4}/{mask_val}"),
            _ => {
                // v4-compatible (not mapped) and other near-mapped forms stay IPv6
                let o = a4.octets();
                match c.rng.below(3) {
                    0 => format!("::{a4}/{mask_val}"),
                    1 => format!("::fffe:{:x}:{:x}/{mask_val}", u16::from_be_bytes([o[0], o[1]]), u16::from_be_bytes([o[2], o[3]])),
                    _ => format!("::1:ffff:{a4}/{mask_val}"),
                }
            }
        };
        let Some(expect) = ref_parse(&s) else {
            c.inc("parse_not_judged");
            continue;
        };
        let got = c.no_panic("IpSubnet::from_str", || json!({"string": s}), || IpSubnet::from_str(&s));
        let Some(got) = got else { return };
        match (&expect, &got) {
            (Ok((ev4, ev, em)), Ok(sn)) => {
                let (gv4, gv) = match sn.addr {
                    IpAddr::V4(x) => (true, (u32::from_be_bytes(x.octets()) as u128) << 96),
                    IpAddr::V6(x) => (false, u128::from_be_bytes(x.octets())),
                };
                if gv4 != *ev4 || gv != *ev || sn.mask != *em {
                    c.violation(
                        format!("from_str/wrong-subnet/{}", c.profile),
                        format!("{s:?} parsed as {}/{} but denotes {}/{}", sn.addr, sn.mask, addr_of(*ev4, *ev), em),
                        json!({"string": s}),
                    );
                    return;
                }
                c.inc("parse_accept");
                if s.contains("ffff:") && *ev4 {
                    c.inc("parse_mapped_accept");
                }
            }
            (Err(()), Err(_)) => c.inc("parse_reject"),
            (Ok((ev4, ev, em)), Err(e)) => {
                c.violation(
                    format!("from_str/rejects-valid/{}", c.profile),
                    format!("{s:?} is a valid subnet ({}/{}) but was rejected: {e}", addr_of(*ev4, *ev), em),
                    json!({"string": s}),
                );
                return;
            }
            (Err(()), Ok(sn)) => {
                c.violation(
                    format!("from_str/accepts-invalid/{}", c.profile),
                    format!("{s:?} is not a valid subnet but was accepted as {}/{}", sn.addr, sn.mask),
                    json!({"string": s}),
                );
                return;
            }
        }
        c.sig_of(&("parse", class, expect.is_ok(), v4, mask_val.min(130) / 8));
    }
}

fn run(c: &mut Case) {
    match c.idx % 4 {
        0 | 1 => lookup_case(c, true),
        2 => lookup_case(c, false),
        _ => parse_case(c),
    }
}
