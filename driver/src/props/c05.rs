//! C05 — offset and delay follow the NTP on-wire formulas.
//!
//! Events: the `InternalMeasurement` (offset, delay) that reaches the *inner* source
//! controller behind the repository's `TwoWaySourceControllerWrapper` /
//! `OneWaySourceControllerWrapper` (a recording `InternalTimeSyncController` written here
//! supplies the inner controllers), (a) when the wrappers are fed `Measurement` halves
//! directly and (b) end to end: real `NtpSource::handle_timer` -> request on the wire ->
//! answer built byte by byte with T2,T3 -> `handle_incoming(answer, T1, T4)`.
//!
//! Oracle: i128 reference arithmetic. `w(a-b)` = the shortest signed 64-bit difference.
//! `s = w(T2-T1) + w(T3-T4)`; when `s` fits an i64 ("representable") the delivered offset `o`
//! must satisfy `|2o - s| <= 1` (the statement does not fix the rounding of the halving);
//! `D = w(T4-T1) - w(T3-T2)`; when `D` fits an i64 the delivered delay must equal `D`.
//! One-way: `offset == w(remote - local)` always. Nothing is judged when `s`/`D` do not fit.

use std::sync::{Arc, Mutex};

use crate::common::srcasim::{self as sim, Datagram, Mode, Sim, Step};
use crate::core::{Case, Profiles, Prop, Tier};
use ntp_proto::verif::m::algorithm::{InternalMeasurement, InternalSourceController, InternalStateUpdate, InternalTimeSyncController};
use ntp_proto::verif::misc::{dur_to_i64, ts_from_u64, ts_to_u64};
use ntp_proto::{
    ClockId, Measurement, NtpClock, NtpDuration, NtpLeapIndicator, NtpTimestamp, ObservableSourceTimedata, PollInterval, SourceConfig,
    SourceController, SynchronizationConfig, TimeSyncController, TimeSyncControllerWrapper,
};
use serde_json::json;

pub static PROP: Prop = Prop {
    id: "C05",
    level: "exploration",
    rule: "case = 160 two-way timestamp quadruples + 160 one-way pairs fed to the real controller wrappers, plus one \
           end-to-end session (real NtpSource, v4 or v5, 6 exchanges with crafted T2/T3 in the answer and T1/T4 as call \
           arguments). Quadruples come from 7 classes: uniform, realistic exchange, all within a few ticks of an era \
           boundary, differences within a few ticks of +-2^63, equal/tiny differences, boundary lattice, one huge leg. \
           Shape signature = (path, class, sign of s, sign of D, s representable, D representable, any leg crossing the \
           era boundary); distinct signatures are counted.",
    assumptions: &[
        "the recording inner controllers are created through the public TimeSyncControllerWrapper::add_source/add_one_way_source",
        "raw fixed-point values are read through the pub(crate) accessors re-exported by the guarded hook",
        "rounding of the halving is not fixed by the statement: |2*offset - s| <= 1 is accepted",
    ],
    profiles: Profiles::Both,
    cases: |t| t.pick(40_000, 600_000),
    budget_s: |t| t.pick(60, 600),
    run,
    min_nontrivial: 60,
    required_counters: &["twoway_offset_judged", "twoway_delay_judged", "oneway_judged", "e2e_judged", "era_crossing_judged"],
    exhaustive: false,
    crash_is_violation: false,
};

// ---------------------------------------------------------------------------------------------
// recording controller (inner side of the repository's wrappers)

#[derive(Clone, Debug)]
struct Rec {
    offset: i64,
    delay: Option<i64>,
    localtime: u64,
}

type Log = Arc<Mutex<Vec<Rec>>>;

#[derive(Clone)]
struct LogClock {
    log: Log,
}

impl NtpClock for LogClock {
    type Error = std::io::Error;
    fn now(&self) -> Result<NtpTimestamp, Self::Error> {
        Ok(ts_from_u64(0))
    }
    fn set_frequency(&self, _f: f64) -> Result<NtpTimestamp, Self::Error> {
        self.now()
    }
    fn get_frequency(&self) -> Result<f64, Self::Error> {
        Ok(0.0)
    }
    fn step_clock(&self, _o: NtpDuration) -> Result<NtpTimestamp, Self::Error> {
        self.now()
    }
    fn disable_ntp_algorithm(&self) -> Result<(), Self::Error> {
        Ok(())
    }
    fn error_estimate_update(&self, _e: NtpDuration, _m: NtpDuration) -> Result<(), Self::Error> {
        Ok(())
    }
    fn status_update(&self, _l: NtpLeapIndicator) -> Result<(), Self::Error> {
        Ok(())
    }
}

struct RecCtl {
    log: Log,
}
struct RecTwoWay {
    log: Log,
}
struct RecOneWay {
    log: Log,
}

impl InternalSourceController for RecTwoWay {
    type ControllerMessage = ();
    type SourceMessage = ();
    type MeasurementDelay = NtpDuration;
    fn handle_message(&mut self, _m: ()) {}
    fn handle_measurement(&mut self, m: InternalMeasurement<NtpDuration>) -> Option<()> {
        self.log.lock().unwrap().push(Rec {
            offset: dur_to_i64(m.offset),
            delay: Some(dur_to_i64(m.delay)),
            localtime: ts_to_u64(m.localtime),
        });
        None
    }
    fn desired_poll_interval(&self) -> PollInterval {
        PollInterval::from_byte(4)
    }
    fn observe(&self) -> ObservableSourceTimedata {
        ObservableSourceTimedata::default()
    }
}

impl InternalSourceController for RecOneWay {
    type ControllerMessage = ();
    type SourceMessage = ();
    type MeasurementDelay = ();
    fn handle_message(&mut self, _m: ()) {}
    fn handle_measurement(&mut self, m: InternalMeasurement<()>) -> Option<()> {
        self.log.lock().unwrap().push(Rec {
            offset: dur_to_i64(m.offset),
            delay: None,
            localtime: ts_to_u64(m.localtime),
        });
        None
    }
    fn desired_poll_interval(&self) -> PollInterval {
        PollInterval::from_byte(4)
    }
    fn observe(&self) -> ObservableSourceTimedata {
        ObservableSourceTimedata::default()
    }
}

impl InternalTimeSyncController for RecCtl {
    type Clock = LogClock;
    type AlgorithmConfig = ();
    type ControllerMessage = ();
    type SourceMessage = ();
    type NtpSourceController = RecTwoWay;
    type OneWaySourceController = RecOneWay;
    fn new(clock: LogClock, _s: SynchronizationConfig, _a: ()) -> Result<Self, std::io::Error> {
        Ok(RecCtl { log: clock.log.clone() })
    }
    fn take_control(&mut self) -> Result<(), std::io::Error> {
        Ok(())
    }
    fn add_source(&mut self, _id: ClockId, _c: SourceConfig) -> RecTwoWay {
        RecTwoWay { log: self.log.clone() }
    }
    fn add_one_way_source(&mut self, _id: ClockId, _c: SourceConfig, _n: f64, _a: f64, _p: Option<f64>) -> RecOneWay {
        RecOneWay { log: self.log.clone() }
    }
    fn remove_source(&mut self, _id: ClockId) {}
    fn source_update(&mut self, _id: ClockId, _usable: bool) {}
    fn source_message(&mut self, _id: ClockId, _m: ()) -> InternalStateUpdate<()> {
        InternalStateUpdate::default()
    }
    fn time_update(&mut self) -> InternalStateUpdate<()> {
        InternalStateUpdate::default()
    }
}

// ---------------------------------------------------------------------------------------------
// reference arithmetic (i128)

const TWO63: i128 = 1i128 << 63;
const TWO64: i128 = 1i128 << 64;

/// shortest signed 64-bit difference a - b
fn w(a: u64, b: u64) -> i128 {
    let d = a as i128 - b as i128;
    (d + TWO63).rem_euclid(TWO64) - TWO63
}

fn fits(x: i128) -> bool {
    x >= i64::MIN as i128 && x <= i64::MAX as i128
}

/// the leg a->b passes the era boundary (2^64 -> 0) when walked along its shortest signed difference
fn crosses(a: u64, b: u64) -> bool {
    let d = w(b, a);
    let end = a as i128 + d;
    end < 0 || end >= TWO64
}

const LATTICE: &[u64] = &[
    0,
    1,
    2,
    u64::MAX,
    u64::MAX - 1,
    1 << 63,
    (1 << 63) - 1,
    (1 << 63) + 1,
    1 << 32,
    (1 << 32) - 1,
    0xFFFF_FFFF_0000_0000,
    0x8000_0000_0000_0000 - (1 << 32),
    0x7FFF_FFFF_FFFF_FFFF,
    0x4000_0000_0000_0000,
    0xC000_0000_0000_0000,
    0xEC7A_4F00_0000_0000, // 2025-ish
];

fn small(c: &mut Case) -> u64 {
    match c.rng.below(4) {
        0 => c.rng.range(-3, 3) as u64,
        1 => c.rng.range(-(1 << 20), 1 << 20) as u64,
        2 => c.rng.range(-(1i64 << 34), 1i64 << 34) as u64,
        _ => c.rng.range(-(1i64 << 40), 1i64 << 40) as u64,
    }
}

fn quadruple(c: &mut Case, class: u64) -> [u64; 4] {
    match class {
        0 => [c.rng.u64(), c.rng.u64(), c.rng.u64(), c.rng.u64()],
        1 => {
            // realistic exchange: clock offset up to hours, path delays up to seconds
            let t1 = if c.rng.bool() { c.rng.u64() } else { 0xEC7A_4F00_0000_0000u64.wrapping_add(c.rng.u64() >> 8) };
            let off = c.rng.range(-(1i64 << 44), 1i64 << 44) as u64;
            let d1 = c.rng.below(1 << 33);
            let d2 = c.rng.below(1 << 33);
            let proc_ = c.rng.below(1 << 24);
            let t2 = t1.wrapping_add(off).wrapping_add(d1);
            let t3 = t2.wrapping_add(proc_);
            let t4 = t1.wrapping_add(d1).wrapping_add(proc_).wrapping_add(d2);
            [t1, t2, t3, t4]
        }
        2 => {
            // everything within a short distance of the era boundary
            let mut q = [0u64; 4];
            for x in q.iter_mut() {
                *x = small(c);
            }
            q
        }
        3 => {
            // legs close to +-2^63
            let t1 = c.rng.edge_u64();
            let t2 = t1.wrapping_add(1 << 63).wrapping_add(small(c));
            let t4 = if c.rng.bool() { t1.wrapping_add(small(c)) } else { t2.wrapping_add(small(c)) };
            let t3 = if c.rng.bool() { t4.wrapping_add(1 << 63).wrapping_add(small(c)) } else { t2.wrapping_add(small(c)) };
            [t1, t2, t3, t4]
        }
        4 => {
            let t = if c.rng.bool() { c.rng.u64() } else { *c.rng.pick(LATTICE) };
            let mut q = [t; 4];
            for x in q.iter_mut() {
                if c.rng.chance(1, 2) {
                    *x = x.wrapping_add(c.rng.range(-2, 2) as u64);
                }
            }
            q
        }
        5 => {
            let mut q = [0u64; 4];
            for x in q.iter_mut() {
                *x = c.rng.pick(LATTICE).wrapping_add(if c.rng.bool() { 0 } else { c.rng.range(-2, 2) as u64 });
            }
            q
        }
        _ => {
            // one huge leg, the rest realistic
            let mut q = quadruple(c, 1);
            let k = c.rng.below(4) as usize;
            q[k] = q[k].wrapping_add(c.rng.edge_u64());
            q
        }
    }
}

struct Judged {
    s_rep: bool,
    d_rep: bool,
}

/// Judge one delivered two-way measurement against the reference.
fn judge_two_way(c: &mut Case, path: &'static str, class: u64, q: [u64; 4], rec: Option<&Rec>, extra: serde_json::Value) -> Judged {
    let [t1, t2, t3, t4] = q;
    let s = w(t2, t1) + w(t3, t4);
    let d = w(t4, t1) - w(t3, t2);
    let crossing = crosses(t1, t2) || crosses(t4, t3) || crosses(t1, t4) || crosses(t2, t3);
    let detail = |rec: Option<&Rec>| {
        json!({"path": path, "class": class, "T1": format!("{t1:#018x}"), "T2": format!("{t2:#018x}"), "T3": format!("{t3:#018x}"), "T4": format!("{t4:#018x}"),
               "reference_2x_offset": s.to_string(), "reference_delay": d.to_string(),
               "delivered_offset": rec.map(|r| r.offset), "delivered_delay": rec.and_then(|r| r.delay), "extra": extra})
    };
    c.sig_of(&(path, class, s.signum(), d.signum(), fits(s), fits(d), crossing));
    let Some(rec) = rec else {
        if fits(s) && fits(d) {
            c.violation(format!("{path}/no-measurement/{}", c.profile), "a representable exchange produced no measurement for the inner controller", detail(None));
        }
        return Judged { s_rep: fits(s), d_rep: fits(d) };
    };
    if fits(s) {
        c.inc("twoway_offset_judged");
        if crossing {
            c.inc("era_crossing_judged");
        }
        let two_o = 2 * rec.offset as i128;
        if (two_o - s).abs() > 1 {
            let kind = if crossing { "era" } else { "plain" };
            c.violation(
                format!("{path}/offset/{kind}/{}", c.profile),
                format!("offset {} but ((T2-T1)+(T3-T4)) = {} (2*offset must be within 1 of it)", rec.offset, s),
                detail(Some(rec)),
            );
        }
    } else {
        c.inc("offset_unrepresentable_skipped");
    }
    if fits(d) {
        c.inc("twoway_delay_judged");
        if rec.delay.map(|x| x as i128) != Some(d) {
            let kind = if crossing { "era" } else { "plain" };
            c.violation(
                format!("{path}/delay/{kind}/{}", c.profile),
                format!("delay {:?} but (T4-T1)-(T3-T2) = {}", rec.delay, d),
                detail(Some(rec)),
            );
        }
    } else {
        c.inc("delay_unrepresentable_skipped");
    }
    Judged { s_rep: fits(s), d_rep: fits(d) }
}

fn meas(sender_id: ClockId, receiver_id: ClockId, sender: u64, receiver: u64) -> Measurement {
    Measurement {
        sender_id,
        receiver_id,
        sender_ts: ts_from_u64(sender),
        receiver_ts: ts_from_u64(receiver),
        root_delay: NtpDuration::default(),
        root_dispersion: NtpDuration::default(),
        leap: NtpLeapIndicator::NoWarning,
        precision: -20,
    }
}

fn run(c: &mut Case) {
    let log: Log = Arc::new(Mutex::new(Vec::new()));
    let wrapper = match <TimeSyncControllerWrapper<RecCtl> as TimeSyncController>::new(LogClock { log: log.clone() }, SynchronizationConfig::default(), ()) {
        Ok(w) => w,
        Err(e) => {
            c.harness_error(format!("wrapper: {e}"));
            return;
        }
    };
    let id = ClockId::new();
    let mut two = wrapper.add_source(id, SourceConfig::default());
    let mut one = wrapper.add_one_way_source(ClockId::new(), SourceConfig::default(), 1e-6, 1e-6, None);

    // (a) direct: two-way
    for i in 0..160u64 {
        let class = (c.idx + i) % 7;
        let q = quadruple(c, class);
        log.lock().unwrap().clear();
        let r = crate::core::guard(|| {
            two.handle_measurement(meas(ClockId::SYSTEM, id, q[0], q[1]));
            two.handle_measurement(meas(id, ClockId::SYSTEM, q[2], q[3]));
        });
        let recs = log.lock().unwrap().clone();
        match r {
            Ok(()) => {
                if recs.len() > 1 {
                    c.violation(format!("direct/multiple/{}", c.profile), "one exchange produced several measurements", json!({"q": q.to_vec(), "n": recs.len()}));
                }
                judge_two_way(c, "direct", class, q, recs.first(), json!(null));
            }
            Err(p) => {
                let s = w(q[1], q[0]) + w(q[2], q[3]);
                let d = w(q[3], q[0]) - w(q[2], q[1]);
                if fits(s) && fits(d) {
                    c.violation(
                        format!("direct/panic/{}/{}", c.profile, p.site()),
                        format!("panic while combining a representable exchange: {} {}", p.location, p.message),
                        json!({"T1": q[0], "T2": q[1], "T3": q[2], "T4": q[3]}),
                    );
                } else {
                    c.inc("panic_on_unrepresentable_ignored");
                }
                // the wrapper may hold a stale outgoing half; flush it
                let _ = crate::core::guard(|| two.handle_measurement(meas(id, ClockId::SYSTEM, 0, 0)));
            }
        }
    }

    // (a) direct: one-way
    for i in 0..160u64 {
        let class = (c.idx + i) % 7;
        let q = quadruple(c, class);
        let (remote, local) = (q[1], q[0]);
        log.lock().unwrap().clear();
        let r = crate::core::guard(|| one.handle_measurement(meas(ClockId::new(), ClockId::SYSTEM, remote, local)));
        let recs = log.lock().unwrap().clone();
        let expect = w(remote, local);
        c.sig_of(&("oneway", class, expect.signum(), crosses(local, remote)));
        match r {
            Ok(()) => {
                c.inc("oneway_judged");
                if crosses(local, remote) {
                    c.inc("era_crossing_judged");
                }
                let got = recs.first().map(|r| r.offset as i128);
                if got != Some(expect) || recs.len() != 1 {
                    c.violation(
                        format!("oneway/offset/{}", c.profile),
                        format!("one-way offset {:?} but remote - local = {}", got, expect),
                        json!({"remote": format!("{remote:#018x}"), "local": format!("{local:#018x}"), "records": recs.len()}),
                    );
                }
            }
            Err(p) => c.violation(
                format!("oneway/panic/{}/{}", c.profile, p.site()),
                format!("panic in the one-way wrapper: {} {}", p.location, p.message),
                json!({"remote": remote, "local": local}),
            ),
        }
    }

    // (b) end to end through NtpSource
    let mode = if c.idx % 2 == 0 { Mode::V4 } else { Mode::V5 };
    let ctl = wrapper.add_source(ClockId::new(), SourceConfig::default());
    let mut s = Sim::new(mode, (4, 4, 10), ctl, c.rng.u64(), 16);
    for i in 0..6u64 {
        let class = (c.idx / 2 + i) % 7;
        let q = quadruple(c, class);
        let t = s.fire_timer();
        if let Some(p) = &t.panicked {
            c.harness_error(format!("handle_timer panicked: {p}"));
            return;
        }
        let Some(si) = t.sent else {
            c.harness_error(format!("e2e: no request sent at exchange {i}: {:?}", t.acts));
            return;
        };
        let req = s.sent[si].clone();
        let stratum = c.rng.range(1, 15) as u8;
        let ans = sim::genuine(&req, stratum, q[1], q[2], false, c.rng.u64());
        let mut d = Datagram::new(ans.encode(), "genuine");
        d.t1 = Some(q[0]);
        d.t4 = Some(q[3]);
        log.lock().unwrap().clear();
        let out = s.deliver(&d);
        let recs = log.lock().unwrap().clone();
        let extra = json!({"mode": mode.name(), "request": crate::core::hex(&req.bytes), "answer": crate::core::hex(&d.bytes)});
        if let Some(p) = &out.panicked {
            let sref = w(q[1], q[0]) + w(q[2], q[3]);
            let dref = w(q[3], q[0]) - w(q[2], q[1]);
            if fits(sref) && fits(dref) {
                c.violation(format!("e2e/panic/{}", c.profile), format!("panic in handle_incoming on a representable exchange: {p}"), extra);
            }
            return;
        }
        if recs.len() > 1 {
            c.violation(format!("e2e/multiple/{}", c.profile), "one answer produced several measurements", extra.clone());
        }
        c.inc("e2e_judged");
        judge_two_way(c, "e2e", class, q, recs.first(), extra);
    }
    if c.wants_sample() {
        c.sample(|| json!({"mode": mode.name(), "direct_quadruples": 160, "oneway_pairs": 160, "e2e_exchanges": 6}));
    }
}
