//! C24 — NTP packets survive a decode/encode round trip (NoCipher).
//!
//! Events: p1 = dec(b), e1 = enc(p1), p2 = dec(e1), e2 = enc(p2), p3 = dec(e2).
//! Oracle (straight from the statement): dec(b) Ok  =>  enc(p1) Ok (buffer 4|b|+64), dec(e1) Ok,
//! enc(p2) Ok, e2 == e1, p3 == p2; and none of the steps after the first decode panics.
//! A panic or error of dec(b) itself is outside this statement (C23 judges it).

use std::io::Cursor;

use crate::common::pktgen::{self, KIND_NAMES, World};
use crate::core::{Case, Profiles, Prop, Tier, guard, hex};
use ntp_proto::verif::packet::a6 as hk;
use ntp_proto::{NoCipher, NtpPacket};
use serde_json::json;

pub static PROP: Prop = Prop {
    id: "C24",
    level: "exploration",
    rule: "case = one byte string: structurally well-formed v3/v4/v5 packets from the grammar generator (0-6 extension \
           fields of every type: unique id, cookie, placeholder, unknown, draft id, padding, reference-id request and \
           response of every length, header-only and large fields; legacy MAC tails of 1-30 bytes), the same after \
           structure-blind mutation or a length-field boundary rewrite, and hostile/raw inputs. Only inputs the real \
           decoder accepts with NoCipher are judged. Distinct non-trivial = distinct (version, set of field kinds, \
           MAC present, size changed by normalisation) among accepted inputs.",
    assumptions: &[
        "encode buffer is 4*|b|+64 bytes as in the design (the repository's own fuzz target assumes growth <= 4x)",
        "packet equality is the repository's derived PartialEq on NtpPacket",
    ],
    profiles: Profiles::Both,
    cases: |t| t.pick(900_000, 9_000_000),
    budget_s: |t| t.pick(40, 420),
    run,
    min_nontrivial: 50,
    required_counters: &[
        "accepted_v3",
        "accepted_v4",
        "accepted_v5",
        "accepted_with_mac",
        "accepted_kind_unique-id",
        "accepted_kind_cookie",
        "accepted_kind_placeholder",
        "accepted_kind_unknown",
        "accepted_kind_draft-id",
        "accepted_kind_padding",
        "accepted_kind_refid-req",
        "accepted_kind_refid-resp",
        "chain_completed",
    ],
    exhaustive: false,
    crash_is_violation: true,
};

fn encode(p: &NtpPacket<'_>, cap: usize) -> std::io::Result<Vec<u8>> {
    let mut buf = vec![0u8; cap];
    let mut cur = Cursor::new(buf.as_mut_slice());
    p.serialize(&mut cur, &NoCipher, None)?;
    let n = cur.position() as usize;
    buf.truncate(n);
    Ok(buf)
}

pub fn run(c: &mut Case) {
    let world = World::new(&mut c.rng);
    if c.idx < 3 {
        // fixed minimal witnesses for section 6 of the design: an NTPv5 request with a draft-id field and a
        // reference-id request field whose payload is 2, 3 and 5 bytes long (any seed, idx 0..2)
        let mut b = vec![0u8; 48];
        b[0] = (5 << 3) | 3;
        b.extend(crate::common::refntp::encode_field(crate::common::refntp::EF_V5_DRAFT_ID, world.draft.as_bytes(), true, None));
        let n = [2usize, 3, 5][c.idx as usize];
        b.extend(crate::common::refntp::encode_field(crate::common::refntp::EF_V5_REFID_REQ, &vec![0u8; n], true, None));
        check_roundtrip(c, &b, &[4, 6], true);
        return;
    }
    let class = c.idx % 10;
    let (b, kinds, pristine): (Vec<u8>, Vec<u8>, bool) = match class {
        0 => {
            let (b, k) = pktgen::plain_packet(&mut c.rng, &world, 3);
            (b, k, true)
        }
        1 | 2 | 3 => {
            let (b, k) = pktgen::plain_packet(&mut c.rng, &world, 4);
            (b, k, true)
        }
        4 | 5 | 6 => {
            let (b, k) = pktgen::plain_packet(&mut c.rng, &world, 5);
            (b, k, true)
        }
        7 => {
            let ver = *c.rng.pick(&[3u8, 4, 5]);
            let (mut b, k) = pktgen::plain_packet(&mut c.rng, &world, ver);
            pktgen::mutate(&mut c.rng, &mut b);
            (b, k, false)
        }
        8 => {
            let ver = *c.rng.pick(&[3u8, 4, 5]);
            let (mut b, k) = pktgen::plain_packet(&mut c.rng, &world, ver);
            pktgen::boundary(&mut c.rng, &mut b);
            (b, k, false)
        }
        _ => {
            let cl = *c.rng.pick(&[0usize, 2, 8]);
            (pktgen::input_of_class(&mut c.rng, &world, cl), vec![], false)
        }
    };
    check_roundtrip(c, &b, &kinds, pristine);
}

pub fn check_roundtrip(c: &mut Case, b: &[u8], kinds: &[u8], pristine: bool) {
    c.inc("inputs");
    // step 0: the first decode decides whether the statement applies
    let p1 = match guard(|| NtpPacket::deserialize(b, &NoCipher)) {
        Ok(Ok((p, _))) => p,
        Ok(Err(_)) => {
            c.inc("rejected");
            return;
        }
        Err(_) => {
            c.inc("first_decode_panicked_not_judged");
            return;
        }
    };
    let version = (b[0] >> 3) & 7;
    c.inc(&format!("accepted_v{version}"));
    let (_, _, n_untrusted, has_mac) = hk::field_counts(&p1);
    if has_mac {
        c.inc("accepted_with_mac");
    }
    if pristine {
        for k in kinds {
            if (*k as usize) < KIND_NAMES.len() {
                c.inc(&format!("accepted_kind_{}", KIND_NAMES[*k as usize]));
            }
        }
    }
    let cap = 4 * b.len() + 64;
    let p1_dbg = format!("{p1:?}");
    let det0 = || json!({"input_hex": hex(b), "decoded": p1_dbg});
    let vtag = format!("v{version}/{}", c.profile);

    let Some(e1) = c.no_panic("encode(p1)", det0, || encode(&p1, cap)) else { return };
    let e1 = match e1 {
        Ok(e) => e,
        Err(err) => {
            c.violation(
                format!("enc1-error/{vtag}"),
                format!("an accepted packet cannot be encoded again: {err}"),
                json!({"input_hex": hex(b), "decoded": p1_dbg, "error": err.to_string(), "buffer": cap}),
            );
            return;
        }
    };
    let det1 = || json!({"input_hex": hex(b), "decoded": p1_dbg, "e1_hex": hex(&e1)});
    let Some(r2) = c.no_panic("decode(e1)", det1, || NtpPacket::deserialize(&e1, &NoCipher).map(|(p, _)| p).map_err(|e| e.to_string())) else { return };
    let p2 = match r2 {
        Ok(p) => p,
        Err(err) => {
            c.violation(
                format!("dec-e1-error/{vtag}"),
                format!("the re-encoding of an accepted packet is rejected by the decoder: {err}"),
                json!({"input_hex": hex(b), "decoded": p1_dbg, "e1_hex": hex(&e1), "error": err}),
            );
            return;
        }
    };
    let p2_dbg = format!("{p2:?}");
    let det2 = || json!({"input_hex": hex(b), "e1_hex": hex(&e1), "p2": p2_dbg});
    let Some(e2) = c.no_panic("encode(p2)", det2, || encode(&p2, 4 * e1.len() + 64)) else { return };
    let e2 = match e2 {
        Ok(e) => e,
        Err(err) => {
            c.violation(
                format!("enc2-error/{vtag}"),
                format!("the normalised packet cannot be encoded: {err}"),
                json!({"input_hex": hex(b), "e1_hex": hex(&e1), "p2": p2_dbg, "error": err.to_string()}),
            );
            return;
        }
    };
    if e2 != e1 {
        c.violation(
            format!("unstable-bytes/{vtag}"),
            "encoding is not stable after one normalising round: enc(dec(e1)) != e1",
            json!({"input_hex": hex(b), "e1_hex": hex(&e1), "e2_hex": hex(&e2), "p1": p1_dbg, "p2": p2_dbg}),
        );
        return;
    }
    let det3 = || json!({"input_hex": hex(b), "e2_hex": hex(&e2)});
    let Some(r3) = c.no_panic("decode(e2)", det3, || NtpPacket::deserialize(&e2, &NoCipher).map(|(p, _)| p == p2).map_err(|e| e.to_string())) else { return };
    match r3 {
        Ok(true) => {}
        Ok(false) => c.violation(
            format!("unstable-packet/{vtag}"),
            "decoding the re-encoded packet does not yield the same packet",
            json!({"input_hex": hex(b), "e1_hex": hex(&e1), "p2": p2_dbg}),
        ),
        Err(err) => c.violation(
            format!("dec-e2-error/{vtag}"),
            format!("second re-encoding rejected: {err}"),
            json!({"input_hex": hex(b), "e2_hex": hex(&e2)}),
        ),
    }
    c.inc("chain_completed");
    if e1.len() != b.len() {
        c.inc("normalisation_changed_size");
    }
    let mut ks: Vec<u8> = kinds.to_vec();
    ks.sort();
    ks.dedup();
    c.sig_of(&(version, if pristine { ks } else { vec![255] }, n_untrusted.min(7), has_mac, e1.len() != b.len()));
    c.sample(|| json!({"input_hex": hex(&b[..b.len().min(120)]), "e1_len": e1.len(), "input_len": b.len()}));
}

/// byte-driven entry (libFuzzer tier / `verif-driver bytes C24 <file>`)
pub fn fuzz_bytes(c: &mut Case, data: &[u8]) {
    check_roundtrip(c, data, &[], false);
}
