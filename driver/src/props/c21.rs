//! C21 — server statistics account for every datagram exactly once.
//!
//! Events: `ServerStatHandler::register` calls seen by a spy during each `Server::handle`, the
//! action taken (reply decoded by the reference decoder), and the daemon's `ServerStats` counters
//! fed by the same calls. Oracle: exactly one registration per datagram, kind = what happened,
//! NTS flag false for plain datagrams and true for answered NTS requests, counters consistent.

use crate::common::refntp;
use crate::common::srvsim::{self as sim, NtsStatus, ReplyKind};
use crate::core::{Case, Profiles, Prop, Tier, hex};
use ntp_proto::{ServerReason, ServerResponse};
use serde_json::json;

pub static PROP: Prop = Prop {
    id: "C21",
    level: "exploration",
    rule: "case = one real Server (random lists/actions, require-nts, version subsets, rate limiter with cut-off 0 or 1 h, rotated key \
           set) handling 24 datagrams (valid grammar incl. failing NTS plans, spoiled, RFC-bending, mutated, raw) with a request-sized \
           (1/2), 8 KiB (1/4) or 0-47-byte (1/4) response buffer; the spy forwards every call to the daemon's ServerStats. Non-trivial = \
           one handled datagram; distinct = (generator class, buffer class, action/reply kind, registered reason/response/nts).",
    assumptions: &[
        "whether a datagram 'is an NTS request' is decided by the monitor: no authenticator field at top level (reference parser) = plain; one authenticator that verifies under the cookie's c2s key = authentic NTS; the NTS flag of an unverifiable request that is denied or ignored is not judged",
        "the reply kind is decoded independently from the reply bytes (stratum / kiss code / NTPv5 flags)",
    ],
    profiles: Profiles::Ship,
    cases: |t| t.pick(80_000, 1_000_000),
    budget_s: |t| t.pick(40, 400),
    run,
    min_nontrivial: 500,
    required_counters: &[
        "datagrams", "kind_time", "kind_deny", "kind_nak", "kind_ignore", "plain_flag_checked", "nts_answered_flag_checked",
        "nak_flag_checked", "tiny_buffer", "big_buffer", "internal_error_registered", "counter_sets_checked",
    ],
    exhaustive: false,
    crash_is_violation: false,
};

fn run(c: &mut Case) {
    let recv = c.rng.u64();
    let cfg = sim::gen_cfg(&mut c.rng, sim::CfgOpts { lists: true, rate: sim::RateMode::Any, require_nts: true, version_subsets: true });
    let (spec, info) = sim::gen_info(&mut c.rng, recv, false);
    let keys = match sim::gen_keys(&mut c.rng, 4, 3) {
        Ok(k) => k,
        Err(e) => return c.harness_error(e),
    };
    let now = recv.wrapping_add(c.rng.below(1 << 30));
    let mut w = match sim::build_world(cfg, spec, info, keys, now) {
        Ok(w) => w,
        Err(e) => return c.harness_error(e),
    };
    let mut spy = sim::Spy { regs: vec![], forward: Some(Default::default()) };
    let mut tally = [0u64; 5]; // time, deny, nak, ignore, datagrams
    let mut rate_limited = 0u64;
    let pool: Vec<std::net::IpAddr> = (0..4).map(|_| sim::gen_client_passing(&mut c.rng, &w.cfg).unwrap_or_else(|| sim::gen_client(&mut c.rng, &w.cfg))).collect();
    for k in 0..24u64 {
        let flavor = *c.rng.pick(&sim::FLAVORS);
        let req = match c.rng.below(8) {
            0 | 1 | 2 => sim::gen_any(&mut c.rng, &w.keys),
            3 => sim::gen_valid(&mut c.rng, flavor, &w.keys, sim::NtsPlan::Good).map(|b| sim::spoil(&mut c.rng, &b)),
            _ => {
                let plan = if c.rng.chance(1, 4) { *c.rng.pick(&[sim::NtsPlan::WrongKey, sim::NtsPlan::GarbageCookie, sim::NtsPlan::ForeignCookie]) } else { sim::NtsPlan::Good };
                sim::gen_valid(&mut c.rng, flavor, &w.keys, plan)
            }
        };
        let req = match req {
            Ok(r) => r,
            Err(e) => {
                c.harness_error(e);
                continue;
            }
        };
        // a small pool of permitted addresses (so that the rate limiter sees repeats) plus strangers
        let ip = if c.rng.chance(2, 3) { *c.rng.pick(&pool) } else { sim::gen_client(&mut c.rng, &w.cfg) };
        let (buf_len, buf_class) = match c.rng.below(4) {
            0 => {
                c.inc("tiny_buffer");
                (c.rng.usize(0, 47), "tiny")
            }
            1 => {
                c.inc("big_buffer");
                (8192, "big")
            }
            _ => (req.bytes.len(), "request"),
        };
        let server = &mut w.server;
        let h = match crate::core::guard(|| sim::handle_buf(server, &mut spy, ip, recv.wrapping_add(k), &req.bytes, buf_len)) {
            Ok(h) => h,
            Err(_) => {
                c.inc("panics_not_judged_here");
                return;
            }
        };
        c.inc("datagrams");
        tally[4] += 1;
        let kind = h.reply.as_ref().and_then(|r| refntp::parse_header(r)).map(|h| sim::classify(&h));
        let detail = || {
            json!({"request": req.json(), "client": ip.to_string(), "buffer": buf_len, "config": w.cfg.json(),
                   "reply": h.reply.as_ref().map(|r| hex(r)), "reply_kind": format!("{kind:?}"),
                   "registered": h.regs.iter().map(|r| r.json()).collect::<Vec<_>>()})
        };
        // --- exactly once ---
        if h.regs.len() != 1 {
            let n = if h.regs.is_empty() { "none" } else { "several" };
            c.violation(format!("stats/count/{n}/{}", if h.reply.is_some() { "respond" } else { "ignore" }), format!("{} statistics registrations for one datagram", h.regs.len()), detail());
            continue;
        }
        let reg = h.regs[0];
        c.sig_of(&(&req.truth.class, buf_class, kind, reg));
        if reg.reason == ServerReason::InternalError {
            c.inc("internal_error_registered");
        }
        if reg.reason == ServerReason::RateLimit && reg.response == ServerResponse::Ignore {
            rate_limited += 1;
        }
        // --- kind matches what was done ---
        let expected = match (&h.reply, kind) {
            (None, _) => {
                c.inc("kind_ignore");
                tally[3] += 1;
                Some(ServerResponse::Ignore)
            }
            (Some(_), Some(ReplyKind::Time)) => {
                c.inc("kind_time");
                tally[0] += 1;
                Some(ServerResponse::ProvideTime)
            }
            (Some(_), Some(ReplyKind::Deny)) => {
                c.inc("kind_deny");
                tally[1] += 1;
                Some(ServerResponse::Deny)
            }
            (Some(_), Some(ReplyKind::Nak)) => {
                c.inc("kind_nak");
                tally[2] += 1;
                Some(ServerResponse::NTSNak)
            }
            _ => None,
        };
        match expected {
            Some(e) if e != reg.response => {
                c.violation(
                    format!("stats/kind/{:?}-registered-as-{:?}", e, reg.response),
                    format!("the server did {:?} but registered {:?}", e, reg.response),
                    detail(),
                );
            }
            None => c.inc("reply_kind_not_classified"),
            _ => {}
        }
        // --- NTS flag ---
        match sim::nts_status(&req.bytes, &w.keys.current()) {
            NtsStatus::Plain => {
                c.inc("plain_flag_checked");
                if reg.nts {
                    c.violation(format!("stats/nts-flag/plain-flagged/{:?}", reg.response), "a datagram without NTS authenticator was counted as NTS", detail());
                }
            }
            NtsStatus::Authentic { .. } => {
                if h.reply.is_some() {
                    c.inc("nts_answered_flag_checked");
                    if !reg.nts {
                        c.violation(format!("stats/nts-flag/answered-nts-not-flagged/{:?}", reg.response), "an authenticated NTS request was answered but not counted as NTS", detail());
                    }
                }
            }
            NtsStatus::Failing => {
                if kind == Some(ReplyKind::Nak) {
                    c.inc("nak_flag_checked");
                    if !reg.nts {
                        c.violation("stats/nts-flag/nak-not-flagged", "an NTS NAK was sent but not counted as NTS", detail());
                    }
                } else {
                    c.inc("unverifiable_not_judged");
                }
            }
            NtsStatus::Unclear => c.inc("unclear_not_judged"),
        }
        if k == 0 {
            c.sample(detail);
        }
    }
    // --- the daemon's counters ---
    let s = ntpd::verif::srvx::stats_vector(spy.forward.as_ref().unwrap());
    c.inc("counter_sets_checked");
    let [received, accepted, denied, ignored, limited, _send_err, nts_received, nts_accepted, nts_denied, nts_limited, nak] = s;
    let cd = || json!({"counters": s, "tally_time_deny_nak_ignore_datagrams": tally, "rate_limited_registrations": rate_limited, "config": w.cfg.json()});
    if received != tally[4] {
        c.violation("stats/counters/received", format!("received_packets = {received} after {} datagrams", tally[4]), cd());
    }
    if accepted + denied + ignored + limited + nak != received {
        c.violation("stats/counters/sum", "received_packets is not the sum of the per-kind counters", cd());
    }
    if accepted != tally[0] || denied != tally[1] || nak != tally[2] || ignored + limited != tally[3] {
        c.violation("stats/counters/kinds", "per-kind counters differ from what the server actually did", cd());
    }
    if nts_accepted > accepted || nts_denied > denied || nts_limited > limited || nts_received > received {
        c.violation("stats/counters/nts-exceeds", "an nts_* counter exceeds its plain counterpart", cd());
    }
}
