//! C12 — NTP version negotiation follows the upgrade protocol.
//!
//! Events: version and upgrade marker of every request on the wire (independent decoder); for
//! every delivered answer whether a measurement was produced (spy).
//! Oracle: a reference state machine derived from the statement, kept as a SET of admissible
//! states wherever the statement is silent:
//!   U(n)  automatic mode, still upgrading, n matching answers without the marker counted (0..7):
//!         sends v4 + marker, expects v4;
//!   G(m)  switched to v5 by a matching answer carrying the marker, m v5 polls missed so far:
//!         at a timer sends v5 while m < 2, falls back to plain v4 (state P) when m >= 2; expects v5;
//!   F     v5 confirmed by a matching v5 answer (or forced v5): sends v5 forever;
//!   P     plain v4 (forced v4, after eight matching answers without the marker, or after fallback).
//! Clean events (a matching answer that is also usable: mode 4, stratum 1..16, first for its
//! request) move every state deterministically; a matching but unusable / repeated answer may or may
//! not count (both successors are kept; for a marker-carrying one also G(0..2) since the statement
//! does not say how many polls such an association has "missed"). Every request must be
//! explainable by at least one admissible state; a measurement must be explainable by a state
//! that expects the answer's version. v3 answers to plain-v4 requests are not judged.

use std::collections::BTreeSet;
use std::time::Duration;

use crate::common::srcasim::{self as sim, Answer, Datagram, Mangle, Mode, Sent, Sim, Spy, Step, Tri, Truth};
use crate::core::{Case, Profiles, Prop, Tier, hex};
use serde_json::json;

const NSYM: u64 = 9;
const NPREFIX: u64 = 13;

fn words_upto(l: u32) -> u64 {
    (1..=l).map(|k| NSYM.pow(k)).sum()
}

const NTS_CASES: u64 = 3_000;
fn walks(t: Tier) -> u64 {
    t.pick(60_000, 400_000)
}
const LQ: u32 = 4;
const LT: u32 = 6;

pub static PROP: Prop = Prop {
    id: "C12",
    level: "exploration",
    rule: "event alphabet: T (poll timer fires), G+ (genuine answer, server echoes the upgrade marker), G- (genuine answer without \
           marker), NM (answer with foreign origin), A5/A4/A3 (otherwise valid v5/v4/v3 answer echoing the pending request's \
           identifier), K+ / K- (matching but unusable answer - KISS or stratum 17 - with / without marker). Bounded-exhaustive \
           section: every word up to length 4 (quick) / 6 (thorough) after each of 13 prefixes that put an automatic-mode source into \
           U(0..7), P, G(0), G(1), G(2), F, and after the empty prefix for forced v4 and forced v5 sources. Then random walks of \
           30..80 events in all three modes. Shape signature = (mode, set of reference states visited, transition kinds exercised, \
           final admissible set).",
    assumptions: &[
        "plain (non-NTS) sources only; the NTS clause of the statement is not exercised by this engine",
        "reading (DESIGN.md C12): a usable matching answer with the marker must switch the source to v5; eight usable matching answers without it must end the upgrade attempt",
        "all answers are delivered within the 5 s window and before the next timer",
    ],
    profiles: Profiles::Strict,
    cases: |t| (NPREFIX + 2) * words_upto(t.pick(LQ, LT)) + walks(t) + NTS_CASES,
    budget_s: |t| t.pick(60, 900),
    run,
    min_nontrivial: 150,
    required_counters: &[
        "requests_judged",
        "answers_judged",
        "upgrades_to_v5",
        "upgrade_abandoned_after_eight",
        "fallbacks_after_two_missed",
        "v5_confirmed",
        "wrong_version_answers_refused",
        "ambiguous_forks",
        "forced_v4_requests",
        "forced_v5_requests",
        "nts_requests_judged",
    ],
    exhaustive: false,
    crash_is_violation: false,
};

#[derive(Clone, Copy, Debug, PartialEq, Eq, Hash, PartialOrd, Ord)]
enum St {
    U(u8),
    G(u8),
    F,
    P,
}

#[derive(Clone, Copy, Debug, PartialEq, Eq, Hash)]
enum Sym {
    T,
    GoodMarker,
    GoodPlain,
    NoMatch,
    As5,
    As4,
    As3,
    KissMarker,
    KissPlain,
}

const SYMS: [Sym; 9] = [Sym::T, Sym::GoodMarker, Sym::GoodPlain, Sym::NoMatch, Sym::As5, Sym::As4, Sym::As3, Sym::KissMarker, Sym::KissPlain];

fn word_of(mut k: u64, maxlen: u32) -> Vec<Sym> {
    for len in 1..=maxlen {
        let n = NSYM.pow(len);
        if k < n {
            let mut w = Vec::new();
            for _ in 0..len {
                w.push(SYMS[(k % NSYM) as usize]);
                k /= NSYM;
            }
            return w;
        }
        k -= n;
    }
    vec![Sym::T]
}

fn prefix_of(p: u64) -> Vec<Sym> {
    match p {
        0..=8 => (0..p).flat_map(|_| [Sym::T, Sym::GoodPlain]).collect(),
        9 => vec![Sym::T, Sym::GoodMarker],
        10 => vec![Sym::T, Sym::GoodMarker, Sym::T],
        11 => vec![Sym::T, Sym::GoodMarker, Sym::T, Sym::T],
        _ => vec![Sym::T, Sym::GoodMarker, Sym::T, Sym::GoodPlain],
    }
}

fn expects(st: St) -> u8 {
    match st {
        St::U(_) | St::P => 4,
        St::G(_) | St::F => 5,
    }
}

struct Model {
    mode: Mode,
    set: BTreeSet<St>,
    visited: BTreeSet<St>,
    kinds: u32,
}

const K_UPGRADE: u32 = 1;
const K_COUNT: u32 = 2;
const K_ABANDON: u32 = 4;
const K_CONFIRM: u32 = 8;
const K_FALLBACK: u32 = 16;
const K_V5POLL: u32 = 32;
const K_FORK: u32 = 64;
const K_REFUSED_VERSION: u32 = 128;

impl Model {
    fn new(mode: Mode) -> Model {
        let st = match mode {
            Mode::V4 => St::P,
            Mode::V5 => St::F,
            Mode::Auto => St::U(0),
        };
        Model { mode, set: [st].into_iter().collect(), visited: [st].into_iter().collect(), kinds: 0 }
    }

    /// A request was observed. Returns Err(expected descriptions) if no admissible state explains it.
    fn on_request(&mut self, c: &mut Case, version: u8, marker: bool) -> Result<(), Vec<String>> {
        let mut next = BTreeSet::new();
        let mut wanted = Vec::new();
        for st in &self.set {
            let (ev, em, succ): (u8, Option<bool>, St) = match *st {
                St::U(n) => (4, Some(true), St::U(n)),
                St::G(m) if m >= 2 => (4, Some(false), St::P),
                St::G(m) => (5, None, St::G(m + 1)),
                St::F => (5, None, St::F),
                // a forced-v4 source "only ever sends NTPv4": the marker is not part of that clause
                St::P => (4, if self.mode == Mode::V4 { None } else { Some(false) }, St::P),
            };
            wanted.push(format!("{st:?}: v{ev}{}", match em { Some(true) => " with upgrade marker", Some(false) => " without upgrade marker", None => "" }));
            if ev == version && em.map(|m| m == marker).unwrap_or(true) {
                next.insert(succ);
            }
        }
        if next.is_empty() {
            return Err(wanted);
        }
        if self.set.len() == 1 {
            match (self.set.iter().next().unwrap(), next.iter().next().unwrap()) {
                (St::G(2), St::P) => {
                    c.inc("fallbacks_after_two_missed");
                    self.kinds |= K_FALLBACK;
                }
                (St::G(_), St::G(_)) => self.kinds |= K_V5POLL,
                _ => {}
            }
        }
        self.visited.extend(next.iter().copied());
        self.set = next;
        Ok(())
    }

    /// An answer was delivered. `id_ok`: echoes the pending request in time. Returns whether a
    /// measurement for it is admissible in at least one state.
    fn on_answer(&mut self, c: &mut Case, id_ok: bool, av: u8, marker: bool, usable_shape: bool, consumed: bool, used: bool) -> bool {
        if self.mode != Mode::Auto {
            let st = *self.set.iter().next().unwrap();
            return id_ok && usable_shape && !consumed && (expects(st) == av || (st == St::P && av == 3));
        }
        let clean = usable_shape && !consumed;
        // states in which a measurement for this datagram is admissible
        let admissible: BTreeSet<St> = self
            .set
            .iter()
            .copied()
            .filter(|st| id_ok && clean && (expects(*st) == av || (*st == St::P && av == 3)))
            .collect();
        if used && !admissible.is_empty() {
            // the observation rules out the states that could not have used it
            self.set = admissible.clone();
        }
        let mut next = BTreeSet::new();
        for st in self.set.iter().copied() {
            let matching = id_ok && expects(st) == av;
            if !matching {
                next.insert(st);
                continue;
            }
            match st {
                St::U(n) => {
                    let counted = if n + 1 >= 8 { St::P } else { St::U(n + 1) };
                    match (marker, clean) {
                        (true, true) => {
                            next.insert(St::G(0));
                            self.kinds |= K_UPGRADE;
                            if self.set.len() == 1 {
                                c.inc("upgrades_to_v5");
                            }
                        }
                        (true, false) => {
                            next.extend([St::U(n), St::G(0), St::G(1), St::G(2)]);
                            self.kinds |= K_FORK;
                            c.inc("ambiguous_forks");
                        }
                        (false, true) => {
                            next.insert(counted);
                            self.kinds |= if counted == St::P { K_ABANDON } else { K_COUNT };
                            if counted == St::P && self.set.len() == 1 {
                                c.inc("upgrade_abandoned_after_eight");
                            }
                        }
                        (false, false) => {
                            next.extend([St::U(n), counted]);
                            self.kinds |= K_FORK;
                            c.inc("ambiguous_forks");
                        }
                    }
                }
                St::G(m) => {
                    if clean {
                        next.insert(St::F);
                        self.kinds |= K_CONFIRM;
                        if self.set.len() == 1 {
                            c.inc("v5_confirmed");
                        }
                    } else {
                        next.extend([St::G(m), St::F]);
                        self.kinds |= K_FORK;
                        c.inc("ambiguous_forks");
                    }
                }
                St::F | St::P => {
                    next.insert(st);
                }
            }
        }
        self.visited.extend(next.iter().copied());
        self.set = next;
        !admissible.is_empty()
    }
}

fn build(c: &mut Case, s: &Sim<Spy>, sym: Sym, req: &Sent) -> Datagram {
    let rx = s.local_now().wrapping_add(5_000_000);
    let tx = rx.wrapping_add(3000);
    let stratum = c.rng.range(1, 16) as u8;
    let with_marker = sim::genuine(req, stratum, rx, tx, true, c.rng.u64());
    let plain = sim::genuine(req, stratum, rx, tx, false, c.rng.u64());
    let draft = sim::draft_of(&s.sent);
    match sym {
        Sym::T => unreachable!(),
        Sym::GoodMarker => Datagram::new(with_marker.encode(), "G+"),
        Sym::GoodPlain => Datagram::new(plain.encode(), "G-"),
        Sym::NoMatch => {
            let mut a = with_marker.clone();
            a.h.origin = if c.rng.bool() { c.rng.u64() } else { a.h.origin ^ (1 << c.rng.below(64)) };
            Datagram::new(a.encode(), "NM")
        }
        Sym::As5 => Datagram::new(sim::reversion(&with_marker, 5, &draft).encode(), "A5"),
        Sym::As4 => {
            let mut a = sim::reversion(&with_marker, 4, &draft);
            if req.version == 5 && c.rng.bool() {
                a.h.reference_ts = crate::common::refntp::UPGRADE_MARKER;
            }
            Datagram::new(a.encode(), "A4")
        }
        Sym::As3 => Datagram::new(sim::reversion(&plain, 3, &draft).encode(), "A3"),
        Sym::KissMarker | Sym::KissPlain => {
            let base = if sym == Sym::KissMarker { &with_marker } else { &plain };
            let mut a: Answer = match c.rng.below(3) {
                0 => {
                    let mut k = sim::kiss(req, c.rng.pick(&[*b"RATE", *b"NTSN", *b"XXXX"]), c.rng.u64());
                    if sym == Sym::KissMarker && k.h.version == 4 {
                        k.h.reference_ts = base.h.reference_ts;
                    }
                    k
                }
                1 => {
                    let mut k = base.clone();
                    k.h.stratum = *c.rng.pick(&[17u8, 64, 255]);
                    k
                }
                _ => {
                    let mut k = base.clone();
                    k.h.stratum = 0;
                    if k.h.version != 5 {
                        k.h.reference_id = *b"ABCD";
                    }
                    k
                }
            };
            if a.h.version == 4 && sym == Sym::KissPlain {
                a.h.reference_ts = 0;
            }
            Datagram::new(a.encode(), if sym == Sym::KissMarker { "K+" } else { "K-" })
        }
    }
}

/// NTS clause: a source built from a key-exchange result sends the negotiated version only.
fn nts_case(c: &mut Case) {
    use ntp_proto::{NtpSourceAction, ProtocolVersion};
    let v5 = c.rng.bool();
    let negotiated = if v5 { ProtocolVersion::V5 } else { ProtocolVersion::V4 };
    let n_cookies = c.rng.range(1, 8) as usize;
    let cookie_len = *c.rng.pick(&[16usize, 64, 100, 104, 136, 200]);
    let min = c.rng.range(0, 6) as u8;
    let (spy, _sh) = Spy::new(min as i8);
    let addr = "192.0.2.9:123".parse().unwrap();
    let cfg = ntp_proto::verif::src::source_config(min, min, min + 2);
    let (mut src, _init) = sim::in_rt(|| ntp_proto::verif::src::new_nts_source(addr, cfg, negotiated, spy, n_cookies, cookie_len));
    let mut versions = Vec::new();
    for _ in 0..4 {
        let acts: Vec<NtpSourceAction> = match crate::core::guard(|| sim::in_rt(|| src.handle_timer().collect())) {
            Ok(a) => a,
            Err(p) => {
                c.harness_error(format!("nts handle_timer panicked: {} {}", p.location, p.message));
                return;
            }
        };
        let mut sent = false;
        for a in acts {
            if let NtpSourceAction::Send(bytes) = a {
                sent = true;
                let Some(pk) = crate::common::refntp::parse(&bytes) else {
                    c.violation("nts/request-unparsable", "NTS request is not an NTP packet", json!({"request": hex(&bytes)}));
                    return;
                };
                c.inc("nts_requests_judged");
                c.inc("requests_judged");
                versions.push(pk.header.version);
                let want = if v5 { 5 } else { 4 };
                if pk.header.version != want {
                    c.violation(
                        format!("nts/request-version/negotiated-v{want}/sent-v{}", pk.header.version),
                        format!("an NTS source whose key exchange negotiated NTPv{want} sent an NTPv{} request", pk.header.version),
                        json!({"negotiated": want, "request": hex(&bytes), "cookies": n_cookies, "cookie_len": cookie_len}),
                    );
                }
            }
        }
        if !sent {
            break;
        }
        sim::advance(Duration::from_secs(1 << min));
    }
    c.sig_of(&("nts", v5, versions.len(), cookie_len));
}

fn run(c: &mut Case) {
    let lmax = c.tier.pick(LQ, LT);
    let nw = words_upto(lmax);
    if c.idx >= (NPREFIX + 2) * nw + walks(c.tier) {
        nts_case(c);
        return;
    }
    let (mode, word, section): (Mode, Vec<Sym>, &str) = if c.idx < NPREFIX * nw {
        let p = c.idx / nw;
        let mut w = prefix_of(p);
        w.extend(word_of(c.idx % nw, lmax));
        (Mode::Auto, w, "bounded-exhaustive")
    } else if c.idx < (NPREFIX + 1) * nw {
        (Mode::V4, word_of(c.idx - NPREFIX * nw, lmax), "bounded-exhaustive")
    } else if c.idx < (NPREFIX + 2) * nw {
        (Mode::V5, word_of(c.idx - (NPREFIX + 1) * nw, lmax), "bounded-exhaustive")
    } else {
        let mode = *c.rng.pick(&[Mode::Auto, Mode::Auto, Mode::Auto, Mode::V4, Mode::V5]);
        let n = c.rng.range(30, 80);
        // a per-walk bias so that long runs of one behaviour occur
        let fav = SYMS[c.rng.below(NSYM) as usize];
        let w = (0..n)
            .map(|_| match c.rng.below(10) {
                0..=3 => Sym::T,
                4..=6 => fav,
                _ => SYMS[c.rng.below(NSYM) as usize],
            })
            .collect();
        (mode, w, "random-walk")
    };
    let min = *c.rng.pick(&[1u8, 2, 4]);
    let mut s: Sim<Spy> = Sim::with_spy(mode, (min, min, min + 2), min as i8, c.rng.u64());
    let mut m = Model::new(mode);
    let mut script: Vec<String> = Vec::new();
    let detail = |s: &Sim<Spy>, m: &Model, script: &Vec<String>| {
        json!({"section": section, "mode": mode.name(), "word": format!("{word:?}"), "admissible_reference_states": format!("{:?}", m.set),
               "state": sim::probe_json(&s.probe()), "script": script})
    };
    for sym in word.iter().copied() {
        if sym == Sym::T {
            // drain to the timer
            let t = loop {
                match s.step() {
                    Some(Step::Timer(t)) => break t,
                    Some(Step::Datagram(..)) => continue,
                    None => {
                        c.harness_error("no timer armed");
                        return;
                    }
                }
            };
            if let Some(p) = &t.panicked {
                c.harness_error(format!("handle_timer panicked: {p}"));
                return;
            }
            if t.reset || t.demobilize {
                // unreachable source: the session is over (C11's subject)
                script.push("timer -> reset".into());
                break;
            }
            let Some(si) = t.sent else {
                c.harness_error("timer without request");
                return;
            };
            let (v, mk) = (s.sent[si].version, s.sent[si].marker);
            let before = format!("{:?}", m.set);
            script.push(format!("T -> request v{v}{} (reference states before: {before})", if mk { "+marker" } else { "" }));
            c.inc("requests_judged");
            match mode {
                Mode::V4 => c.inc("forced_v4_requests"),
                Mode::V5 => c.inc("forced_v5_requests"),
                _ => {}
            }
            if s.sent[si].mode != 3 {
                c.violation(format!("request-mode/{}", mode.name()), "request not in client mode", detail(&s, &m, &script));
            }
            if let Err(wanted) = m.on_request(c, v, mk) {
                let kind = match mode {
                    Mode::V4 => "forced-v4".to_string(),
                    Mode::V5 => "forced-v5".to_string(),
                    Mode::Auto => {
                        let mut letters: Vec<char> = before.chars().filter(|ch| matches!(ch, 'U' | 'G' | 'F' | 'P')).collect();
                        letters.dedup();
                        format!("auto/from-{}", letters.into_iter().collect::<String>())
                    }
                };
                c.violation(
                    format!("request-version/{kind}/sent-v{v}{}", if mk { "+marker" } else { "" }),
                    format!("request v{v}{} cannot be explained by the upgrade protocol; admissible: {}", if mk { " with marker" } else { "" }, wanted.join(" | ")),
                    json!({"request": hex(&s.sent[si].bytes), "session": detail(&s, &m, &script)}),
                );
                return;
            }
        } else {
            let Some(req) = s.latest().cloned() else {
                continue; // nothing sent yet: the daemon drops it
            };
            let d = build(c, &s, sym, &req);
            s.schedule(Duration::from_millis(1), d);
            let Some(Step::Datagram(d, truth, out)) = s.step() else {
                c.harness_error("datagram not delivered next");
                return;
            };
            if out.panicked.is_some() {
                c.inc("handle_incoming_panics_ignored");
                return;
            }
            c.inc("answers_judged");
            let id_ok = truth.parsed && truth.matches_latest && truth.in_window == Tri::Yes;
            let usable_shape = truth.mode_server() && truth.stratum_ok();
            let consumed = truth.latest_already_used;
            let set_before = format!("{:?}", m.set);
            let ok = m.on_answer(c, id_ok, truth.version, truth.marker, usable_shape, consumed, out.used());
            script.push(format!(
                "{} (v{}{} id_ok={id_ok} usable_shape={usable_shape} consumed={consumed}) used={} (reference states {set_before} -> {:?})",
                d.kind,
                truth.version,
                if truth.marker { "+marker" } else { "" },
                out.used(),
                m.set
            ));
            if out.used() && !ok {
                // which clause? only the version clause is C12's; the rest belongs to C08
                let version_only = id_ok && usable_shape && !consumed;
                if version_only {
                    c.violation(
                        format!("accepted-unexpected-version/{}/answer-v{}", mode.name(), truth.version),
                        format!("a v{} answer was used although every admissible state ({set_before}) expects another version", truth.version),
                        json!({"answer": hex(&d.bytes), "pending_request": hex(&req.bytes), "session": detail(&s, &m, &script)}),
                    );
                } else {
                    c.inc("used_though_unusable_left_to_c08");
                }
                return;
            }
            if !out.used() && id_ok && usable_shape && !consumed && truth.version != req.version {
                c.inc("wrong_version_answers_refused");
                m.kinds |= K_REFUSED_VERSION;
            }
        }
    }
    let vis: Vec<St> = m.visited.iter().copied().collect();
    c.sig_of(&(mode, vis, m.kinds, m.set.iter().copied().collect::<Vec<_>>()));
    if c.wants_sample() {
        c.sample(|| detail(&s, &m, &script));
    }
}
