//! C44 — CSPTP clients survive any server traffic and only use matching answers.
//!
//! Events: requests passed to `send_event`, datagrams returned by `recv` (as truncated to the
//! client's buffer), and every `handle_measurement` / `set_usable` call on a spy controller,
//! all appended to one log while the real `CsptpSource::run` future is driven in virtual time.
//! Oracle: offline pass over the log with the harness's own decoder (common/ptpsim.rs).

use std::sync::{Arc, Mutex};
use std::time::Duration;

use crate::common::ptpsim::{self, RawMsg, RawTlv, SeededRng, Sim};
use crate::core::{Case, Profiles, Prop, Rng, Tier, hex};
use ntp_proto::{
    ClockId, Measurement, NtpDuration, NtpTimestamp, ObservableSourceTimedata, PollInterval, SourceController, SourceType,
};
use serde_json::json;
use statime_csptp::{ClientRecvResult, ClientSocket, CsptpConfig, CsptpManager, CsptpSource, CsptpSourceConfig, InternalState};
use statime_wire::Timestamp;

pub static PROP: Prop = Prop {
    id: "C44",
    level: "exploration",
    rule: "case = one CsptpSource (random domain, poll/response intervals, active or not in the manager) run for 1-6 request rounds in \
           virtual time; per round the scripted socket fails or timestamps the send and then delivers 0-7 datagrams built by the harness \
           encoder: matching one-step and two-step responses, follow-ups before/after/without their response, wrong domain, wrong / \
           previous / next sequence id, duplicates, requests echoed back, missing receive timestamps, receive errors, status TLVs \
           (stepsRemoved 65535), other message types, mutations and garbage; half of the cases use tame values, half extreme ones \
           (timestamp seconds 0 / 2^48-1, nanoseconds 999999999 and 10^9, correction fields +-2^63, >512-byte datagrams). Non-trivial = \
           shape signature per round (delivery classes in order, send result, measurement made, two-step) ; distinct signatures are counted.",
    assumptions: &[
        "a delivered datagram counts as a matching response when the harness decoder sees a PTP Sync message carrying a CSPTP response TLV with the request's domain and sequence id (no stricter well-formedness is demanded), as a matching follow-up when it is a Follow_Up with those ids",
        "the two handle_measurement calls the source makes per answer (request leg, response leg) are one measurement pair; more than two calls per request are a violation",
        "local (socket) timestamps are realistic (2020-2033); extreme values only appear inside received datagrams",
    ],
    profiles: Profiles::Both,
    cases: |t| t.pick(300_000, 4_000_000),
    budget_s: |t| t.pick(30, 300),
    run,
    min_nontrivial: 100,
    required_counters: &["rounds", "datagrams_delivered", "measurement_pairs", "pairs_justified", "rounds_without_measurement", "wrong_id_delivered", "two_step_pairs", "one_step_pairs"],
    exhaustive: false,
    crash_is_violation: true,
};

#[derive(Clone, Debug)]
enum Ev {
    SendOk { bytes: Vec<u8> },
    SendFailed { bytes: Vec<u8> },
    Delivered { bytes: Vec<u8>, has_ts: bool, class: &'static str },
    RecvError,
    Measurement { sender: ClockId, receiver: ClockId },
    SetUsable(bool),
}

type Log = Arc<Mutex<Vec<Ev>>>;

#[derive(Clone)]
struct Delivery {
    class: &'static str,
    /// None = receive error
    bytes: Option<Vec<u8>>,
    rx: Option<(u64, u32)>,
    delay_ms: u64,
}

#[derive(Clone)]
struct Round {
    send: Option<(u64, u32)>,
    deliveries: Vec<Delivery>,
}

struct Sock {
    log: Log,
    sim: Sim,
    round: Round,
    next: usize,
}

impl ClientSocket for Sock {
    type Error = ();

    async fn recv(&mut self, buf: &mut [u8]) -> Result<ClientRecvResult, ()> {
        let Some(d) = self.round.deliveries.get(self.next).cloned() else {
            ptpsim::Never.await;
            unreachable!()
        };
        if d.delay_ms > 0 {
            // cancel safe: `next` only moves once the datagram is handed over
            self.sim.sleep(Duration::from_millis(d.delay_ms)).await;
        }
        self.next += 1;
        match d.bytes {
            None => {
                self.log.lock().unwrap().push(Ev::RecvError);
                Err(())
            }
            Some(b) => {
                let n = b.len().min(buf.len());
                buf[..n].copy_from_slice(&b[..n]);
                self.log.lock().unwrap().push(Ev::Delivered { bytes: b[..n].to_vec(), has_ts: d.rx.is_some(), class: d.class });
                Ok(ClientRecvResult {
                    bytes_read: n,
                    timestamp: d.rx.map(|(s, ns)| Timestamp::new(s, ns).expect("harness: rx timestamp in range")),
                })
            }
        }
    }

    async fn send_event(&mut self, buf: &[u8]) -> Result<Timestamp, ()> {
        match self.round.send {
            Some((s, ns)) => {
                self.log.lock().unwrap().push(Ev::SendOk { bytes: buf.to_vec() });
                Ok(Timestamp::new(s, ns).expect("harness: tx timestamp in range"))
            }
            None => {
                self.log.lock().unwrap().push(Ev::SendFailed { bytes: buf.to_vec() });
                Err(())
            }
        }
    }
}

struct Spy(Log);

impl SourceController for Spy {
    fn handle_measurement(&mut self, m: Measurement) {
        self.0.lock().unwrap().push(Ev::Measurement { sender: m.sender_id, receiver: m.receiver_id });
    }
    fn set_usable(&mut self, usable: bool) {
        self.0.lock().unwrap().push(Ev::SetUsable(usable));
    }
    fn desired_poll_interval(&self) -> PollInterval {
        PollInterval::default()
    }
    fn observe(&self) -> ObservableSourceTimedata {
        ObservableSourceTimedata {
            offset: NtpDuration::ZERO,
            uncertainty: NtpDuration::ZERO,
            delay: NtpDuration::ZERO,
            remote_delay: NtpDuration::ZERO,
            remote_uncertainty: NtpDuration::ZERO,
            last_update: NtpTimestamp::default(),
        }
    }
}

fn local_ts(rng: &mut Rng) -> (u64, u32) {
    let n = match rng.below(4) {
        0 => 0,
        1 => 999_999_999,
        _ => rng.below(1_000_000_000) as u32,
    };
    (1_600_000_000 + rng.below(400_000_000), n)
}

fn remote_ts(rng: &mut Rng, extreme: bool) -> (u64, u32) {
    if !extreme {
        return (1_600_000_000 + rng.below(400_000_000), rng.below(1_000_000_000) as u32);
    }
    let s = match rng.below(6) {
        0 => 0,
        1 => 1,
        2 => (1u64 << 48) - 1,
        3 => (1u64 << 32) - 1 + rng.below(3),
        4 => rng.below(1 << 48),
        _ => 1_600_000_000 + rng.below(400_000_000),
    };
    let n = match rng.below(6) {
        0 => 0,
        1 => 999_999_999,
        2 => 1_000_000_000,
        3 => 1_000_000_001 + rng.below(5) as u32, // rejected by the parser
        _ => rng.below(1_000_000_000) as u32,
    };
    (s, n)
}

fn correction(rng: &mut Rng, extreme: bool) -> i64 {
    if !extreme {
        return match rng.below(3) {
            0 => 0,
            _ => rng.range(-(1 << 36), 1 << 36), // up to about +-1 ms in 2^-16 ns
        };
    }
    match rng.below(6) {
        0 => i64::MIN,
        1 => i64::MAX,
        2 => *rng.pick(&[-1i64, 1, -65536, 65536, -65537, 65535]),
        3 => rng.edge_i64(),
        4 => rng.range(-(1 << 50), 1 << 50),
        _ => 0,
    }
}

struct Gen<'r> {
    rng: &'r mut Rng,
    domain: u8,
    extreme: bool,
}

impl Gen<'_> {
    fn status(&mut self) -> RawTlv {
        let steps = if self.extreme { *self.rng.pick(&[0u16, 1, 65534, 65535]) } else { self.rng.below(10) as u16 };
        let mut gm = [0u8; 8];
        self.rng.fill(&mut gm);
        ptpsim::csptp_status_tlv(self.rng.u8(), [self.rng.u8(), self.rng.u8(), self.rng.u8(), self.rng.u8()], self.rng.u8(), steps, 37, gm)
    }
    fn response(&mut self, domain: u8, seq: u16, two_step: bool) -> RawMsg {
        let mut m = RawMsg::csptp(ptpsim::T_SYNC, domain, seq);
        if two_step {
            m.flags[0] |= ptpsim::FLAG0_TWO_STEP;
        }
        if self.rng.chance(1, 3) {
            m.flags[1] = self.rng.u8() & 0x7f; // leap / traceability flags
        }
        m.correction = correction(self.rng, self.extreme);
        let (s, n) = if two_step && self.rng.bool() { (0, 0) } else { remote_ts(self.rng, self.extreme) };
        m.body = ptpsim::ts_bytes(s, n).to_vec();
        let ing = remote_ts(self.rng, self.extreme);
        let corr = correction(self.rng, self.extreme);
        m.tlvs.push(ptpsim::csptp_response_tlv(ing, corr));
        if self.rng.bool() {
            let st = self.status();
            if self.rng.chance(1, 5) {
                m.tlvs.insert(0, st);
            } else {
                m.tlvs.push(st);
            }
        }
        if self.rng.chance(1, 8) {
            m.tlvs.push(RawTlv::new(0x8008, vec![0; 2 * self.rng.below(6) as usize]));
            // a trailing pad TLV with an empty value makes the library reject the datagram; that is fine
        }
        m
    }
    fn follow_up(&mut self, domain: u8, seq: u16) -> RawMsg {
        let mut m = RawMsg::csptp(ptpsim::T_FOLLOW_UP, domain, seq);
        if self.rng.chance(4, 5) {
            m.flags[0] |= ptpsim::FLAG0_TWO_STEP;
        }
        m.correction = correction(self.rng, self.extreme);
        let (s, n) = remote_ts(self.rng, self.extreme);
        m.body = ptpsim::ts_bytes(s, n).to_vec();
        m
    }
    fn wrong_ids(&mut self, seq: u16) -> (u8, u16, &'static str) {
        match self.rng.below(5) {
            0 => (self.domain.wrapping_add(1 + self.rng.below(254) as u8), seq, "wrong-domain"),
            1 => (self.domain, seq.wrapping_sub(1), "previous-seq"),
            2 => (self.domain, seq.wrapping_add(1), "next-seq"),
            3 => (self.domain, seq ^ (1 << self.rng.below(16)), "seq-bitflip"),
            _ => (self.rng.u8().max(1).wrapping_add(self.domain), seq.wrapping_add(1 + self.rng.below(65534) as u16), "wrong-both"),
        }
    }
    fn rx(&mut self) -> Option<(u64, u32)> {
        if self.rng.chance(1, 8) { None } else { Some(local_ts(self.rng)) }
    }
    fn deliveries(&mut self, seq: u16) -> Vec<Delivery> {
        let n = match self.rng.below(8) {
            0 => 0,
            1 | 2 => 1,
            3 | 4 => 2,
            _ => self.rng.usize(2, 7),
        };
        let mut out: Vec<Delivery> = Vec::new();
        for _ in 0..n {
            let kind = self.rng.below(24);
            let (class, bytes): (&'static str, Option<Vec<u8>>) = match kind {
                0..=3 => ("resp-1step", Some(self.response(self.domain, seq, false).encode())),
                4..=7 => ("resp-2step", Some(self.response(self.domain, seq, true).encode())),
                8..=10 => ("follow-up", Some(self.follow_up(self.domain, seq).encode())),
                11 | 12 => {
                    let (d, s, cl) = self.wrong_ids(seq);
                    let two = self.rng.bool();
                    (cl, Some(self.response(d, s, two).encode()))
                }
                13 => {
                    let (d, s, _) = self.wrong_ids(seq);
                    ("follow-up-wrong-ids", Some(self.follow_up(d, s).encode()))
                }
                14 => match out.iter().rev().find(|d| d.bytes.is_some()) {
                    Some(prev) => ("duplicate", prev.bytes.clone()),
                    None => ("resp-2step", Some(self.response(self.domain, seq, true).encode())),
                },
                15 => {
                    // our own request echoed back (a Sync with a request TLV and matching ids)
                    let mut m = RawMsg::csptp(ptpsim::T_SYNC, self.domain, seq);
                    m.tlvs.push(ptpsim::csptp_request_tlv(1));
                    ("echoed-request", Some(m.encode()))
                }
                16 => {
                    // matching ids but no response TLV / short response TLV / both request and response
                    let two = self.rng.bool();
                    let mut m = self.response(self.domain, seq, two);
                    match self.rng.below(3) {
                        0 => m.tlvs.retain(|t| t.typ != ptpsim::TLV_CSPTP_RESPONSE),
                        1 => {
                            for t in m.tlvs.iter_mut().filter(|t| t.typ == ptpsim::TLV_CSPTP_RESPONSE) {
                                t.value.truncate(2 * self.rng.below(9) as usize);
                            }
                        }
                        _ => m.tlvs.push(ptpsim::csptp_request_tlv(0)),
                    }
                    ("resp-malformed-tlvs", Some(m.encode()))
                }
                17 => {
                    // wrong sdoId / version with matching ids
                    let two = self.rng.bool();
                    let mut m = self.response(self.domain, seq, two);
                    if self.rng.bool() {
                        m.major_sdo = self.rng.below(16) as u8;
                        m.minor_sdo = self.rng.u8();
                    } else {
                        m.version = self.rng.u8();
                    }
                    ("resp-sdo-version", Some(m.encode()))
                }
                18 => {
                    let t = *self.rng.pick(&[ptpsim::T_DELAY_REQ, ptpsim::T_DELAY_RESP, ptpsim::T_ANNOUNCE, ptpsim::T_SIGNALING, ptpsim::T_MANAGEMENT, ptpsim::T_PDELAY_REQ]);
                    let mut m = RawMsg::csptp(t, self.domain, seq);
                    if self.rng.bool() {
                        m.tlvs.push(ptpsim::csptp_response_tlv((1_700_000_000, 0), 0));
                    }
                    ("other-type", Some(m.encode()))
                }
                19 | 20 => {
                    let two = self.rng.bool();
                    let mut d = if self.rng.bool() { self.response(self.domain, seq, two).encode() } else { self.follow_up(self.domain, seq).encode() };
                    ptpsim::mutate(self.rng, &mut d);
                    ("mutated", Some(d))
                }
                21 => {
                    let n = match self.rng.below(3) {
                        0 => 0,
                        1 => self.rng.usize(1, 60),
                        _ => self.rng.usize(34, 700),
                    };
                    ("garbage", Some(self.rng.bytes(n)))
                }
                22 => {
                    // a valid answer inside a datagram longer than the client's 512-byte buffer
                    let mut d = self.response(self.domain, seq, false).encode();
                    let extra = self.rng.usize(480, 700);
                    d.extend_from_slice(&self.rng.bytes(extra));
                    ("resp-oversize-datagram", Some(d))
                }
                _ => ("recv-error", None),
            };
            let rx = self.rx();
            let delay_ms = if self.rng.chance(1, 6) { *self.rng.pick(&[1u64, 10, 400, 499, 500, 501, 5000]) } else { 0 };
            out.push(Delivery { class, bytes, rx, delay_ms });
        }
        out
    }
}

fn matches_ids(m: &RawMsg, domain: u8, seq: u16) -> bool {
    m.domain == domain && m.sequence_id == seq
}

fn run(c: &mut Case) {
    let extreme = c.rng.bool();
    let domain = match c.rng.below(4) {
        0 => 128,
        1 => 0,
        2 => 255,
        _ => c.rng.u8(),
    };
    let cfg = CsptpSourceConfig {
        poll_interval: Duration::from_millis(*c.rng.pick(&[1u64, 1000, 1000, 16_000, 1_000_000])),
        response_interval: Duration::from_millis(*c.rng.pick(&[1u64, 500, 500, 500, 10_000])),
        domain,
    };
    let n_rounds = c.rng.usize(1, 6);
    let mut script_rng = c.rng.fork();
    let mut g = Gen { rng: &mut script_rng, domain, extreme };
    let rounds: Vec<Round> = (0..n_rounds)
        .map(|r| {
            let send = if g.rng.chance(1, 8) { None } else { Some(local_ts(g.rng)) };
            Round { send, deliveries: g.deliveries(r as u16) }
        })
        .collect();
    let active = c.rng.chance(2, 3);
    let manager: CsptpManager<std::cell::RefCell<InternalState>> = CsptpManager::new(CsptpConfig::default());
    let local = ClockId::SYSTEM;
    let remote = ClockId::new();
    if active {
        manager.update_used_sources(std::iter::once((remote, SourceType::Csptp)));
    }
    let log: Log = Arc::new(Mutex::new(Vec::new()));
    let sim = Sim::new();
    let mut source = CsptpSource::new(local, remote, cfg, &manager, Spy(log.clone()));
    let script_json = || {
        json!({
            "domain": domain, "poll_interval_ms": cfg.poll_interval.as_millis() as u64, "response_interval_ms": cfg.response_interval.as_millis() as u64,
            "source_is_active_source": active, "extreme_values": extreme,
            "rounds": rounds.iter().map(|r| json!({
                "send_timestamp": r.send.map(|t| vec![t.0, t.1 as u64]),
                "deliveries": r.deliveries.iter().map(|d| json!({
                    "class": d.class, "datagram": d.bytes.as_ref().map(|b| hex(b)), "rx_timestamp": d.rx.map(|t| vec![t.0, t.1 as u64]), "delay_ms": d.delay_ms,
                })).collect::<Vec<_>>(),
            })).collect::<Vec<_>>(),
        })
    };
    let mut jitter = c.rng.fork();
    let outcome = {
        let mut next_round = 0usize;
        let rounds_ref = &rounds;
        let log2 = log.clone();
        let sim2 = sim.clone();
        let sim3 = sim.clone();
        let fut = source.run(
            ptpsim::Never,
            move || {
                let r = rounds_ref.get(next_round).cloned();
                next_round += 1;
                match r {
                    Some(round) => Ok(Sock { log: log2.clone(), sim: sim2.clone(), round, next: 0 }),
                    None => Err(()), // script exhausted: run() returns Err(())
                }
            },
            move |d| sim3.sleep(d),
            move || SeededRng(jitter.fork()),
        );
        let log3 = log.clone();
        let panic_detail = move || {
            let mut j = script_json();
            let l = log3.lock().map(|l| l.clone()).unwrap_or_default();
            let last = l.iter().rev().find_map(|e| if let Ev::Delivered { bytes, has_ts, class } = e { Some(json!({"datagram": hex(bytes), "class": class, "rx_timestamp_present": has_ts})) } else { None });
            let req = l.iter().rev().find_map(|e| if let Ev::SendOk { bytes } = e { Some(hex(bytes)) } else { None });
            j["last_datagram_delivered_before_the_panic"] = last.unwrap_or(json!(null));
            j["request_of_that_round"] = json!(req);
            j["measurements_handed_over_before_the_panic"] = json!(l.iter().filter(|e| matches!(e, Ev::Measurement { .. })).count());
            j
        };
        c.no_panic("csptp-source-run", panic_detail, || sim.block_on(fut, 200_000))
    };
    match outcome {
        None => {}                  // panic: recorded as a violation; the log up to the panic is still judged
        Some(Some(Err(()))) => {}   // normal end
        Some(Some(Ok(()))) => {}    // shutdown (not used)
        Some(None) => {
            c.harness_error("CsptpSource::run neither finished nor made progress".to_string());
            return;
        }
    }

    // ---- offline oracle over the log ----
    let log = log.lock().unwrap().clone();
    let mut i = 0usize;
    let mut round_no = 0usize;
    // a measurement before any send
    while i < log.len() && !matches!(log[i], Ev::SendOk { .. } | Ev::SendFailed { .. }) {
        if matches!(log[i], Ev::Measurement { .. }) {
            c.violation("measurement-before-any-request", "a measurement was produced before any request was sent".to_string(), script_json());
        }
        i += 1;
    }
    while i < log.len() {
        let (req_bytes, sent_ok) = match &log[i] {
            Ev::SendOk { bytes } => (bytes.clone(), true),
            Ev::SendFailed { bytes } => (bytes.clone(), false),
            _ => unreachable!(),
        };
        i += 1;
        let start = i;
        while i < log.len() && !matches!(log[i], Ev::SendOk { .. } | Ev::SendFailed { .. }) {
            i += 1;
        }
        let evs = &log[start..i];
        c.inc("rounds");
        let this_round = round_no;
        round_no += 1;
        let req = ptpsim::decode(&req_bytes);
        let n_meas = evs.iter().filter(|e| matches!(e, Ev::Measurement { .. })).count();
        let classes: Vec<&'static str> = evs.iter().filter_map(|e| if let Ev::Delivered { class, .. } = e { Some(*class) } else { None }).collect();
        c.count("datagrams_delivered", classes.len() as u64);
        let round_detail = |what: &str| {
            json!({
                "what": what, "round": this_round, "request_sent": hex(&req_bytes),
                "events_in_round": evs.iter().map(|e| match e {
                    Ev::Delivered { bytes, has_ts, class } => json!({"delivered": hex(bytes), "rx_timestamp_present": has_ts, "class": class}),
                    Ev::RecvError => json!("recv-error"),
                    Ev::Measurement { sender, receiver } => json!({"handle_measurement": format!("{sender} -> {receiver}")}),
                    Ev::SetUsable(u) => json!({"set_usable": u}),
                    _ => json!("?"),
                }).collect::<Vec<_>>(),
                "script": script_json(),
            })
        };
        let Some(req) = req else {
            c.inc("undecodable_request");
            continue;
        };
        if classes.iter().any(|cl| matches!(*cl, "wrong-domain" | "previous-seq" | "next-seq" | "seq-bitflip" | "wrong-both" | "follow-up-wrong-ids")) {
            c.inc("wrong_id_delivered");
        }
        if n_meas == 0 {
            c.inc("rounds_without_measurement");
            c.sig_of(&("round", &classes, sent_ok, 0u8));
            continue;
        }
        if !sent_ok {
            c.violation("measurement-after-failed-send", "a measurement was produced although sending the request failed".to_string(), round_detail("send failed"));
            continue;
        }
        if n_meas > 2 {
            c.violation(
                "more-than-one-measurement-per-request",
                format!("{n_meas} handle_measurement calls (more than one pair) for one request"),
                round_detail("too many measurements"),
            );
        }
        c.inc("measurement_pairs");
        // datagrams delivered before the first measurement of the round
        let first_meas = evs.iter().position(|e| matches!(e, Ev::Measurement { .. })).unwrap();
        let before: Vec<RawMsg> = evs[..first_meas]
            .iter()
            .filter_map(|e| if let Ev::Delivered { bytes, .. } = e { ptpsim::decode(bytes) } else { None })
            .collect();
        let responses: Vec<&RawMsg> = before
            .iter()
            .filter(|m| m.msg_type == ptpsim::T_SYNC && m.count_tlv(ptpsim::TLV_CSPTP_RESPONSE) >= 1 && matches_ids(m, req.domain, req.sequence_id))
            .collect();
        let follow_ups = before.iter().filter(|m| m.msg_type == ptpsim::T_FOLLOW_UP && matches_ids(m, req.domain, req.sequence_id)).count();
        let one_step = responses.iter().any(|m| !m.two_step());
        c.sig_of(&("round", &classes[..classes.len().min(6)], sent_ok, 1u8, one_step, follow_ups.min(2)));
        if responses.is_empty() {
            let any_resp = before.iter().any(|m| m.msg_type == ptpsim::T_SYNC && m.count_tlv(ptpsim::TLV_CSPTP_RESPONSE) >= 1);
            c.violation(
                if any_resp { "measurement-from-non-matching-response" } else { "measurement-without-response" },
                format!(
                    "a measurement was produced for request (domain {}, sequence id {}) although no response with these ids was delivered before it",
                    req.domain, req.sequence_id
                ),
                round_detail("no matching response"),
            );
            continue;
        }
        if !one_step && follow_ups == 0 {
            c.violation(
                "measurement-without-follow-up",
                format!(
                    "a measurement was produced for request (domain {}, sequence id {}) from a two-step response without a follow-up carrying these ids",
                    req.domain, req.sequence_id
                ),
                round_detail("two-step response, no matching follow-up"),
            );
            continue;
        }
        c.inc("pairs_justified");
        if one_step {
            c.inc("one_step_pairs");
        } else {
            c.inc("two_step_pairs");
        }
        c.sample(|| round_detail("sample"));
    }
}
