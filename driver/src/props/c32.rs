//! C32 — time arithmetic is exact, era-safe and never panics.
//!
//! Events: results (raw fixed-point bits) and panics of the public operations of
//! `NtpTimestamp`/`NtpDuration` (ntp-proto) and `Timestamp`/`Duration` (statime-base).
//! Oracle: i128/u128 reference arithmetic written here (wrapping timestamp laws,
//! saturating duration laws, conversion tolerances from the statement).

use crate::core::{Case, Profiles, Prop, Tier};
use ntp_proto::verif::misc::{
    dur_from_bits_short, dur_from_bits_time32, dur_from_i64, dur_to_bits_short, dur_to_bits_time32,
    dur_to_i64, ts_from_u64, ts_to_u64,
};
use ntp_proto::{NtpDuration, NtpTimestamp};
use serde_json::json;

pub static PROP: Prop = Prop {
    id: "C32",
    level: "exploration",
    rule: "case = one operand tuple (timestamps/durations/scalars/f64) drawn from a boundary lattice \
           (0, +-1, +-2^31, +-2^32, i64::MIN/MAX, era midpoints, powers of two +-2) mixed with uniform values; \
           every listed operation of both libraries is evaluated on it and compared with i128/u128 reference \
           arithmetic. The first 2*256*LATTICE indices enumerate every 8-bit scalar against the whole lattice \
           (complete for that sub-space). Non-trivial = the tuple's class signature (operand classes: sign, \
           saturating or not, era-crossing or not, scalar sign/zero) — distinct signatures are counted.",
    assumptions: &[
        "raw bits are observed through pub(crate) accessors re-exported by the guarded hook (ntp-proto) and through Hash (statime-base)",
        "division by zero is outside 'scaling' and is not exercised",
    ],
    profiles: Profiles::Both,
    cases: |t| t.pick(400_000, 40_000_000),
    budget_s: |t| t.pick(25, 300),
    run,
    min_nontrivial: 200,
    required_counters: &["ntp_ts_laws", "ntp_dur_laws", "ntp_scalar", "ntp_seconds", "ntp_wire", "ptp_ts_laws", "ptp_dur_laws"],
    exhaustive: false,
    crash_is_violation: true,
};

const LATTICE: &[i64] = &[
    0,
    1,
    -1,
    2,
    -2,
    i64::MAX,
    i64::MIN,
    i64::MAX - 1,
    i64::MIN + 1,
    1 << 31,
    -(1 << 31),
    1 << 32,
    -(1 << 32),
    (1 << 32) - 1,
    1 << 62,
    -(1 << 62),
    (1 << 62) + 1,
    0x0000_FFFF_FFFF_FFFF,
    0x0001_0000_0000_0000,
    0x0000_000F_FFFF_FFFF,
    0x0000_0010_0000_0000,
    i64::MAX / 2,
    i64::MIN / 2,
    i64::MAX / 127,
    i64::MIN / 128,
    i64::MAX / 255 + 1,
    65536,
    65535,
    16,
    15,
];

fn clamp(x: i128) -> i64 {
    x.clamp(i64::MIN as i128, i64::MAX as i128) as i64
}

fn class_i64(x: i64) -> u8 {
    if x == 0 {
        0
    } else if x == i64::MIN {
        1
    } else if x == i64::MAX {
        2
    } else if x > 0 {
        3 + (63 - x.leading_zeros() as u8) / 8
    } else {
        12 + (63 - (x.wrapping_neg() as u64).leading_zeros() as u8) / 8
    }
}

fn pick_i64(c: &mut Case) -> i64 {
    match c.rng.below(4) {
        0 => *c.rng.pick(LATTICE),
        1 => c.rng.pick(LATTICE).wrapping_add(c.rng.range(-3, 3)),
        2 => c.rng.edge_i64(),
        _ => c.rng.i64(),
    }
}

macro_rules! check {
    ($c:expr, $cond:expr, $sig:expr, $what:expr, $detail:expr) => {
        if !($cond) {
            let s: String = $sig.into();
            $c.violation(format!("{}/{}", s, $c.profile), $what, $detail);
        }
    };
}

fn scalar_ops(c: &mut Case, d_raw: i64, k: i64, width: u8) {
    // width: 0=i8 1=u8 2=i16 3=u16 4=i32 5=u32 6=i64 7=isize
    let d = dur_from_i64(d_raw);
    let det = || json!({"duration_raw": d_raw, "scalar": k, "scalar_type": width});
    let expect_mul = clamp(d_raw as i128 * k as i128);
    let got = c.no_panic("ntp/duration*scalar", det, || {
        dur_to_i64(match width {
            0 => d * (k as i8),
            1 => d * (k as u8),
            2 => d * (k as i16),
            3 => d * (k as u16),
            4 => d * (k as i32),
            5 => d * (k as u32),
            6 => d * k,
            _ => d * (k as isize),
        })
    });
    if let Some(g) = got {
        check!(c, g == expect_mul, "ntp/mul-wrong", format!("NtpDuration({d_raw}) * {k} = {g}, saturating reference {expect_mul}"), det());
    }
    let got = c.no_panic("ntp/scalar*duration", det, || {
        dur_to_i64(match width {
            0 => (k as i8) * d,
            1 => (k as u8) * d,
            2 => (k as i16) * d,
            3 => (k as u16) * d,
            4 => (k as i32) * d,
            5 => (k as u32) * d,
            6 => k * d,
            _ => (k as isize) * d,
        })
    });
    if let Some(g) = got {
        check!(c, g == expect_mul, "ntp/mul-wrong", format!("{k} * NtpDuration({d_raw}) = {g}, saturating reference {expect_mul}"), det());
    }
    let got = c.no_panic("ntp/duration*=scalar", det, || {
        let mut x = d;
        match width {
            0 => x *= k as i8,
            1 => x *= k as u8,
            2 => x *= k as i16,
            3 => x *= k as u16,
            4 => x *= k as i32,
            5 => x *= k as u32,
            6 => x *= k,
            _ => x *= k as isize,
        }
        dur_to_i64(x)
    });
    if let Some(g) = got {
        check!(c, g == expect_mul, "ntp/mul-wrong", format!("NtpDuration({d_raw}) *= {k} gives {g}, reference {expect_mul}"), det());
    }
    if k != 0 {
        let expect_div = clamp(d_raw as i128 / k as i128);
        let got = c.no_panic("ntp/duration/scalar", det, || {
            dur_to_i64(match width {
                0 => d / (k as i8),
                1 => d / (k as u8),
                2 => d / (k as i16),
                3 => d / (k as u16),
                4 => d / (k as i32),
                5 => d / (k as u32),
                6 => d / k,
                _ => d / (k as isize),
            })
        });
        if let Some(g) = got {
            check!(c, g == expect_div, "ntp/div-wrong", format!("NtpDuration({d_raw}) / {k} = {g}, reference {expect_div}"), det());
        }
        let got = c.no_panic("ntp/duration/=scalar", det, || {
            let mut x = d;
            match width {
                0 => x /= k as i8,
                1 => x /= k as u8,
                2 => x /= k as i16,
                3 => x /= k as u16,
                4 => x /= k as i32,
                5 => x /= k as u32,
                6 => x /= k,
                _ => x /= k as isize,
            }
            dur_to_i64(x)
        });
        if let Some(g) = got {
            check!(c, g == expect_div, "ntp/div-wrong", format!("NtpDuration({d_raw}) /= {k} gives {g}, reference {expect_div}"), det());
        }
    }
    c.inc("ntp_scalar");
    c.sig_of(&("scalar", class_i64(d_raw), width, k.signum(), expect_mul == i64::MAX || expect_mul == i64::MIN, k == -1));
}

fn ntp_case(c: &mut Case) {
    // ---- timestamps ----
    let a = match c.rng.below(3) {
        0 => c.rng.edge_u64(),
        1 => (1u64 << 63).wrapping_add(c.rng.range(-4, 4) as u64),
        _ => c.rng.u64(),
    };
    let b = match c.rng.below(4) {
        0 => a.wrapping_add(pick_i64(c) as u64),
        1 => c.rng.edge_u64(),
        _ => c.rng.u64(),
    };
    let (ta, tb) = (ts_from_u64(a), ts_from_u64(b));
    let det = || json!({"a": a, "b": b});
    if let Some(diff) = c.no_panic("ntp/timestamp-sub", det, || dur_to_i64(ta - tb)) {
        let want = a.wrapping_sub(b) as i64;
        check!(c, diff == want, "ntp/ts-sub", format!("{a} - {b} = {diff}, shortest signed difference is {want}"), det());
        let d = dur_from_i64(diff);
        if let Some(back) = c.no_panic("ntp/timestamp+duration", det, || ts_to_u64(tb + d)) {
            check!(c, back == a, "ntp/ts-add-back", format!("b + (a - b) = {back} != a = {a}"), det());
        }
        if let Some(back) = c.no_panic("ntp/timestamp-duration", det, || ts_to_u64(ta - d)) {
            check!(c, back == b, "ntp/ts-sub-back", format!("a - (a - b) = {back} != b = {b}"), det());
        }
        if let Some((x, y)) = c.no_panic("ntp/timestamp-assign", det, || {
            let mut x = tb;
            x += d;
            let mut y = ta;
            y -= d;
            (ts_to_u64(x), ts_to_u64(y))
        }) {
            check!(c, x == a && y == b, "ntp/ts-assign", "+=/-= disagree with wrapping arithmetic".to_string(), det());
        }
        if let Some(before) = c.no_panic("ntp/is_before", det, || ta.is_before(tb)) {
            check!(c, before == (want < 0), "ntp/is_before", format!("is_before = {before} but difference is {want}"), det());
        }
        c.sig_of(&("ts", class_i64(want), a > b, (a >> 63) != (b >> 63)));
    }
    c.inc("ntp_ts_laws");

    // ---- duration add/sub/neg/abs ----
    let x = pick_i64(c);
    let y = pick_i64(c);
    let (dx, dy) = (dur_from_i64(x), dur_from_i64(y));
    let det = || json!({"x": x, "y": y});
    if let Some(g) = c.no_panic("ntp/duration+duration", det, || dur_to_i64(dx + dy)) {
        let w = clamp(x as i128 + y as i128);
        check!(c, g == w, "ntp/add", format!("{x} + {y} = {g}, saturating reference {w}"), det());
    }
    if let Some(g) = c.no_panic("ntp/duration-duration", det, || dur_to_i64(dx - dy)) {
        let w = clamp(x as i128 - y as i128);
        check!(c, g == w, "ntp/sub", format!("{x} - {y} = {g}, saturating reference {w}"), det());
    }
    if let Some((p, q)) = c.no_panic("ntp/duration-assign", det, || {
        let mut p = dx;
        p += dy;
        let mut q = dx;
        q -= dy;
        (dur_to_i64(p), dur_to_i64(q))
    }) {
        check!(
            c,
            p == clamp(x as i128 + y as i128) && q == clamp(x as i128 - y as i128),
            "ntp/assign",
            "+=/-= on durations do not saturate like the reference".to_string(),
            det()
        );
    }
    if let Some(g) = c.no_panic("ntp/duration-neg", det, || dur_to_i64(-dx)) {
        let w = clamp(-(x as i128));
        check!(c, g == w, "ntp/neg", format!("-({x}) = {g}, saturating reference {w}"), det());
    }
    if let Some(g) = c.no_panic("ntp/duration-abs", det, || dur_to_i64(dx.abs())) {
        let w = clamp((x as i128).abs());
        check!(c, g == w, "ntp/abs", format!("abs({x}) = {g}, saturating reference {w}"), det());
    }
    if let Some(g) = c.no_panic("ntp/duration-abs_diff", det, || dur_to_i64(dx.abs_diff(dy))) {
        let w = clamp((clamp(x as i128 - y as i128) as i128).abs());
        check!(c, g == w, "ntp/abs_diff", format!("abs_diff({x},{y}) = {g}, saturating reference {w}"), det());
    }
    c.inc("ntp_dur_laws");
    c.sig_of(&("dur", class_i64(x), class_i64(y)));

    // ---- scaling ----
    let width = c.rng.below(8) as u8;
    let k: i64 = match width {
        0 => c.rng.range(i8::MIN as i64, i8::MAX as i64),
        1 => c.rng.range(0, u8::MAX as i64),
        2 => *c.rng.pick(&[i16::MIN as i64, i16::MAX as i64, -1, 1, 0, 2, -2, 1000, -1000]),
        3 => *c.rng.pick(&[u16::MAX as i64, 1, 0, 2, 1000]),
        4 => *c.rng.pick(&[i32::MIN as i64, i32::MAX as i64, -1, 1, 0, 3, -3, 1_000_000]),
        5 => *c.rng.pick(&[u32::MAX as i64, 1, 0, 2, 1_000_000]),
        _ => match c.rng.below(3) {
            0 => *c.rng.pick(&[i64::MIN, i64::MAX, -1, 1, 0, 2, -2]),
            1 => c.rng.range(-1000, 1000),
            _ => c.rng.edge_i64(),
        },
    };
    scalar_ops(c, x, k, width);

    // ---- seconds conversions ----
    let det = || json!({"x": x});
    if let Some(rt) = c.no_panic("ntp/seconds-roundtrip", det, || dur_to_i64(NtpDuration::from_seconds(dx.to_seconds()))) {
        let err = (rt as i128 - x as i128).unsigned_abs();
        let tol = ((x as i128).unsigned_abs() / 1_000_000_000) + 1;
        check!(c, err <= tol, "ntp/seconds-roundtrip", format!("from_seconds(to_seconds({x})) = {rt}: off by {err} units, tolerance {tol}"), det());
    }
    let f = match c.rng.below(6) {
        0 => c.rng.finite_f64(),
        1 => (c.rng.range(-(1 << 31) - 3, (1 << 31) + 3)) as f64 + *c.rng.pick(&[0.0, 0.5, -0.5, 1e-10, -1e-10, 0.999_999_999_9]),
        2 => c.rng.f64_range(-4.0, 4.0),
        3 => c.rng.log_uniform(1e-12, 1e-6) * if c.rng.bool() { 1.0 } else { -1.0 },
        4 => c.rng.f64_range(-2_147_483_648.0, 2_147_483_648.0),
        _ => c.rng.log_uniform(1.0, 1e19) * if c.rng.bool() { 1.0 } else { -1.0 },
    };
    let detf = || json!({"seconds": f, "bits": f.to_bits()});
    if let Some(g) = c.no_panic("ntp/from_seconds", detf, || dur_to_i64(NtpDuration::from_seconds(f))) {
        let sign_ok = (f > 0.0 && g >= 0) || (f < 0.0 && g <= 0) || (f == 0.0 && g == 0);
        check!(c, sign_ok, "ntp/from_seconds-sign", format!("from_seconds({f:e}) = {g}: sign not preserved"), detf());
        let scaled = f * 4294967296.0;
        if scaled >= 9.3e18 {
            check!(c, g == i64::MAX, "ntp/from_seconds-saturate", format!("from_seconds({f:e}) = {g}, expected saturation at MAX"), detf());
        } else if scaled <= -9.3e18 {
            check!(c, g == i64::MIN, "ntp/from_seconds-saturate", format!("from_seconds({f:e}) = {g}, expected saturation at MIN"), detf());
        } else if scaled.abs() < 9.2e18 {
            let err = (g as f64 - scaled).abs();
            let tol = scaled.abs() * 1e-9 + 2.0;
            check!(c, err <= tol, "ntp/from_seconds-value", format!("from_seconds({f:e}) = {g}, expected about {scaled:e} (error {err:e} units)"), detf());
        }
        c.sig_of(&("fromsec", f.to_bits() >> 52, g == i64::MAX, g == i64::MIN));
    }
    c.inc("ntp_seconds");

    // ---- wire encodings of non-negative durations that fit ----
    let w = match c.rng.below(4) {
        0 => c.rng.range(0, 0x0000_FFFF_FFFF_FFFF),
        1 => c.rng.range(0, 0x0000_000F_FFFF_FFFF),
        2 => *c.rng.pick(&[0i64, 1, 15, 16, 17, 65535, 65536, 65537, 0x0000_FFFF_FFFF_FFFF, 0x0000_000F_FFFF_FFFF, 0x0000_FFFF_FFFF_0000]),
        _ => c.rng.range(0, 1 << 20),
    };
    let dw = dur_from_i64(w);
    let detw = || json!({"w": w});
    if w <= 0x0000_FFFF_FFFF_FFFF {
        if let Some(g) = c.no_panic("ntp/short-format", detw, || dur_to_i64(dur_from_bits_short(dur_to_bits_short(dw)))) {
            check!(c, (g - w).abs() < 65536, "ntp/short", format!("short format: {w} -> {g}, more than one unit (65536) off"), detw());
        }
    }
    if (w >> 4) <= u32::MAX as i64 {
        if let Some(g) = c.no_panic("ntp/time32-format", detw, || dur_to_i64(dur_from_bits_time32(dur_to_bits_time32(dw)))) {
            check!(c, (g - w).abs() < 16, "ntp/time32", format!("time32 format: {w} -> {g}, more than one unit (16) off"), detw());
        }
    }
    let bits = c.rng.u32().to_be_bytes();
    if let Some((s, t)) = c.no_panic("ntp/wire-bits", || json!({"bits": bits}), || {
        (dur_to_bits_short(dur_from_bits_short(bits)), dur_to_bits_time32(dur_from_bits_time32(bits)))
    }) {
        check!(c, s == bits && t == bits, "ntp/wire-bits", "decode→encode of a short/time32 value is not the identity".to_string(), json!({"bits": bits}));
    }
    c.inc("ntp_wire");
    c.sample(|| json!({"ts": [a, b], "dur": [x, y], "scalar": [k, width], "seconds": f, "wire": w}));
}

// ---------------- statime-base ----------------
use statime_base::{Duration as PDuration, TAI, Timestamp as PTimestamp};

struct Grab(Vec<u8>);
impl std::hash::Hasher for Grab {
    fn finish(&self) -> u64 {
        0
    }
    fn write(&mut self, bytes: &[u8]) {
        self.0.extend_from_slice(bytes);
    }
}
fn raw_of<T: std::hash::Hash>(t: &T) -> u128 {
    let mut g = Grab(Vec::new());
    t.hash(&mut g);
    let mut b = [0u8; 16];
    b.copy_from_slice(&g.0[..16]);
    u128::from_ne_bytes(b)
}
fn pdur(raw: i128) -> PDuration {
    // raw = hi * 2^64 + lo, built from public constructors only
    let hi = (raw >> 64) as i64;
    let lo = raw as u64;
    let unit = PDuration::from_f64_seconds(1.0 / 18446744073709551616.0); // raw 1
    PDuration::from_seconds_nanos(hi, 0) + unit * lo
}
fn pts(raw: u128) -> PTimestamp<TAI> {
    PTimestamp::<TAI>::UNIX_EPOCH + pdur(raw as i128)
}
fn clamp128(hi_sum: Option<i128>, positive_overflow: bool) -> i128 {
    hi_sum.unwrap_or(if positive_overflow { i128::MAX } else { i128::MIN })
}
fn pick_i128(c: &mut Case) -> i128 {
    match c.rng.below(5) {
        0 => *c.rng.pick(&[0i128, 1, -1, i128::MAX, i128::MIN, i128::MAX - 1, i128::MIN + 1, 1 << 64, -(1 << 64), 1 << 126, -(1 << 126)]),
        1 => ((c.rng.edge_i64() as i128) << 64) | c.rng.edge_u64() as i128,
        2 => c.rng.edge_i64() as i128,
        _ => ((c.rng.i64() as i128) << 64) | c.rng.u64() as i128,
    }
}

fn ptp_case(c: &mut Case) {
    // self-check of the raw constructors (harness sanity, not a property verdict)
    let r = pick_i128(c);
    if raw_of(&pdur(r)) as i128 != r {
        c.harness_error(format!("cannot construct PTP duration with raw value {r}"));
        return;
    }
    let a = pick_i128(c) as u128;
    let b = if c.rng.bool() { a.wrapping_add(pick_i128(c) as u128) } else { pick_i128(c) as u128 };
    let (ta, tb) = (pts(a), pts(b));
    let det = || json!({"a": format!("{a:#x}"), "b": format!("{b:#x}")});
    if let Some(diff) = c.no_panic("ptp/timestamp-sub", det, || raw_of(&(ta - tb)) as i128) {
        let want = a.wrapping_sub(b) as i128;
        check!(c, diff == want, "ptp/ts-sub", format!("PTP timestamp difference {diff} != wrapping reference {want}"), det());
        let d = pdur(diff);
        if let Some((p, q, r2, s)) = c.no_panic("ptp/timestamp+-duration", det, || {
            let mut r2 = tb;
            r2 += d;
            let mut s = ta;
            s -= d;
            (raw_of(&(tb + d)), raw_of(&(ta - d)), raw_of(&r2), raw_of(&s))
        }) {
            check!(c, p == a && r2 == a, "ptp/ts-add-back", "b + (a - b) != a for PTP timestamps".to_string(), det());
            check!(c, q == b && s == b, "ptp/ts-sub-back", "a - (a - b) != b for PTP timestamps".to_string(), det());
        }
        c.sig_of(&("pts", (want >> 120) as i8, want == 0));
    }
    c.inc("ptp_ts_laws");

    let x = pick_i128(c);
    let y = pick_i128(c);
    let (dx, dy) = (pdur(x), pdur(y));
    let det = || json!({"x": x.to_string(), "y": y.to_string()});
    if let Some((p, q, p2, q2)) = c.no_panic("ptp/duration+-duration", det, || {
        let mut p2 = dx;
        p2 += dy;
        let mut q2 = dx;
        q2 -= dy;
        (raw_of(&(dx + dy)) as i128, raw_of(&(dx - dy)) as i128, raw_of(&p2) as i128, raw_of(&q2) as i128)
    }) {
        let wa = clamp128(x.checked_add(y), y > 0);
        let ws = clamp128(x.checked_sub(y), y < 0);
        check!(c, p == wa && p2 == wa, "ptp/add", format!("PTP duration add: got {p}, saturating reference {wa}"), det());
        check!(c, q == ws && q2 == ws, "ptp/sub", format!("PTP duration sub: got {q}, saturating reference {ws}"), det());
    }
    let k: i64 = match c.rng.below(4) {
        0 => c.rng.range(-128, 255),
        1 => *c.rng.pick(&[i64::MIN, i64::MAX, -1, 1, 0, 2, -2]),
        _ => c.rng.edge_i64(),
    };
    let detk = || json!({"x": x.to_string(), "k": k});
    if let Some((m, m2)) = c.no_panic("ptp/duration*scalar", detk, || {
        let mut m2 = dx;
        m2 *= k;
        (raw_of(&(dx * k)) as i128, raw_of(&m2) as i128)
    }) {
        let w = clamp128(x.checked_mul(k as i128), (x > 0) == (k > 0));
        check!(c, m == w && m2 == w, "ptp/mul", format!("PTP duration {x} * {k} = {m}, saturating reference {w}"), detk());
    }
    if k != 0 {
        if let Some(g) = c.no_panic("ptp/duration/scalar", detk, || raw_of(&(dx / k)) as i128) {
            let w = clamp128(x.checked_div(k as i128), true);
            check!(c, g == w, "ptp/div", format!("PTP duration {x} / {k} = {g}, saturating reference {w}"), detk());
        }
    }
    // narrow scalar types go through the same macro; exercise a few
    let k8 = c.rng.range(-128, 127) as i8;
    if let Some(g) = c.no_panic("ptp/duration*i8", detk, || raw_of(&(k8 * dx)) as i128) {
        let w = clamp128(x.checked_mul(k8 as i128), (x > 0) == (k8 > 0));
        check!(c, g == w, "ptp/mul", format!("PTP {k8} * duration {x} = {g}, reference {w}"), detk());
    }
    c.inc("ptp_dur_laws");
    c.sig_of(&("pdur", (x >> 120) as i8, (y >> 120) as i8, k.signum()));

    // seconds conversions: sign preservation and saturation, round trip within 1e-9 + 1 unit
    let f = match c.rng.below(3) {
        0 => c.rng.finite_f64(),
        1 => c.rng.f64_range(-1e6, 1e6),
        _ => c.rng.log_uniform(1e-15, 1e25) * if c.rng.bool() { 1.0 } else { -1.0 },
    };
    let detf = || json!({"seconds": f});
    if let Some(g) = c.no_panic("ptp/from_f64_seconds", detf, || raw_of(&PDuration::from_f64_seconds(f)) as i128) {
        let ok = (f > 0.0 && g >= 0) || (f < 0.0 && g <= 0) || f == 0.0 && g == 0;
        check!(c, ok, "ptp/from_seconds-sign", format!("PTP from_f64_seconds({f:e}) = {g}: sign not preserved"), detf());
        if f >= 1e20 {
            check!(c, g == i128::MAX, "ptp/from_seconds-saturate", "no saturation at MAX".to_string(), detf());
        }
        if f <= -1e20 {
            check!(c, g == i128::MIN, "ptp/from_seconds-saturate", "no saturation at MIN".to_string(), detf());
        }
    }
    if let Some(g) = c.no_panic("ptp/seconds-roundtrip", det, || raw_of(&PDuration::from_f64_seconds(dx.as_seconds())) as i128) {
        // as_seconds of values near i128::MAX rounds up to 2^63 s, which saturates: exclude the top
        if x.unsigned_abs() < (1u128 << 126) {
            let err = (g - x).unsigned_abs();
            let tol = x.unsigned_abs() / 1_000_000_000 + 1;
            check!(c, err <= tol, "ptp/seconds-roundtrip", format!("PTP seconds round trip of {x}: off by {err}, tolerance {tol}"), det());
        }
    }
}

fn run(c: &mut Case) {
    let n_enum = (2 * 256 * LATTICE.len()) as u64;
    if c.idx < n_enum {
        // complete enumeration: every 8-bit scalar (signed and unsigned) x lattice
        let l = LATTICE[(c.idx % LATTICE.len() as u64) as usize];
        let r = c.idx / LATTICE.len() as u64;
        let (width, k) = if r < 256 { (0u8, (r as i64) - 128) } else { (1u8, (r - 256) as i64) };
        scalar_ops(c, l, k, width);
        c.inc("enumerated_8bit");
        // the other counters are required too; run one random case alongside
        ntp_case(c);
        ptp_case(c);
        return;
    }
    ntp_case(c);
    ptp_case(c);
}
